#!/usr/bin/env python3
"""tools/seedtest.py <seed-dir-name> [check-id ...]  -- applies seeded/<name>/patch.diff to /repo, runs the given
checks (default: the property the seed was written for), reverts the patch.  Prints one line per check."""
import os, subprocess, sys, json, time
HERE = os.path.dirname(os.path.dirname(os.path.abspath(__file__)))


def main():
    name = sys.argv[1]
    ids = sys.argv[2:] or [name.split("-")[0]]
    patch = os.path.join(HERE, "seeded", name, "patch.diff")
    st = subprocess.run(["git", "-C", "/repo", "status", "--porcelain", "--untracked-files=no"], capture_output=True, text=True).stdout.strip()
    if st:
        print("refusing: /repo has local modifications:\n" + st); return 2
    r = subprocess.run(["git", "-C", "/repo", "apply", patch], capture_output=True, text=True)
    if r.returncode != 0:
        r = subprocess.run(["git", "-C", "/repo", "apply", "--3way", patch], capture_output=True, text=True)
        if r.returncode != 0:
            # a failed three-way merge leaves conflict markers and an unmerged index behind: restore the tree
            subprocess.run(["git", "-C", "/repo", "checkout", "HEAD", "--", "."], capture_output=True)
            subprocess.run(["git", "-C", "/repo", "reset", "-q"], capture_output=True)
    if r.returncode != 0:
        print("patch does not apply:", r.stderr[:500]); return 2
    res = {}
    try:
        for pid in ids:
            t0 = time.time()
            p = subprocess.run([os.path.join(HERE, "check"), pid, "--tier", os.environ.get("SEED_TIER", "quick")], capture_output=True, text=True, cwd=HERE)
            viol = [l for l in p.stdout.splitlines() if l.startswith("VIOLATION")]
            why = [l for l in p.stdout.splitlines() if "  ->" in l]
            res[pid] = {"rc": p.returncode, "violations": len(viol), "first": (why[0][:300] if why else ""), "no_input": sum("no-failing-input-found" in v for v in viol),
                        "wall_s": round(time.time() - t0, 1)}
            print("%s on %s: rc=%d violations=%d (%d without input) %.0fs  %s" % (pid, name, p.returncode, len(viol), res[pid]["no_input"], time.time() - t0, res[pid]["first"]), flush=True)
    finally:
        subprocess.run(["git", "-C", "/repo", "reset", "-q", "HEAD"], check=False)
        subprocess.run(["git", "-C", "/repo", "checkout", "--", "."], check=True)
    out = os.path.join(HERE, "seeded", name, "detection.json")
    old = json.load(open(out)) if os.path.exists(out) else {}
    old.update(res)
    json.dump(old, open(out, "w"), indent=1)
    return 0


if __name__ == "__main__":
    sys.exit(main())
