"""Table behind MANIFEST.json (tools/mkmanifest.py)."""
HOOK_COMMITS = []
_NOTYET = "check not built yet in this session (will be claimed once its model, theorem and correspondence exist)"
NOT_APPLICABLE = {("C%02d" % i): _NOTYET for i in range(1, 21)}
_TB = "Trusted: Coq 8.16.1 kernel + VM (vm_compute; no native_compute, no extraction); axioms per Print Assumptions in the evidence; the hand-written models (coq/*.v) are tied to /repo only by the correspondence harnesses (harness/*.cpp, checks/*.py, tools/*.py), g++/libstdc++/libm/expat; binary64 rounding is not modelled (tolerance 1e-8 relative against an exact rational reference)."
CHECKS = {
    "C01": {
        "text": "Coq theorems over every real field and all dimensions (MathComp matrices): normal equations => minimal v'Pv; a minimiser orthogonal to null(A) in the selected inner product has minimal selected norm; homogenisation (whitening) equivalence; exact expansion bounding the optimality loss of any candidate. Correspondence: 4 algorithms x {Adj, AdjBase} on generated problems (banded/full covariance blocks, defect 0..2, subsets) compared inside coqc with the exact rational reference model QLsq.adjust whose own optimality conditions are certified exactly per case.",
        "ref": "DESIGN.md section 3 C01", "note": _TB,
        "technique": "Coq proof (MathComp linear algebra) + exact-rational reference model evaluated by vm_compute against the rebuilt solvers",
    },
    "C02": {
        "text": "Coq theorems: any two solutions of the normal equations have equal residuals and sum of squares; the minimum-norm solution is unique when the selection resolves the defect, so every correct algorithm returns the same adjustment. Correspondence: all 4 algorithms x 2 entry points against one exact reference (x, r, ssq, defect, all q_xx, q_bb; non-resolving subsets must raise BadRegularization everywhere) and gama-local --algorithm X on generated networks incl. ill-posed ones (all adjust identically or all refuse).",
        "ref": "DESIGN.md section 3 C02", "note": _TB,
        "technique": "Coq proof (uniqueness theorems) + solver-level and end-to-end differential correspondence",
    },
    "C03": {
        "text": "Coq theorems: A Q A' is a symmetric projector with diagonal in [0,1] for every symmetric reflexive g-inverse Q of A'A; redundancy numbers sum to m - tr(QN) (= m-n when regular); T Q0 T' is again a symmetric PSD reflexive g-inverse when N T = N. Correspondence: q_xx for all index pairs (inside/outside the envelope) and Adj::q_bb against the exact reference Q = T Q0 T' inside coqc; exact N Q N = N, Q N Q = Q, Q S G = 0 on the implementation's numbers as search oracle; --cov-band restriction relation and PSD of the XML covariance end to end.",
        "ref": "DESIGN.md section 3 C03", "note": _TB,
        "technique": "Coq proof (g-inverse / projector algebra) + exact-rational cofactor reference evaluated by vm_compute",
    },
    "C04": {
        "text": "Coq theorems by induction over arbitrary request sequences: the move-to-front cache keeps its buffers a permutation and its keys distinct, a hit returns the bound buffer; a memo cache on top of it that is flushed on every change of the regularisation answers every finite history like a fresh computation, and the unflushed variant (the pinned AdjEnvelope) is refuted with a 3-step witness. Correspondence: MoveToFront<3> vs model on all key sequences <=5 over 4 keys; random and exhaustive short API histories on the four real solver classes under ASan+UBSan, each answer compared with a fresh object.",
        "ref": "DESIGN.md section 3 C04", "note": _TB + " The numerical kernels are abstract in the cache model (a function of mode and key); their determinism is what the history harness measures.",
        "technique": "Coq proof (invariant by induction over operation sequences) + history-vs-fresh differential harness",
    },
    "C12": {
        "text": "Coq theorems: str2xml's output is decoded back to the input by standard XML entity decoding for every byte string (hence no raw < or &), and is injective; correspondence K: Strings.str2xml vs GNU_gama::str2xml exhaustively on short strings over an alphabet with all XML specials plus random hostile strings, compared inside coqc",
        "ref": "DESIGN.md section 3 C12",
        "note": "Trusted: Coq kernel+VM; hand-written model of str2xml tied by K on generated strings; expat as the search oracle. The writers of numbers/structure are covered by the end-to-end read-back relation, not by a theorem.",
        "technique": "Coq proof (induction on the string) + model/implementation correspondence evaluated by vm_compute",
    },
}
