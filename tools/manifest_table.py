"""Table behind MANIFEST.json (tools/mkmanifest.py)."""
HOOK_COMMITS = []
_NOTYET = "check not built yet in this session (will be claimed once its model, theorem and correspondence exist)"
NOT_APPLICABLE = {("C%02d" % i): _NOTYET for i in range(1, 21)}
_TB = "Trusted: Coq 8.16.1 kernel + VM (vm_compute; no native_compute, no extraction); axioms per Print Assumptions in the evidence; the hand-written models (coq/*.v) are tied to /repo only by the correspondence harnesses (harness/*.cpp, checks/*.py, tools/*.py), g++/libstdc++/libm/expat; binary64 rounding is not modelled (tolerance 1e-8 relative against an exact rational reference)."
CHECKS = {
    "C01": {
        "text": "Coq theorems over every real field and all dimensions (MathComp matrices): normal equations => minimal v'Pv; a minimiser orthogonal to null(A) in the selected inner product has minimal selected norm; homogenisation (whitening) equivalence; exact expansion bounding the optimality loss of any candidate. Correspondence: 4 algorithms x {Adj, AdjBase} on generated problems (banded/full covariance blocks, defect 0..2, subsets) compared inside coqc with the exact rational reference model QLsq.adjust whose own optimality conditions are certified exactly per case.",
        "ref": "DESIGN.md section 3 C01", "note": _TB,
        "technique": "Coq proof (MathComp linear algebra) + exact-rational reference model evaluated by vm_compute against the rebuilt solvers",
    },
    "C02": {
        "text": "Coq theorems: any two solutions of the normal equations have equal residuals and sum of squares; the minimum-norm solution is unique when the selection resolves the defect, so every correct algorithm returns the same adjustment. Correspondence: all 4 algorithms x 2 entry points against one exact reference (x, r, ssq, defect, all q_xx, q_bb; non-resolving subsets must raise BadRegularization everywhere) and gama-local --algorithm X on generated networks incl. ill-posed ones (all adjust identically or all refuse).",
        "ref": "DESIGN.md section 3 C02", "note": _TB,
        "technique": "Coq proof (uniqueness theorems) + solver-level and end-to-end differential correspondence",
    },
    "C03": {
        "text": "Coq theorems: A Q A' is a symmetric projector with diagonal in [0,1] for every symmetric reflexive g-inverse Q of A'A; redundancy numbers sum to m - tr(QN) (= m-n when regular); T Q0 T' is again a symmetric PSD reflexive g-inverse when N T = N. Correspondence: q_xx for all index pairs (inside/outside the envelope) and Adj::q_bb against the exact reference Q = T Q0 T' inside coqc; exact N Q N = N, Q N Q = Q, Q S G = 0 on the implementation's numbers as search oracle; --cov-band restriction relation and PSD of the XML covariance end to end.",
        "ref": "DESIGN.md section 3 C03", "note": _TB,
        "technique": "Coq proof (g-inverse / projector algebra) + exact-rational cofactor reference evaluated by vm_compute",
    },
    "C04": {
        "text": "Coq theorems by induction over arbitrary request sequences: the move-to-front cache keeps its buffers a permutation and its keys distinct, a hit returns the bound buffer; a memo cache on top of it that is flushed on every change of the regularisation answers every finite history like a fresh computation, and the unflushed variant (the pinned AdjEnvelope) is refuted with a 3-step witness. Correspondence: MoveToFront<3> vs model on all key sequences <=5 over 4 keys; random and exhaustive short API histories on the four real solver classes under ASan+UBSan, each answer compared with a fresh object.",
        "ref": "DESIGN.md section 3 C04", "note": _TB + " The numerical kernels are abstract in the cache model (a function of mode and key); their determinism is what the history harness measures.",
        "technique": "Coq proof (invariant by induction over operation sequences) + history-vs-fresh differential harness",
    },
    "C05": {
        "text": "Coq theorems (Coquelicot is_derive): the closed forms stored by LocalLinearization are the partial derivatives of horizontal distance, bearing (both charts of the angle), slope distance and zenith angle, and the stored K cos s / K sin s equal c*dx/d^2, c*dy/d^2 whenever (s,d) satisfies the contract of bearing_distance; the two while loops reduce an angular right-hand side into [-200,200] gon modulo 400 gon for every magnitude (the half-open claim is refuted at exactly -200 gon). Correspondence: every row (rhs, index roles, coefficients) of LocalNetwork::project_equations on generated networks with all 13 observation types, built twice, compared inside coqc with the binary64 transliteration LinRun.v; index assignment checked to be a bijection in both builds.",
        "ref": "DESIGN.md section 3 C05", "note": _TB + " Transcendental functions of the float model are FloatFns.v (agreement with libm is what the correspondence measures); the link atan2 <-> (d cos s, d sin s) is the stated contract of bearing_distance, checked numerically under C18.",
        "technique": "Coq proof (Coquelicot derivatives, induction on loop fuel) + row-by-row model/implementation correspondence in vm_compute",
    },
    "C06": {
        "text": "Coq theorems: with a zero right-hand side (what C05 gives at the true coordinates) the zero correction is a minimiser, every minimiser has zero residuals and A x = 0, and a determined network returns exactly zero. End-to-end: error-free generated 1D/2D/3D networks with approximate coordinates exact / perturbed / omitted / heights omitted, with and without instrument heights, free-station terrain cases, all algorithms: adjusted = truth, residuals 0, nothing dropped, monotone under added observations.",
        "ref": "DESIGN.md section 3 C06", "note": _TB + " Convergence of the Gauss-Newton iteration and completeness of the approximate-coordinate heuristics are not proved (partial): they are what the end-to-end relation samples.",
        "technique": "Coq proof (fixed point of linearise-solve-update at the truth) + end-to-end predicted relation on generated consistent networks",
    },
    "C07": {
        "text": "Coq theorems: orthogonal row transformations (reordering), invertible column transformations (renaming / reordering / mirroring unknowns) and consistent rescaling of observation units leave the normal equations' solutions and v'Pv unchanged or map them as prescribed. End-to-end: 9 re-expressions (translation to 5e6 m, circle zero incl. 0/200/400 gon, permutations, renaming incl. numeric/string/non-ASCII ids, degrees, swapped distance ends, mirrored axes, right-handed angles, axis naming) of generated noisy networks give the same adjustment.",
        "ref": "DESIGN.md section 3 C07", "note": _TB + " Parser, PointID ordering and approximate coordinates are covered by the end-to-end relation only.",
        "technique": "Coq proof (equivariance theorems) + metamorphic end-to-end correspondence",
    },
    "C08": {
        "text": "Coq theorems: any two regularised solutions have the same A x, residuals and v'Pv and differ by a null-space element; orthogonality to the null space in the selected inner product gives minimal constrained corrections; A T Q0 T' A' = A Q0 A' when A T = A. Correspondence: singular problems with random resolving subsets on the four solvers against the exact reference; generated free networks (defect 1..4, with/without distances) under pairs of admissible constraint sets: identical residuals, v'Pv, dof, adjusted-observation stdevs, inter-point distances, and corrections orthogonal to translations/rotation/scale.",
        "ref": "DESIGN.md section 3 C08", "note": _TB + " Equality of nonlinear distances/angles between adjusted points holds to second order of the corrections (stated); the check uses 2e-6 m.",
        "technique": "Coq proof (datum invariance) + solver-level and end-to-end correspondence",
    },
    "C09": {
        "text": "Coq theorems: scaling all weights (sigma-apr) keeps the minimisers and scales v'Pv; residual cofactors I - A Q A' are the complementary projector with diagonal in [0,1]; the error-ellipse semi-axes are the eigenvalues of the 2x2 block and the bearing from atan2(2c, a-b)/2 is an eigenvector of the larger one. End-to-end: every numeric field of the XML (dof, m0', confidence scale, chi-square interval and verdict, ellipses from <cov-mat>, per-observation stdev / qrr / standardised residual from f, v, input sigma, m0; redundancy sum) recomputed, for random conf-pr, both sigma-act, dof 0..; sigma-apr metamorphic relation.",
        "ref": "DESIGN.md section 3 C09", "note": _TB + " sigma_L of correlated clusters is what the code computes (the source itself doubts it); per-observation relations are checked for uncorrelated clusters.",
        "technique": "Coq proof (field algebra of the statistics) + end-to-end recomputation of every reported field",
    },
    "C17": {
        "text": "Coq theorems (Reals): Student N=1,2 and chi-square n=1,2 closed forms are the exact quantiles, Normal/Student are exactly antisymmetric in the probability, the N=2 closed form is monotone. Per run: kernel-checked Interval certificates on the implementation's own returned doubles (|integral of the density - (1/2 - alpha)| <= eps) for Normal and Student; binary64 transliteration StatRun.v compared with statan.cpp inside coqc; accuracy 1e-6 / 5e-4 / 5e-3, monotonicity, finiteness down to 1e-12 and the inverse relation evaluated on dense grids against independent reference distributions.",
        "ref": "DESIGN.md section 3 C17", "note": _TB + " The universal accuracy of the rational / Hill / Wilson-Hilferty approximations is not proved (partial): certified pointwise only. Interval relies on the stdlib real axioms and the primitive float/int specifications.",
        "technique": "Coq proof (closed forms) + kernel-checked interval certificates per sample + model correspondence",
    },
    "C18": {
        "text": "Coq theorems: bearing antisymmetry and consistency with the coordinate differences; geodetic -> Cartesian lies on the ellipsoid and the height is recovered exactly from the true latitude; sexagesimal fields from integer decomposition are in range; the pinned integer recogniser accepted a bare sign (refuted; fixed). Correspondence: IsFloat / IsInteger exhaustively over a 9-character alphabet against the Coq recognisers inside coqc; round trips on every ellipsoid (poles, antimeridian, -10 km .. 2e7 m), gon2deg/deg2gon/dms2rad/rad2dms field ranges and round trips, bearing_distance in all quadrants.",
        "ref": "DESIGN.md section 3 C18", "note": _TB + " The size of the Bowring truncation error is sampled, not proved (partial).",
        "technique": "Coq proof + exhaustive recogniser correspondence in vm_compute + round-trip oracles on the rebuilt functions",
    },
    "C10": {
        "text": "Coq theorems: weighting by C = L L' equals ordinary least squares on the whitened system (normal equations, v'Pv, residuals); the band copied by Cluster::activeCov contains every non-zero entry of the sub-matrix of the active observations (positions of a strictly increasing index list grow at least as fast as ranks); CovMat packed addressing is the running sum of the row lengths and has the expected total size. End-to-end: diagonal cov-mat == stdevs, block-diagonal cluster == separate clusters, banded cluster with an excluded observation == explicit sub-matrix, and 7 kinds of malformed matrices refused with a diagnostic by all four algorithms (ASan build in the thorough tier).",
        "ref": "DESIGN.md section 3 C10", "note": _TB,
        "technique": "Coq proof (whitening, band/sub-matrix index arithmetic) + end-to-end equivalence relations",
    },
    "C13": {
        "text": "Coq theorems: a stationary point needs no correction and its re-adjustment reproduces residuals (every other minimiser differs by a datum transformation). End-to-end: three export / re-adjust rounds on generated networks with every cluster type, attribute, axes/angle convention, degrees and removed observations: same points/status/attributes/observations in the export, same results, no further iterations, exports equal as parsed documents.",
        "ref": "DESIGN.md section 3 C13", "note": _TB + " The exporter and parser are not modelled (partial): the relation is checked on the real executables only. One recorded finding (observed coordinates reset approximate ones).",
        "technique": "Coq proof (stationary point theorem) + end-to-end export fixed-point relation",
    },
    "C14": {
        "text": "Coq theorems: excluding rows equals deleting them (selection matrix), and the gross-absolute-term rule is monotone in the misclosure. End-to-end: injected blunders of 0.5..10 x tol-abs on every observation type with several standard deviations and tol-abs values (incl. steep zenith sights), isolated points, single-direction stations, unusable targets (incl. slope distance to a point without height), single determining elements: exclusion follows the positional rule, is listed in the text output, and results equal those of the input with the excluded items deleted, for all algorithms.",
        "ref": "DESIGN.md section 3 C14", "note": _TB + " The revision visitors are not modelled in Coq (partial); one recorded finding (threshold applied to the weight-scaled term).",
        "technique": "Coq proof (row selection) + end-to-end deletion-equivalence relation",
    },
    "C20": {
        "text": "Coq theorems: a regularisation that does not resolve the defect admits a second minimiser with the same residuals and selected norm (no unique adjustment exists, refusal is forced); a non-zero entry of a null vector makes that unknown's column a combination of the others. Correspondence: non-resolving subsets raise BadRegularization in all four solvers (exact reference); unknowns flagged by lindep() on generated ill-posed networks are checked against the rank of the implementation's own project equations; end-to-end: planted deficiencies x 4 algorithms: same refusal/adjustment, nothing undetermined reported as adjusted, no non-finite numbers.",
        "ref": "DESIGN.md section 3 C20", "note": _TB + " Two recorded findings (svd flags by singular-value index; removed points depend on the algorithm's pivot order).",
        "technique": "Coq proof (non-uniqueness / dependence theorems) + rank oracle on the implementation's equations + end-to-end relation",
    },
    "C15": {
        "text": "Coq theorems (MathComp, every field, all dimensions): the pseudo-inverse assembled from an SVD and a generalised inverse of the diagonal factor satisfies the four Moore-Penrose conditions; (AB)' = B'A'; a left inverse of a square matrix is its right inverse; packed SymMat addressing is in bounds and injective. Correspondence K/C: every operator combination of Mat/TransMat/Vec/TransVec/SymMat/CovMat, inverse, Cholesky, SVD and pinv of the rebuilt header library (ASan+UBSan) on exhaustive tiny integer operands and random reals, judged exactly over Q inside coqc (MatRun.v); non-conforming dimensions must raise",
        "ref": "DESIGN.md section 3 C15", "note": _TB + " Floating-point accuracy of SVD / Cholesky is measured by exact residual certificates on the implementation's numbers, not proved.",
        "technique": "Coq proof (MathComp matrix algebra) + exact-rational judge of the implementation's outputs in vm_compute",
    },
    "C16": {
        "text": "Coq theorems: a zero pivot of a Gram matrix has an exactly zero row and column (what the envelope Cholesky relies on when it zeroes a dependent unknown); a symmetric reordering is a similarity of the normal equations; transposition keeps entries; the column-graph model is symmetric without loops. Correspondence K: SparseMatrix build/transpose/replicate, column graph, connectivity, reverse Cuthill-McKee permutation and inverse, Envelope set/cholDec/solve/inverse, BlockDiagonal::cholDec of the rebuilt library (ASan+UBSan) against dense exact definitions evaluated inside coqc (SparseRun.v) on all 0/1 patterns up to 3x3 and random patterns up to 12x7, arbitrary right-hand sides",
        "ref": "DESIGN.md section 3 C16", "note": _TB + " The quality (bandwidth) of the ordering is not a correctness matter and is not claimed.",
        "technique": "Coq proof (MathComp) + dense exact reference evaluated by vm_compute against the sparse kernels",
    },
    "C19": {
        "text": "Coq theorems (Reals/Coquelicot): the local north-east-up frame is orthonormal at every latitude/longitude and the rotation preserves length; the coefficients of the g3 zenith angle, direction and horizontal angle (left target with the opposite sign) are the partial derivatives of the observation functions; acos plus the sign of the triple product recovers every angle in [0, 400 gon); approximate coordinates through a vector with antenna heights are exact for a common vertical (and the pre-repair formulas are refuted by witnesses); LsqSpec theorems for algorithm / order independence. Correspondence K: G3Run.rows (binary64 transliteration of Model::linearization) against the rows of the design matrix and absolute terms dumped from the rebuilt g3 model, judged inside coqc; E: generated ECEF networks through the rebuilt gama-g3 (truth recovered, statistics, four algorithms, shuffled records, project-equation dump re-adjusted by Adj, absolute term = row * (truth - approximation))",
        "ref": "DESIGN.md section 3 C19", "note": _TB + " gama-g3 linearises once: agreement with the truth is required up to the second-order term of the approximate coordinates' error (stated in the evidence). Azimuths are refused by the g3 parser and are outside the model; deflections of the vertical are zero in the model.",
        "technique": "Coq proof (Coquelicot derivatives, trigonometric identities by nsatz) + row-by-row model/implementation correspondence in vm_compute + end-to-end predicted relations",
    },
    "C11": {
        "text": "Translator (tools/gkf_translate.py) regenerates the Gallina tables of GKFparser (states, tags, startElement / endElement / characterDataHandler transitions, tag()) from lib/gnu_gama/xml/gkfparser.{h,cpp} on every run. Coq theorems over the regenerated tables, for event sequences of any length (finite checks over all states x tags lifted by induction): the automaton is the stack machine of an element grammar -- it reaches state_stop on the events of a document exactly when the document belongs to the grammar; every document valid for the element structure of xml/gama-local.xsd is accepted; every tag-level refusal goes through error() and carries a line; the error state is absorbing; tag() recognises exactly the documented names; IsInteger accepts exactly the documented integer literals and IsFloat only documented floating literals. Correspondence K (ASan+UBSan, real GKFparser): every well-formed event sequence from model-accepted prefixes up to a bound extended by any event, rendered with valid attributes, plus random schema documents with perturbations -- verdict and error line against the regenerated model and the hand-written grammars evaluated inside coqc; every two-chunk split; the 8-bit encoding tables byte by byte; literal recognisers exhaustively. E: gama-local, gama-g3 and gama-local-deformation under ASan+UBSan on mutated inputs and option combinations",
        "ref": "DESIGN.md section 3 C11", "note": _TB + " Trusted additionally: the translator (a mis-translation is caught by K, which compares the regenerated model with the running parser on every enumerated document). Memory safety and termination of the C++ are observed under sanitizers on generated inputs, not proved (partial): no Coq model can exhibit them. Attribute-level checks of the process_* handlers are covered by K/E only.",
        "technique": "translator-regenerated Coq model + proof by finite check and induction + model/implementation correspondence in vm_compute + sanitizer runs of the executables",
    },
    "C12": {
        "text": "Coq theorems: str2xml's output is decoded back to the input by standard XML entity decoding for every byte string (hence no raw < or &), and is injective; correspondence K: Strings.str2xml vs GNU_gama::str2xml exhaustively on short strings over an alphabet with all XML specials plus random hostile strings, compared inside coqc. E (rebuilt gama-local under ASan+UBSan, generated networks with hostile ids / descriptions, correlated clusters, all eight axes declarations, --cov-band): the adjustment XML is well-formed, gama's own reader (LocalNetworkAdjustmentResults::read_xml) stores exactly what an independent parse finds in the file, adjusted distances / height differences / vector components / observed coordinates equal the values computed from the adjusted coordinates of the same file, the text report carries the same coordinates, the covariance band is as requested",
        "ref": "DESIGN.md section 3 C12",
        "note": "Trusted: Coq kernel+VM; hand-written model of str2xml tied by K on generated strings; expat as the search oracle. The writers of numbers/structure are covered by the end-to-end read-back relation, not by a theorem.",
        "technique": "Coq proof (induction on the string) + model/implementation correspondence evaluated by vm_compute",
    },
}
