"""Table behind MANIFEST.json (tools/mkmanifest.py)."""
HOOK_COMMITS = []
_NOTYET = "check not built yet in this session (will be claimed once its model, theorem and correspondence exist)"
NOT_APPLICABLE = {("C%02d" % i): _NOTYET for i in range(1, 21)}
CHECKS = {
    "C12": {
        "text": "Coq theorems: str2xml's output is decoded back to the input by standard XML entity decoding for every byte string (hence no raw < or &), and is injective; correspondence K: Strings.str2xml vs GNU_gama::str2xml exhaustively on short strings over an alphabet with all XML specials plus random hostile strings, compared inside coqc",
        "ref": "DESIGN.md section 3 C12",
        "note": "Trusted: Coq kernel+VM; hand-written model of str2xml tied by K on generated strings; expat as the search oracle. The writers of numbers/structure are covered by the end-to-end read-back relation, not by a theorem.",
        "technique": "Coq proof (induction on the string) + model/implementation correspondence evaluated by vm_compute",
    },
}
