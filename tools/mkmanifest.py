#!/usr/bin/env python3
"""Regenerates /verif/MANIFEST.json from the table below (keeps it schema-valid at all times)."""
import json, os, sys
HERE = os.path.dirname(os.path.dirname(os.path.abspath(__file__)))
sys.path.insert(0, HERE)
from tools.manifest_table import CHECKS, NOT_APPLICABLE, HOOK_COMMITS

def main():
    checks = []
    for pid, c in sorted(CHECKS.items()):
        checks.append({
            "property_id": pid,
            "quick_cmd": "./check %s --tier quick" % pid,
            "thorough_cmd": "./check %s --tier thorough" % pid,
            "evidence_file": "evidence/%s.json" % pid,
            "replay_cmd_template": "./check %s --replay {path}" % pid,
            "engine": "coq-proof+correspondence",
            "level_claimed": {"category": "proof", "text": c["text"], "design_ref": c["ref"]},
            "level_note": c["note"],
            "technique": c["technique"],
        })
    m = {
        "version": 1,
        "setup_cmd": "./setup.sh",
        "hooks": {
            "guard": "GAMA_VERIF",
            "enable": "checks compile /repo's working tree with -DGAMA_VERIF (cmake -DCMAKE_CXX_FLAGS / g++ -DGAMA_VERIF); no source hook is currently needed: harnesses reach private state with '#define private public' inside their own translation units",
            "baseline_off_cmd": "ctest --test-dir /repo/_build -j1 --timeout 900",
            "source_commits": HOOK_COMMITS,
            "add_only": True,
        },
        "engines": [{
            "name": "coq-proof+correspondence",
            "path": "coq/ (Coq 8.16.1 development), harness/ (C++ drivers built against /repo's working tree), checks/ + tools/ (python3 drivers)",
            "serves_properties": sorted(CHECKS),
            "kind_free_text": "machine-checked proof in Coq of the property over a hand-written Gallina model; the model is tied to /repo on every run by a correspondence check (model evaluated by vm_compute inside coqc vs the rebuilt implementation on the same generated cases) and by evaluating the relations the theorems predict on the rebuilt executables",
        }],
        "checks": checks,
        "not_applicable": [{"property_id": p, "reason": r} for p, r in sorted(NOT_APPLICABLE.items()) if p not in CHECKS],
        "notes": "See DESIGN.md. KNOWN_FINDINGS.txt lists recorded findings and repaired defects.",
    }
    with open(os.path.join(HERE, "MANIFEST.json"), "w") as f:
        json.dump(m, f, indent=1)
    try:
        import jsonschema
        jsonschema.validate(m, json.load(open("/root/.vp/MANIFEST.schema.json")))
        print("MANIFEST.json valid:", len(checks), "checks,", len(m["not_applicable"]), "not applicable")
    except ImportError:
        print("written (jsonschema not available to validate)")

if __name__ == "__main__":
    main()
