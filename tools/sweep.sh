#!/bin/sh
# tools/sweep.sh <seed> ...   -- runs every check (quick tier) with the given seeds on the current tree, 4 at a time;
# prints one line per run and every VIOLATION line.  Used to look for alarms on the unchanged tree.
cd "$(dirname "$0")/.."
for seed in "$@"; do
  for id in C01 C02 C03 C04 C05 C06 C07 C08 C09 C10 C11 C12 C13 C14 C15 C16 C17 C18 C19 C20; do
    echo "$seed $id"
  done
done | xargs -P 4 -L 1 sh -c 'out=$(VERIF_SEED=$0 ./check $1 --tier ${SWEEP_TIER:-quick} 2>&1); rc=$?; echo "seed=$0 $1 rc=$rc $(echo "$out" | grep "done:" | sed "s/.*done://")"; echo "$out" | grep -A1 "^VIOLATION" | cut -c1-300'
