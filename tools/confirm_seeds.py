#!/usr/bin/env python3
"""tools/confirm_seeds.py [seed ...]  -- confirms every seeded change in a scratch worktree of /repo (never in /repo):
   1. the demonstration passes on the clean tree (exit 0 = property holds),
   2. the patch applies to /repo's HEAD, the tree builds, the pinned suite passes (ctest -j1),
   3. the demonstration fails with the patch applied (non-zero = property violated).
Writes seeded/<id>/meta.json (property, what the change is, what it needs to manifest, what was run and observed,
which checks detect it -- the latter from detection.json written by tools/seedtest.py).  Removes the worktree."""
import json, os, re, subprocess, sys, time

HERE = os.path.dirname(os.path.dirname(os.path.abspath(__file__)))
WT = "/tmp/wt_confirm_seeds"


def sh(cmd, cwd=None, timeout=3600):
    p = subprocess.run(cmd, shell=isinstance(cmd, str), cwd=cwd, capture_output=True, text=True, timeout=timeout, errors="replace")
    return p.returncode, p.stdout + p.stderr


def sections(readme):
    out = {}
    cur = None
    for line in readme.splitlines():
        m = re.match(r"^##\s+(.*)", line)
        if m:
            cur = m.group(1).strip()
            out[cur] = []
        elif cur:
            out[cur].append(line)
    return {k: "\n".join(v).strip() for k, v in out.items()}


def pick(sec, *keys):
    for k, v in sec.items():
        if any(x in k.lower() for x in keys):
            return v
    return ""


def build(wt):
    return sh("cmake --build _build -j16 2>&1 | tail -3", cwd=wt)


def ctest(wt):
    rc, out = sh("ctest --test-dir _build -j1 --timeout 900 2>&1 | tail -5", cwd=wt)
    m = re.search(r"(\d+)% tests passed, (\d+) tests failed out of (\d+)", out)
    return (m.group(0) if m else out[-200:]), bool(m and m.group(2) == "0")


def main():
    seeds = sys.argv[1:] or sorted(d for d in os.listdir(os.path.join(HERE, "seeded")) if os.path.isdir(os.path.join(HERE, "seeded", d)))
    sh(["git", "-C", "/repo", "worktree", "remove", "--force", WT])
    rc, out = sh(["git", "-C", "/repo", "worktree", "add", "--detach", WT, "HEAD"])
    if rc != 0:
        print(out); return 2
    head = sh(["git", "-C", "/repo", "rev-parse", "--short", "HEAD"])[1].strip()
    try:
        rc, out = sh("cmake -G Ninja -S . -B _build -DCMAKE_BUILD_TYPE=Release >/dev/null && cmake --build _build -j16 2>&1 | tail -2", cwd=WT)
        print("clean build:", out.strip()[-120:], flush=True)
        for name in seeds:
            d = os.path.join(HERE, "seeded", name)
            t0 = time.time()
            readme = open(os.path.join(d, "README.md")).read() if os.path.exists(os.path.join(d, "README.md")) else ""
            sec = sections(readme)
            patch = os.path.join(d, "patch.diff")
            files = re.findall(r"^\+\+\+ b/(\S+)", open(patch).read(), re.M)
            meta = {"id": name, "property": name.split("-")[0], "files_changed": files,
                    "title": (readme.splitlines() or [""])[0].lstrip("# ").strip(),
                    "breaks": pick(sec, "property")[:3000],
                    "needs_to_manifest": pick(sec, "manifest")[:3000] or "see README.md (the demonstration input)",
                    "demonstration": "demo.sh <worktree>: exit 0 = the property holds, non-zero = violated; files: " +
                                     ", ".join(sorted(f for f in os.listdir(d) if f not in ("meta.json", "detection.json", "patch.diff", "patch.orig.diff", "README.md"))),
                    "confirmed_on": {"repo_head": head, "date": time.strftime("%Y-%m-%d")}}
            demo = os.path.join(d, "demo.sh")
            ran = {}
            if os.path.exists(demo):
                rc0, o0 = sh(["sh", demo, WT], timeout=1800)
                ran["demo_on_clean_tree"] = {"exit": rc0, "tail": o0.strip()[-400:]}
            rc, out = sh(["git", "apply", "--3way", patch], cwd=WT)
            if rc != 0:
                rc, out = sh(["git", "apply", patch], cwd=WT)
            ran["patch_applies_to_head"] = rc == 0
            if rc == 0:
                rcb, ob = build(WT)
                ran["builds"] = "error" not in ob.lower() and "FAILED" not in ob
                ran["ctest"], ran["suite_passes"] = ctest(WT)
                if os.path.exists(demo):
                    rc1, o1 = sh(["sh", demo, WT], timeout=1800)
                    ran["demo_with_patch"] = {"exit": rc1, "tail": o1.strip()[-600:]}
                sh("git reset -q HEAD; git checkout -- .; git clean -fdq -e _build", cwd=WT)
                build(WT)
            else:
                ran["apply_error"] = out[-300:]
            meta["what_was_run"] = ran
            meta["confirmed"] = bool(ran.get("patch_applies_to_head") and ran.get("suite_passes") and
                                     ran.get("demo_on_clean_tree", {}).get("exit") == 0 and ran.get("demo_with_patch", {}).get("exit", 0) != 0)
            det = os.path.join(d, "detection.json")
            if os.path.exists(det):
                dj = json.load(open(det))
                meta["checks_run_against_it"] = {k: {"detected": v["rc"] == 1 and v["violations"] > 0, "violations": v["violations"],
                                                     "without_input": v.get("no_input", 0), "first": v.get("first", "")[:300]} for k, v in dj.items()}
                meta["detected_by"] = sorted(k for k, v in dj.items() if v["rc"] == 1 and v["violations"] > 0)
            mp = os.path.join(d, "meta.json")
            if os.path.exists(mp):
                try:
                    oldm = json.load(open(mp))
                    for k in ("status", "note", "origin"):      # hand-written annotations survive a re-confirmation
                        if k in oldm:
                            meta[k] = oldm[k]
                except ValueError:
                    pass
            json.dump(meta, open(mp, "w"), indent=1)
            print("%s confirmed=%s applies=%s suite=%s demo clean/patched=%s/%s  %.0fs" % (
                name, meta["confirmed"], ran.get("patch_applies_to_head"), ran.get("ctest"), ran.get("demo_on_clean_tree", {}).get("exit"),
                ran.get("demo_with_patch", {}).get("exit"), time.time() - t0), flush=True)
    finally:
        sh(["git", "-C", "/repo", "worktree", "remove", "--force", WT])
        sh(["rm", "-rf", WT])
    return 0


if __name__ == "__main__":
    sys.exit(main())
