#!/bin/sh
# runs every seeded change against its own check (and the checks known to catch the ones their own check cannot reach)
cd "$(dirname "$0")/.."
for d in seeded/*/; do
  s=$(basename $d); own=${s%%-*}
  extra=""
  case $s in C01-b|C03-a|C02-b) extra="C04";; C07-a) extra="C05";; esac
  python3 tools/seedtest.py $s $own $extra 2>&1 | grep " on " | cut -c1-260
done
python3 - <<'PY'
import json,os,glob
for d in sorted(glob.glob("seeded/*/")):
    m=os.path.join(d,"meta.json"); dt=os.path.join(d,"detection.json")
    if os.path.exists(m) and os.path.exists(dt):
        meta=json.load(open(m)); dj=json.load(open(dt))
        meta["checks_run_against_it"]={k:{"detected":v["rc"]==1 and v["violations"]>0,"violations":v["violations"],"without_input":v.get("no_input",0),"first":v.get("first","")[:300]} for k,v in dj.items()}
        meta["detected_by"]=sorted(k for k,v in dj.items() if v["rc"]==1 and v["violations"]>0)
        json.dump(meta,open(m,"w"),indent=1)
PY
