#!/usr/bin/env python3
"""Translator: lib/gnu_gama/xml/gkfparser.{h,cpp}  ->  coq/GkfGen.v   (C11)

Regenerated from /repo's working tree on every run.  It extracts, from the C++ text,
  * the enumerations gkf_tag and gkf_state (order kept: state_error must be the first, i.e. 0),
  * GKFparser::tag(): the (first character, name, tag) triples of the switch on *c,
  * GKFparser::startElement(): for every `case state_X:` the inner `switch (ntag)` with, per tag, either
    `return process_Z(atts)` (the state process_Z assigns first), `return (state = state_Y)`, or
    `return error(...)`; label groups whose body is a bare `return error(...)`; the outer default,
  * GKFparser::endElement(): per state the assigned state, whether a finish_*() follows, or a call of error(),
  * GKFparser::characterDataHandler(): the states that collect text.
Anything the translator does not recognise makes it fail loudly (TranslateError) instead of guessing.
"""
import os, re, sys


class TranslateError(Exception):
    pass


def strip_comments(s):
    out = []
    i = 0
    n = len(s)
    while i < n:
        c = s[i]
        if s.startswith("//", i):
            j = s.find("\n", i)
            i = n if j < 0 else j
        elif s.startswith("/*", i):
            j = s.find("*/", i + 2)
            if j < 0:
                raise TranslateError("unterminated comment")
            out.append(" ")
            i = j + 2
        elif c == '"':
            j = i + 1
            while j < n and s[j] != '"':
                j += 2 if s[j] == "\\" else 1
            out.append(s[i:j + 1])
            i = j + 1
        elif c == "'":
            j = i + 1
            while j < n and s[j] != "'":
                j += 2 if s[j] == "\\" else 1
            out.append(s[i:j + 1])
            i = j + 1
        else:
            out.append(c)
            i += 1
    return "".join(out)


def body_after(s, pos):
    """text between the braces that open at/after pos (strings are respected)"""
    i = s.index("{", pos)
    depth = 0
    j = i
    n = len(s)
    while j < n:
        c = s[j]
        if c == '"' or c == "'":
            q = c
            j += 1
            while s[j] != q:
                j += 2 if s[j] == "\\" else 1
        elif c == "{":
            depth += 1
        elif c == "}":
            depth -= 1
            if depth == 0:
                return s[i + 1:j], j + 1
        j += 1
    raise TranslateError("unbalanced braces")


def enum_members(h, name):
    m = re.search(r"enum\s+%s\s*\{" % name, h)
    if not m:
        raise TranslateError("enum %s not found" % name)
    body, _ = body_after(h, m.start())
    mem = [x.strip() for x in body.split(",") if x.strip()]
    for x in mem:
        if not re.fullmatch(r"[A-Za-z_]\w*", x):
            raise TranslateError("enum %s: member %r has an initialiser or is not an identifier" % (name, x))
    return mem


def function_body(src, signature_re):
    m = re.search(signature_re, src)
    if not m:
        raise TranslateError("function %s not found" % signature_re)
    return body_after(src, m.end() - 1)[0]


def split_cases(body):
    """split the body of a switch into [(labels, text)] ; labels: list of identifiers / char literals or 'default'"""
    # positions of `case X:` / `default:` at nesting depth 0
    items = []
    depth = 0
    i = 0
    n = len(body)
    marks = []
    while i < n:
        c = body[i]
        if c == '"' or c == "'":
            q = c
            i += 1
            while body[i] != q:
                i += 2 if body[i] == "\\" else 1
        elif c in "{(":
            depth += 1
        elif c in "})":
            depth -= 1
        elif depth == 0:
            m = re.match(r"case\s+('(?:\\.|[^'])'|[A-Za-z_]\w*)\s*:(?!:)", body[i:])
            if m and (i == 0 or not (body[i - 1].isalnum() or body[i - 1] == "_")):
                marks.append((i, i + m.end(), m.group(1)))
                i += m.end()
                continue
            m = re.match(r"default\s*:", body[i:])
            if m and (i == 0 or not (body[i - 1].isalnum() or body[i - 1] == "_")):
                marks.append((i, i + m.end(), "default"))
                i += m.end()
                continue
        i += 1
    if body[:marks[0][0]].strip() if marks else body.strip():
        raise TranslateError("text before the first case label: %r" % body[:80])
    groups = []
    labels = []
    for k, (a, b, lab) in enumerate(marks):
        labels.append(lab)
        end = marks[k + 1][0] if k + 1 < len(marks) else n
        text = body[b:end].strip()
        if text:
            groups.append((labels, text))
            labels = []
    if labels:
        raise TranslateError("case labels %s without a body" % labels)
    return groups


def first_state_assignment(fbody, fname):
    m = re.search(r"\bstate\s*=\s*(state_\w+)\s*;", fbody)
    if not m:
        raise TranslateError("%s assigns no state" % fname)
    # must come before any return, except guards of the form  `if (<call>) return <value>;`  that pass an error on
    # (the refusal of the callee: the state is already state_error and the line is recorded)
    head = fbody[:m.start()]
    head = re.sub(r"\bif\s*\(\s*\w+\s*\(\s*\w*\s*\)\s*\)\s*return\s+[^;]*;", " ", head)
    if re.search(r"\breturn\b", head):
        raise TranslateError("%s returns before it assigns its state" % fname)
    return m.group(1)


def translate(repo):
    h = strip_comments(open(os.path.join(repo, "lib/gnu_gama/xml/gkfparser.h")).read())
    c = strip_comments(open(os.path.join(repo, "lib/gnu_gama/xml/gkfparser.cpp")).read())
    both = h + "\n" + c
    tags = enum_members(h, "gkf_tag")
    states = enum_members(h, "gkf_state")
    if states[0] != "state_error":
        raise TranslateError("state_error is not the first state (CoreParser relies on state_error == 0)")

    # ---- process_* -> first assigned state
    proc_state = {}
    proc_attr = {}      # process_* -> (inspects *atts, names compared, callees given atts)
    for m in re.finditer(r"\bint\s+(?:GKFparser::)?(process_\w+)\s*\(\s*const\s+char\s*\*\*\s*\w*\s*\)\s*\{", both):
        fb = body_after(both, m.end() - 1)[0]
        name = m.group(1)
        inspects = bool(re.search(r"\*\s*atts", fb))
        names = re.findall(r'\b(?:nam|jmeno)\s*==\s*"([^"]*)"', fb)
        if names and not inspects:
            raise TranslateError("%s compares attribute names without walking atts" % name)
        REFUSAL = r"return\s+error\s*\(\s*T_GKF_(?:undefined_attribute|bad_network_configuration_unknown_parameter)"
        if inspects:
            ends = [x.end() for x in re.finditer(REFUSAL, fb)]
            if not ends:
                raise TranslateError("%s walks its attributes but never refuses a name it does not know (no `return error(T_GKF_undefined_attribute...`)" % name)
            # every comparison belongs to one if / else-if chain that ends in the refusal: at least as many `else` as names
            chain = len(re.findall(r"\belse\b", fb[:ends[-1]]))
            if names and chain < len(names):
                raise TranslateError("%s: %d attribute names but only %d else branches before the refusal" % (name, len(names), chain))
        proc_attr[name] = (inspects, names, [x for x in re.findall(r"\b(process_\w+)\s*\(\s*atts\s*\)", fb) if x != name])
        if name == "process_cov":
            continue
        proc_state[name] = first_state_assignment(fb, name)

    def attrs_of(fn, seen=()):
        """None: the attributes are not looked at; else the list of names that are not refused"""
        if fn in seen or fn not in proc_attr:
            raise TranslateError("attribute table of %s" % fn)
        inspects, names, callees = proc_attr[fn]
        res = list(names) if inspects else None
        for c in callees:
            sub = attrs_of(c, seen + (fn,))
            if sub is not None:
                res = list(sub) if res is None else res + [x for x in sub if x not in res]
        return res

    # ---- tag()
    tb = function_body(c, r"GKFparser::gkf_tag\s+GKFparser::tag\s*\(\s*const\s+char\s*\*\s*c\s*\)\s*\{")
    m = re.search(r"switch\s*\(\s*\*\s*c\s*\)\s*\{", tb)
    if not m:
        raise TranslateError("tag(): switch (*c) not found")
    sb, after = body_after(tb, m.end() - 1)
    if not re.fullmatch(r"\s*return\s+tag_unknown\s*;\s*", tb[after:]):
        raise TranslateError("tag(): unexpected text after the switch: %r" % tb[after:][:80])
    tag_table = []
    for labels, text in split_cases(sb):
        rest = text
        while True:
            mm = re.match(r'\s*if\s*\(\s*!\s*strcmp\s*\(\s*c\s*,\s*"([^"]*)"\s*\)\s*\)\s*return\s+(tag_\w+)\s*;', rest)
            if not mm:
                break
            for lab in labels:
                if lab == "default" or not re.fullmatch(r"'.'", lab):
                    raise TranslateError("tag(): label %s" % lab)
                tag_table.append((lab[1], mm.group(1), mm.group(2)))
            rest = rest[mm.end():]
        if not re.fullmatch(r"\s*break\s*;\s*", rest):
            raise TranslateError("tag(): unexpected statement %r" % rest[:80])

    # ---- startElement
    sbody = function_body(c, r"int\s+GKFparser::startElement\s*\([^)]*\)\s*\{")
    m = re.search(r"const\s+gkf_tag\s+ntag\s*=\s*tag\s*\(\s*cname\s*\)\s*;\s*switch\s*\(\s*state\s*\)\s*\{", sbody)
    if not m:
        raise TranslateError("startElement: `const gkf_tag ntag = tag(cname); switch (state)` not found")
    sw, after = body_after(sbody, m.end() - 1)
    if not re.fullmatch(r"\s*return\s+0\s*;\s*", sbody[after:]):
        raise TranslateError("startElement: unexpected text after the switch")
    start = {}          # state -> {tag -> ('go', state) | ('err',)} , '_' default
    start_default = None

    def action(text, where):
        mm = re.fullmatch(r"return\s+(process_\w+)\s*\(\s*atts\s*\)\s*;", text)
        if mm:
            if mm.group(1) not in proc_state:
                raise TranslateError("%s: %s has no state" % (where, mm.group(1)))
            return ("go", proc_state[mm.group(1)], mm.group(1))
        mm = re.fullmatch(r"return\s*\(\s*state\s*=\s*(state_\w+)\s*\)\s*;", text)
        if mm:
            return ("go", mm.group(1)) if mm.group(1) != "state_error" else ("silent",)
        if re.fullmatch(r"return\s+error\s*\(.*\)\s*;", text, re.S):
            return ("err",)
        raise TranslateError("%s: unrecognised action %r" % (where, text[:100]))

    for labels, text in split_cases(sw):
        if labels == ["default"]:
            start_default = action(text, "startElement default")
            continue
        if "default" in labels:
            raise TranslateError("startElement: default mixed with case labels")
        mm = re.match(r"switch\s*\(\s*ntag\s*\)\s*\{", text)
        if mm:
            inner, aft = body_after(text, mm.end() - 1)
            if text[aft:].strip():
                raise TranslateError("startElement %s: text after inner switch" % labels)
            tbl = {}
            for ilabels, itext in split_cases(inner):
                a = action(itext.strip(), "startElement %s/%s" % (labels, ilabels))
                for il in ilabels:
                    tbl["_" if il == "default" else il] = a
            if "_" not in tbl:
                raise TranslateError("startElement %s: inner switch without default (falls through to return 0)" % labels)
        else:
            t2 = text.strip()
            if t2.startswith("{"):
                t2 = body_after(t2, 0)[0].strip()
            tbl = {"_": action(t2, "startElement %s" % labels)}
        for lab in labels:
            if lab in start:
                raise TranslateError("startElement: state %s twice" % lab)
            start[lab] = tbl
    if start_default is None:
        raise TranslateError("startElement: no outer default")

    # ---- endElement
    ebody = function_body(c, r"int\s+GKFparser::endElement\s*\([^)]*\)\s*\{")
    m = re.search(r"switch\s*\(\s*state\s*\)\s*\{", ebody)
    sw, after = body_after(ebody, m.end() - 1)
    if not re.fullmatch(r"\s*return\s+0\s*;\s*", ebody[after:]):
        raise TranslateError("endElement: unexpected text after the switch")
    end = {}
    for labels, text in split_cases(sw):
        stmts = [x.strip() for x in text.split(";") if x.strip()]
        if stmts[-1] != "break":
            raise TranslateError("endElement %s: does not end with break" % labels)
        stmts = stmts[:-1]
        act = None
        fin = None
        for st in stmts:
            mm = re.fullmatch(r"state\s*=\s*(state_\w+)", st)
            if mm:
                act = ("go", mm.group(1)) if mm.group(1) != "state_error" else ("silent",)
            elif re.fullmatch(r"finish_\w+\s*\(\s*\)", st):
                fin = st.split("(")[0].strip()
            elif re.fullmatch(r"error\s*\(.*\)", st, re.S):
                act = ("err",)
            elif re.fullmatch(r"lnet\.description\s*=\s*description", st):
                pass
            else:
                raise TranslateError("endElement %s: unrecognised statement %r" % (labels, st[:100]))
        if act is None:
            raise TranslateError("endElement %s: no state change" % labels)
        for lab in labels:
            end["_" if lab == "default" else lab] = act + ((fin,) if act[0] == "go" else ())
    if "_" not in end:
        raise TranslateError("endElement: no default")

    # ---- characterDataHandler: states that take text
    cb = function_body(c, r"int\s+GKFparser::characterDataHandler\s*\([^)]*\)\s*\{")
    text_states = re.findall(r"state\s*==\s*(state_\w+)", cb)
    if "error" not in cb:
        raise TranslateError("characterDataHandler: no error() for illegal text")

    # ---- attribute names per (state, tag): the names the handler of the transition does not refuse
    attrs = {}
    for s_, tbl in start.items():
        for t_, a in tbl.items():
            if t_ != "_" and a[0] == "go":
                attrs[(s_, t_)] = attrs_of(a[2]) if len(a) > 2 else None

    return {"tags": tags, "states": states, "tag_table": tag_table, "start": start, "start_default": start_default,
            "end": end, "text_states": text_states, "proc_state": proc_state, "attrs": attrs, "xsd": translate_xsd(repo)}


def translate_xsd(repo):
    """xml/gama-local.xsd -> {"attrs": [(element, [(attribute, required)])],  "content": {element: (dfa, finals)}, "text": [elements], "root": [names]}
    Attributes are declared inline (one complexType per element).  Content models: xs:sequence / xs:choice / xs:element ref
    with minOccurs / maxOccurs, a complexContent extension of a named complexType; turned into a deterministic automaton
    by Brzozowski derivatives (state 0 = start; a missing transition refuses)."""
    import xml.etree.ElementTree as ET
    XS = "{http://www.w3.org/2001/XMLSchema}"
    root = ET.parse(os.path.join(repo, "xml/gama-local.xsd")).getroot()
    named = {ct.get("name"): ct for ct in root.findall(XS + "complexType")}
    attrs, content, text = [], {}, []

    # regular expressions: ("eps",) ("sym", a) ("cat", r, s) ("alt", frozenset) ("star", r) ; None = empty language
    EPS = ("eps",)

    def cat(a, b):
        if a is None or b is None:
            return None
        if a == EPS:
            return b
        if b == EPS:
            return a
        return ("cat", a, b)

    def alt(xs):
        fl = set()
        for x in xs:
            if x is None:
                continue
            if x[0] == "alt":
                fl |= set(x[1])
            else:
                fl.add(x)
        if not fl:
            return None
        if len(fl) == 1:
            return next(iter(fl))
        return ("alt", frozenset(fl))

    def star(a):
        if a is None or a == EPS:
            return EPS
        if a[0] == "star":
            return a
        return ("star", a)

    def nullable(r):
        if r is None:
            return False
        k = r[0]
        if k == "eps" or k == "star":
            return True
        if k == "sym":
            return False
        if k == "cat":
            return nullable(r[1]) and nullable(r[2])
        return any(nullable(x) for x in r[1])

    def deriv(r, a):
        if r is None:
            return None
        k = r[0]
        if k == "eps":
            return None
        if k == "sym":
            return EPS if r[1] == a else None
        if k == "cat":
            d = cat(deriv(r[1], a), r[2])
            return alt([d, deriv(r[2], a)]) if nullable(r[1]) else d
        if k == "alt":
            return alt([deriv(x, a) for x in r[1]])
        return cat(deriv(r[1], a), r)

    def occurs(node, r):
        lo = int(node.get("minOccurs", "1"))
        hi = node.get("maxOccurs", "1")
        if lo > 3 or (hi != "unbounded" and int(hi) > 3):
            raise TranslateError("xsd: occurrence bounds %s..%s not supported" % (lo, hi))
        out = EPS
        for _ in range(lo):
            out = cat(out, r)
        if hi == "unbounded":
            out = cat(out, star(r))
        else:
            opt = EPS
            for _ in range(int(hi) - lo):
                opt = alt([EPS, cat(r, opt)])
            out = cat(out, opt)
        return out

    def particle(node):
        tg = node.tag.replace(XS, "")
        if tg == "element":
            if node.get("ref") is None:
                raise TranslateError("xsd: local element declaration %s" % node.get("name"))
            return occurs(node, ("sym", node.get("ref")))
        if tg == "sequence":
            r = EPS
            for ch in node:
                r = cat(r, particle(ch))
            return occurs(node, r)
        if tg == "choice":
            return occurs(node, alt([particle(ch) for ch in node]))
        raise TranslateError("xsd: particle <%s> not supported" % tg)

    def model_of(ct, name):
        """(regex of the children, mixed)"""
        if ct is None:
            return EPS, False
        mixed = ct.get("mixed") == "true"
        r = EPS
        for ch in ct:
            tg = ch.tag.replace(XS, "")
            if tg in ("attribute", "annotation"):
                continue
            if tg in ("sequence", "choice"):
                r = cat(r, particle(ch))
            elif tg == "complexContent":
                ext = ch.find(XS + "extension")
                if ext is None or ext.get("base") not in named:
                    raise TranslateError("xsd: complexContent of <%s>" % name)
                br, bm = model_of(named[ext.get("base")], name)
                r = cat(r, br)
                mixed = mixed or bm
                for c2 in ext:
                    t2 = c2.tag.replace(XS, "")
                    if t2 in ("sequence", "choice"):
                        r = cat(r, particle(c2))
                    elif t2 != "attribute":
                        raise TranslateError("xsd: <%s> in the extension of <%s>" % (t2, name))
            else:
                raise TranslateError("xsd: <%s> in the type of <%s>" % (tg, name))
        return r, mixed

    def dfa(r, alphabet):
        states, trans, todo = {r: 0}, {}, [r]
        while todo:
            x = todo.pop(0)
            for a in alphabet:
                d = deriv(x, a)
                if d is None:
                    continue
                if d not in states:
                    states[d] = len(states)
                    todo.append(d)
                trans[(states[x], a)] = states[d]
        return trans, sorted(q for x, q in states.items() if nullable(x)), len(states)

    elements = [el.get("name") for el in root.findall(XS + "element")]
    for el in root.findall(XS + "element"):
        name = el.get("name")
        al = []
        for at in el.iter(XS + "attribute"):
            if at.get("ref") is not None or at.get("name") is None:
                raise TranslateError("xsd: attribute of <%s> without a name" % name)
            al.append((at.get("name"), at.get("use") == "required"))
        for g in el.iter(XS + "attributeGroup"):
            raise TranslateError("xsd: attributeGroup in <%s>" % name)
        ty = el.get("type")
        if ty is not None:
            if ty in named:
                r, mixed = model_of(named[ty], name)
            elif ty.startswith("xs:"):
                r, mixed = EPS, True          # simple content: character data
            else:
                raise TranslateError("xsd: <%s> refers to the unknown type %s" % (name, ty))
        else:
            r, mixed = model_of(el.find(XS + "complexType"), name)
        attrs.append((name, al))
        content[name] = dfa(r, elements)
        if mixed:
            text.append(name)
    if not attrs:
        raise TranslateError("xsd: no global elements")
    # the document element: the one no content model refers to
    used = {a for tr, _, _ in content.values() for (_, a) in tr}
    roots = [e for e in elements if e not in used]
    if len(roots) != 1:
        raise TranslateError("xsd: document element not unique: %s" % roots)
    return {"attrs": attrs, "content": content, "text": text, "root": roots[0]}


def emit(t):
    o = ["(* GENERATED by tools/gkf_translate.py from lib/gnu_gama/xml/gkfparser.{h,cpp} -- do not edit. *)",
         "From Coq Require Import List String.", "Import ListNotations.", "Local Open Scope string_scope.", ""]
    o.append("Inductive tag := %s." % " | ".join(t["tags"]))
    o.append("Inductive st := %s." % " | ".join(t["states"]))
    o.append("Scheme Equality for tag.")
    o.append("Scheme Equality for st.")
    o.append("Definition all_tags : list tag := [%s]." % "; ".join(t["tags"]))
    o.append("Definition all_states : list st := [%s]." % "; ".join(t["states"]))
    o.append("(* SGo s: the handler moves to s (attributes permitting); SErr true: error(...) is called (line recorded);")
    o.append("   SErr false: state_error is entered without a diagnostic *)")
    o.append("Inductive sact := SGo (s : st) | SErr (located : bool).")
    o.append("Inductive eact := EGo (s : st) (finish : bool) | EErr (located : bool).")

    def sact(a):
        return "SGo %s" % a[1] if a[0] == "go" else ("SErr true" if a[0] == "err" else "SErr false")

    o.append("Definition start_step (s : st) (t : tag) : sact :=\n  match s with")
    for s in t["states"]:
        if s in t["start"]:
            tbl = t["start"][s]
            arms = " ".join("| %s => %s" % (k, sact(v)) for k, v in tbl.items() if k != "_")
            o.append("  | %s => match t with %s | _ => %s end" % (s, arms, sact(tbl["_"])))
    o.append("  | _ => %s\n  end." % sact(t["start_default"]))

    def eact(a):
        if a[0] == "go":
            return "EGo %s %s" % (a[1], "true" if a[2] else "false")
        return "EErr true" if a[0] == "err" else "EErr false"

    o.append("Definition end_step (s : st) : eact :=\n  match s with")
    for s in t["states"]:
        if s in t["end"]:
            o.append("  | %s => %s" % (s, eact(t["end"][s])))
    o.append("  | _ => %s\n  end." % eact(t["end"]["_"]))
    o.append("Definition takes_text (s : st) : bool :=\n  match s with %s | _ => false end." % " ".join("| %s => true" % s for s in dict.fromkeys(t["text_states"])))
    o.append("(* attribute names the handler of the transition (s, t) does not refuse; None: the handler does not look at the attributes *)")
    o.append("Definition start_attrs (s : st) (t : tag) : option (list string) :=\n  match s, t with")
    for (s_, t_), l in t["attrs"].items():
        o.append("  | %s, %s => %s" % (s_, t_, "None" if l is None else "Some [%s]" % "; ".join('"%s"' % x for x in l)))
    o.append("  | _, _ => None\n  end.")
    o.append("(* xml/gama-local.xsd: element name, its attributes (name, use = required) *)")
    o.append("Definition xsd_attrs : list (string * list (string * bool)) := [\n  %s]." % ";\n  ".join(
        '("%s", [%s])' % (e, "; ".join('("%s", %s)' % (a, "true" if r else "false") for a, r in al)) for e, al in t["xsd"]["attrs"]))
    # content models of the schema as automata over the parser's tags
    tag_of = {}
    for c_, n_, t_ in t["tag_table"]:
        tag_of.setdefault(n_, t_)
    x = t["xsd"]
    for e in x["content"]:
        if e not in tag_of:
            raise TranslateError("xsd element <%s> is not a name GKFparser::tag() knows" % e)
    o.append("(* xml/gama-local.xsd, element structure: per element (None: the document) a deterministic content automaton, state 0 = start *)")
    o.append("Definition xsd_cm_gen (c : option tag) (q : nat) (t : tag) : option nat :=\n  match c, q, t with")
    o.append("  | None, 0, %s => Some 1" % tag_of[x["root"]])
    for e, (tr, fin, n) in x["content"].items():
        for (q, a), q2 in sorted(tr.items()):
            o.append("  | Some %s, %d, %s => Some %d" % (tag_of[e], q, tag_of[a], q2))
    o.append("  | _, _, _ => None\n  end.")
    o.append("Definition xsd_fin_gen (c : option tag) (q : nat) : bool :=\n  match c, q with")
    o.append("  | None, 1 => true")
    for e, (tr, fin, n) in x["content"].items():
        for q in fin:
            o.append("  | Some %s, %d => true" % (tag_of[e], q))
    o.append("  | _, _ => false\n  end.")
    o.append("Definition xsd_txt_gen (c : option tag) : bool :=\n  match c with %s | _ => false end." % " ".join("| Some %s => true" % tag_of[e] for e in x["text"]))
    o.append("Definition xsd_states : nat := %d." % max([2] + [n for _, _, n in x["content"].values()]))
    o.append("(* (first character tested by the switch, name compared by strcmp, tag returned) in source order *)")
    o.append("Definition tag_table : list (string * string * tag) := [\n  %s]." % ";\n  ".join('("%s", "%s", %s)' % x for x in t["tag_table"]))
    return "\n".join(o) + "\n"


def main():
    repo = sys.argv[1] if len(sys.argv) > 1 else "/repo"
    out = sys.argv[2] if len(sys.argv) > 2 else os.path.join(os.path.dirname(os.path.dirname(os.path.abspath(__file__))), "coq", "GkfGen.v")
    txt = emit(translate(repo))
    old = open(out).read() if os.path.exists(out) else None
    if old != txt:
        open(out, "w").write(txt)
    print("GkfGen.v %s" % ("unchanged" if old == txt else "rewritten"))


if __name__ == "__main__":
    main()
