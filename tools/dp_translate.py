#!/usr/bin/env python3
"""Translator: lib/gnu_gama/xml/dataparser.h + dataparser{,_g3,_g3adj,_adj}.cpp  ->  coq/DpGen.v   (C11)

DataParser (the reader of gama-g3 inputs, adjustment inputs and g3 adjustment results) is table driven: every
   init(s, t, n, z, a, Stag, Data, Etag [, z2])
call enters  next[s][t] = n,  after[z] = a  (z defaults to n, a to s; z2 is a second end state).  The generic handlers are
   start_tag:  state = next[state][tag]        end_tag:  state = after[state]
and every (s, t) without an init() leads to parser_error (error(): located).  The translator replays the init() calls in
the order the constructor performs them and emits the final tables, together with what it noticed on the way:
   - init() calls whose next state is s_error (the element body is processed IN the error state),
   - after[] entries overwritten with a different value by a later init() (the element no longer returns to its parent).
"""
import os, re, sys
sys.path.insert(0, os.path.dirname(os.path.abspath(__file__)))
from gkf_translate import strip_comments, body_after, enum_members, TranslateError

FILES = ["dataparser.cpp", "dataparser_g3.cpp", "dataparser_g3adj.cpp", "dataparser_adj.cpp"]


def split_args(s):
    out, depth, cur = [], 0, ""
    for c in s:
        if c in "([{":
            depth += 1
        elif c in ")]}":
            depth -= 1
        if c == "," and depth == 0:
            out.append(cur.strip()); cur = ""
        else:
            cur += c
    if cur.strip():
        out.append(cur.strip())
    return out


def calls_in(body):
    """sequence of ('init', args) / ('call', name) in source order"""
    seq = []
    for m in re.finditer(r"\b(init(?:_g3adj|_g3|_adj)?)\s*\(", body):
        name = m.group(1)
        # arguments up to the matching parenthesis
        i = m.end() - 1
        depth = 0
        j = i
        while True:
            if body[j] == "(":
                depth += 1
            elif body[j] == ")":
                depth -= 1
                if depth == 0:
                    break
            j += 1
        args = body[i + 1:j]
        if name == "init":
            seq.append(("init", split_args(args), m.start()))
        else:
            seq.append(("call", name, m.start()))
    return seq


def translate(repo):
    d = os.path.join(repo, "lib/gnu_gama/xml")
    h = strip_comments(open(os.path.join(d, "dataparser.h")).read())
    states = enum_members(h, "parser_state")
    tags = enum_members(h, "data_tag")
    if states[0] != "s_error":
        raise TranslateError("s_error is not the first state")
    src = {f: strip_comments(open(os.path.join(d, f)).read()) for f in FILES}
    funcs = {}
    for f, txt in src.items():
        for m in re.finditer(r"void\s+DataParser::(init_g3adj|init_g3|init_adj)\s*\(\s*\)\s*\{", txt):
            funcs[m.group(1)] = body_after(txt, m.end() - 1)[0]
    m = re.search(r"DataParser::DataParser\s*\([^)]*\)[^{]*\{", src["dataparser.cpp"])
    if not m:
        raise TranslateError("constructor not found")
    ctor = body_after(src["dataparser.cpp"], m.end() - 1)[0]
    # defaults established by the constructor's loops
    if not re.search(r"next\s*\[s\]\[t\]\s*=\s*s_error", ctor) or not re.search(r"stag\s*\[s\]\[t\]\s*=\s*&DataParser::parser_error", ctor) \
            or not re.search(r"after\s*\[s\]\s*=\s*s_error", ctor) or not re.search(r"etag\s*\[s\]\s*=\s*&DataParser::end_tag", ctor) \
            or not re.search(r"data\s*\[s\]\s*=\s*&DataParser::white_spaces", ctor):
        raise TranslateError("constructor defaults not recognised")
    # the generic handlers
    gen = src["dataparser.cpp"] + h
    if not re.search(r"int\s+DataParser::start_tag[^{]*\{[^}]*state\s*=\s*next\s*\[state\]\[tag\(name\)\]", gen, re.S):
        raise TranslateError("start_tag not recognised")
    if not re.search(r"int\s+DataParser::end_tag[^{]*\{[^}]*state\s*=\s*after\s*\[state\]", gen, re.S):
        raise TranslateError("end_tag not recognised")
    mi = re.search(r"void\s+DataParser::init\s*\(([^)]*)\)\s*\{", src["dataparser.cpp"])
    ib = body_after(src["dataparser.cpp"], mi.end() - 1)[0]
    for pat in (r"if\s*\(z\s*==\s*0\)\s*z\s*=\s*n", r"if\s*\(a\s*==\s*0\)\s*a\s*=\s*s", r"next\s*\[s\]\[t\]\s*=\s*n", r"after\[z\]\s*=\s*a", r"after\[z2\]\s*=\s*a"):
        if not re.search(pat, ib):
            raise TranslateError("DataParser::init no longer has the form %s" % pat)

    def expand(body):
        out = []
        for c in calls_in(body):
            if c[0] == "init":
                out.append(c[1])
            else:
                if c[1] not in funcs:
                    raise TranslateError("%s not found" % c[1])
                out += expand(funcs[c[1]])
        return out

    inits = expand(ctor)
    sidx = {s: i for i, s in enumerate(states)}
    tidx = {t: i for i, t in enumerate(tags)}

    def st(x):
        x = x.strip()
        if x in ("0", "s_error"):
            return "s_error"
        if x not in sidx:
            raise TranslateError("unknown state %r in an init() call" % x)
        return x

    nxt, after, custom_stag, text_states = {}, {}, set(), set()
    notes_err, notes_over = [], []
    for a in inits:
        if len(a) not in (8, 9):
            raise TranslateError("init() with %d arguments: %s" % (len(a), a))
        s, t = st(a[0]), a[1].strip()
        if t not in tidx:
            raise TranslateError("unknown tag %r" % t)
        n, z, aa = st(a[2]), st(a[3]), st(a[4])
        if a[3].strip() == "0":
            z = n
        if a[4].strip() == "0":
            aa = s
        nxt[(s, t)] = n
        if n == "s_error":
            notes_err.append((s, t, aa))
        if z in after and after[z] != aa:
            notes_over.append((z, after[z], aa))
        after[z] = aa
        if a[5].strip() not in ("0", "nullptr", "NULL"):
            custom_stag.add((s, t))
        if a[6].strip() not in ("0", "nullptr", "NULL"):
            text_states.add(n)
        if len(a) == 9 and a[8].strip() != "0":
            z2 = st(a[8])
            if z2 in after and after[z2] != aa:
                notes_over.append((z2, after[z2], aa))
            after[z2] = aa
    return {"states": states, "tags": tags, "next": nxt, "after": after, "text": text_states, "enters_error": notes_err, "overwritten": notes_over,
            "ninit": len(inits)}


def emit(t):
    sidx = {s: i for i, s in enumerate(t["states"])}
    tidx = {x: i for i, x in enumerate(t["tags"])}
    o = ["(* GENERATED by tools/dp_translate.py from lib/gnu_gama/xml/dataparser.h and dataparser{,_g3,_g3adj,_adj}.cpp -- do not edit.",
         "   States and tags are numbered as in the enumerations parser_state / data_tag (s_error = 0).",
         "   %d init() calls replayed in constructor order. *)" % t["ninit"],
         "From Coq Require Import List Arith.", "Import ListNotations.", ""]
    o.append("Definition nstates : nat := %d." % len(t["states"]))
    o.append("Definition ntags : nat := %d." % len(t["tags"]))
    o.append("Definition st_start : nat := %d.  Definition st_stop : nat := %d." % (sidx["s_start"], sidx["s_stop"]))
    o.append("(* next[s][t] = n for the (s, t) entered by init(); every other pair is s_error via parser_error (located) *)")
    o.append("Definition next_table : list (nat * nat * nat) := [\n  %s]." % ";\n  ".join(
        "(%d, %d, %d)" % (sidx[s], tidx[x], sidx[n]) for (s, x), n in t["next"].items()))
    o.append("(* after[z] = a; every other state returns to s_error *)")
    o.append("Definition after_table : list (nat * nat) := [\n  %s]." % ";\n  ".join("(%d, %d)" % (sidx[z], sidx[a]) for z, a in t["after"].items()))
    o.append("Definition text_states : list nat := [%s]." % "; ".join(str(sidx[s]) for s in sorted(t["text"], key=lambda s: sidx[s])))
    # nesting level of every state reachable from s_start (untrusted hint: DpProofs.v checks it against the tables)
    lev = {"s_start": 0}
    todo = ["s_start"]
    while todo:
        x = todo.pop()
        for (s_, t_), n in t["next"].items():
            if s_ == x and n != "s_error" and n not in lev:
                lev[n] = lev[x] + 1; todo.append(n)
        if x in t["after"] and t["after"][x] != "s_error" and t["after"][x] not in lev:
            lev[t["after"][x]] = lev[x] - 1; todo.append(t["after"][x])
        # end states that are only reached through a handler's alternative end state
    changed = True
    while changed:
        changed = False
        for z, a in t["after"].items():
            if z not in lev and a in lev:
                lev[z] = lev[a] + 1; changed = True
    o.append("Definition level_table : list (nat * nat) := [\n  %s]." % ";\n  ".join("(%d, %d)" % (sidx[k], max(v, 0)) for k, v in sorted(lev.items(), key=lambda kv: sidx[kv[0]])))
    return "\n".join(o) + "\n"


def main():
    repo = sys.argv[1] if len(sys.argv) > 1 else "/repo"
    out = sys.argv[2] if len(sys.argv) > 2 else os.path.join(os.path.dirname(os.path.dirname(os.path.abspath(__file__))), "coq", "DpGen.v")
    t = translate(repo)
    txt = emit(t)
    old = open(out).read() if os.path.exists(out) else None
    if old != txt:
        open(out, "w").write(txt)
    print("DpGen.v %s: %d states, %d tags, %d transitions; init() into s_error: %s; after[] overwritten: %s" % (
        "unchanged" if old == txt else "rewritten", len(t["states"]), len(t["tags"]), len(t["next"]), t["enters_error"], t["overwritten"][:5]))


if __name__ == "__main__":
    main()
