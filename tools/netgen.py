"""Network generator (DESIGN.md 1.8): true coordinates -> topology -> exact observations
(+ optional noise) -> neutral description (tools/gama.py).  All randomness comes from the rng given.

The observation functions below are the generator's own statement of what each observation type
measures (the same functions the Coq model LinModel.v defines):
  bearing(a,b)   = atan2(yb-ya, xb-xa) mod 2pi                  (consistent system, e.g. ne/left-handed)
  direction      = bearing - orientation(station)  mod 2pi
  angle(bs,fs)   = bearing(from,fs) - bearing(from,bs) mod 2pi
  distance       = horizontal distance;  s-distance = space distance (dz + to_dh - from_dh)
  z-angle        = acos(dz/sd);  dh = z_to - z_from;  vec = coordinate differences
"""
import math, copy
from tools.gama import G2R, R2G

TWO_PI = 2 * math.pi


def bearing(a, b):
    return math.atan2(b[1] - a[1], b[0] - a[0]) % TWO_PI


def hdist(a, b):
    return math.hypot(b[0] - a[0], b[1] - a[1])


def obs_value(ob, truth, orient=0.0, from_id=None):
    """exact value of an observation dict from true coordinates; angles in gon"""
    t = ob["t"]
    f = truth[ob.get("from", from_id)] if (ob.get("from", from_id) is not None and t != "point") else None
    if t == "direction":
        return ((bearing(f, truth[ob["to"]]) - orient) % TWO_PI) * R2G
    if t == "azimuth":
        return (bearing(f, truth[ob["to"]]) % TWO_PI) * R2G
    if t == "distance":
        return hdist(f, truth[ob["to"]])
    if t == "angle":
        return ((bearing(f, truth[ob["fs"]]) - bearing(f, truth[ob["bs"]])) % TWO_PI) * R2G
    if t in ("s-distance", "z-angle"):
        g = truth[ob["to"]]
        dz = g[2] - f[2] + float(ob.get("to_dh", 0) or 0) - float(ob.get("from_dh", 0) or 0)
        d = hdist(f, g)
        sd = math.sqrt(d * d + dz * dz)
        return sd if t == "s-distance" else math.acos(dz / sd) * R2G
    if t == "dh":
        return truth[ob["to"]][2] - f[2]
    raise ValueError(t)


DEFAULT_STDEV = {"direction": 10.0, "azimuth": 10.0, "distance": 5.0, "angle": 10.0, "s-distance": 5.0,
                 "z-angle": 10.0, "dh": 2.0}
# noise unit per stdev unit, expressed in the unit of "val": cc -> gon, mm -> m
UNIT = {"direction": 1e-4, "azimuth": 1e-4, "angle": 1e-4, "z-angle": 1e-4, "distance": 1e-3, "s-distance": 1e-3,
        "dh": 1e-3}


def gen_points(rng, n, dim, extent=400.0, minsep=60.0, origin=(1000.0, 2000.0, 300.0), zrange=40.0):
    pts = []
    tries = 0
    while len(pts) < n:
        tries += 1
        p = (origin[0] + rng.uniform(0, extent), origin[1] + rng.uniform(0, extent),
             origin[2] + (rng.uniform(-zrange, zrange) if dim != 2 else 0.0))
        if all(hdist(p, q) >= minsep for q in pts) or tries > 2000:
            # also avoid (near) collinear triples which make intersections weak
            ok = True
            for i in range(len(pts)):
                for j in range(i):
                    a, b = pts[i], pts[j]
                    area = abs((a[0] - p[0]) * (b[1] - p[1]) - (a[1] - p[1]) * (b[0] - p[0]))
                    if area < 0.15 * hdist(a, p) * hdist(b, p) and tries <= 2000:
                        ok = False
            if ok:
                pts.append(p)
    return pts


def make_network(rng, dim=2, n=6, n_fixed=2, datum="fixed", noise=1.0, extra=0.5, kinds=None, approx="perturbed",
                 sigma_apr=10.0, sigma_act="aposteriori", conf_pr=0.95, tol_abs=1000.0, ids=None, with_heights=False,
                 orientation_shifts=True, perturb=0.02):
    """dim: 1 (levelling), 2, 3.  datum: 'fixed' (n_fixed fixed points), 'free' (n_fixed constrained, rest adjusted,
    no fixed point -> free network), returns (net, truth, meta).
    The construction guarantees geometric determinacy: point i (beyond the datum points) is tied to two earlier
    points by direction+distance (2D/3D, plus z-angle/s-distance or dh in 3D) or by a dh (1D); `extra` adds
    redundant observations."""
    ids = ids or ["P%d" % (i + 1) for i in range(n)]
    P = gen_points(rng, n, dim)
    truth = {ids[i]: P[i] for i in range(n)}
    kinds = kinds or (["dh"] if dim == 1 else ["direction", "distance"] + (["s-distance", "z-angle", "dh"] if dim == 3 else []))
    stations = {}   # from -> list of obs dicts
    hd = []         # height differences cluster

    def add(frm, ob):
        stations.setdefault(frm, []).append(ob)

    def tie(j, i):
        """observations from j to i that fix i relative to j"""
        if dim == 1:
            hd.append({"t": "dh", "from": ids[j], "to": ids[i]})
            return
        add(ids[j], {"t": "direction", "to": ids[i]})
        if dim == 2:
            add(ids[j], {"t": "distance", "to": ids[i]})
        else:
            c = rng.choice(["sd+za", "d+dh", "sd+dh"])
            if c == "sd+za":
                add(ids[j], {"t": "s-distance", "to": ids[i]}); add(ids[j], {"t": "z-angle", "to": ids[i]})
            elif c == "d+dh":
                add(ids[j], {"t": "distance", "to": ids[i]}); hd.append({"t": "dh", "from": ids[j], "to": ids[i]})
            else:
                add(ids[j], {"t": "s-distance", "to": ids[i]}); hd.append({"t": "dh", "from": ids[j], "to": ids[i]})

    for i in range(1, n):
        prev = list(range(i))
        rng.shuffle(prev)
        for j in prev[:2]:
            tie(j, i)
            if dim != 1 and rng.random() < 0.6:      # back sight so that station i has an orientation that is determined
                add(ids[i], {"t": "direction", "to": ids[j]})
    # extras
    pairs = [(i, j) for i in range(n) for j in range(n) if i != j]
    rng.shuffle(pairs)
    for (i, j) in pairs[:int(extra * n * 2)]:
        k = rng.choice(kinds)
        if k == "dh":
            hd.append({"t": "dh", "from": ids[i], "to": ids[j]})
        elif k == "angle":
            others = [x for x in range(n) if x not in (i, j)]
            if others:
                add(ids[i], {"t": "angle", "bs": ids[j], "fs": ids[rng.choice(others)]})
        else:
            add(ids[i], {"t": k, "to": ids[j]})
    # a direction set needs >= 2 directions to distinct targets; drop duplicates
    clusters = []
    orient = {}
    for frm, obs in stations.items():
        seen = set()
        o2 = []
        for ob in obs:
            key = (ob["t"], ob.get("to"), ob.get("bs"), ob.get("fs"))
            if key in seen:
                continue
            seen.add(key)
            o2.append(ob)
        ndir = sum(1 for ob in o2 if ob["t"] == "direction")
        if ndir == 1:
            # add a second direction to some other point
            tgt = [ob["to"] for ob in o2 if ob["t"] == "direction"][0]
            others = [x for x in ids if x not in (frm, tgt)]
            if others:
                o2.append({"t": "direction", "to": rng.choice(others)})
            else:
                o2 = [ob for ob in o2 if ob["t"] != "direction"]
        # the orientation shift of a direction set is a point of a circle: besides arbitrary values take the ones at the cuts
        # 0 / 200 / 400 gon, where bearing - reading straddles -pi / +pi (a median taken there as on a line is 200 gon off)
        orient[frm] = (rng.choice([0.0, math.pi, math.pi, TWO_PI - 1e-9, math.pi / 2]) if rng.random() < 0.25 else rng.uniform(0, TWO_PI)) if orientation_shifts else 0.0
        if with_heights and dim == 3:
            for ob in o2:
                if ob["t"] in ("s-distance", "z-angle") and rng.random() < 0.5:
                    ob["from_dh"] = round(rng.uniform(1.2, 1.8), 3)
                    ob["to_dh"] = round(rng.uniform(0.0, 2.5), 3)
        # directions first (gama keeps cluster order anyway)
        clusters.append({"kind": "obs", "from": frm, "obs": o2})
    if hd:
        seen = set()
        h2 = []
        for ob in hd:
            key = (ob["from"], ob["to"])
            if key in seen or (ob["to"], ob["from"]) in seen:
                continue
            seen.add(key)
            h2.append(ob)
        clusters.append({"kind": "height-differences", "obs": h2})
    # values
    for c in clusters:
        for ob in c["obs"]:
            sd = DEFAULT_STDEV[ob["t"]] * rng.choice([0.5, 1.0, 1.0, 2.0])
            v = obs_value(ob, truth, orient.get(c.get("from"), 0.0), c.get("from"))
            if noise:
                v += rng.gauss(0, 1) * noise * sd * UNIT[ob["t"]]
                if ob["t"] in ("direction", "angle", "azimuth"):
                    v %= 400.0
            ob["val"] = v
            ob["stdev"] = sd
    # points
    pts = []
    for i, pid in enumerate(ids):
        x, y, z = truth[pid]
        is_datum = i < n_fixed
        p = {"id": pid}
        if is_datum and datum == "fixed":
            if dim != 1:
                p["x"], p["y"] = x, y
            if dim != 2:
                p["z"] = z
            p["fix"] = {1: "z", 2: "xy", 3: "xyz"}[dim]
        else:
            if approx != "omitted" or (is_datum and datum == "free"):
                dx = dy = dz = 0.0
                if approx == "perturbed" and not (is_datum and datum == "free"):
                    dx, dy, dz = (rng.uniform(-perturb, perturb) for _ in range(3))
                if dim != 1:
                    p["x"], p["y"] = x + dx, y + dy
                if dim != 2:
                    p["z"] = z + dz
            a = {1: "z", 2: "xy", 3: "xyz"}[dim]
            p["adj"] = a.upper() if (is_datum and datum == "free") else a
        pts.append(p)
    net = {"attrs": {"axes-xy": "ne", "angles": "left-handed"},
           "params": {"sigma-apr": sigma_apr, "conf-pr": conf_pr, "tol-abs": tol_abs, "sigma-act": sigma_act},
           "description": "generated network", "points": pts, "clusters": clusters}
    meta = {"dim": dim, "n": n, "n_fixed": n_fixed, "datum": datum, "orient": orient, "noise": noise,
            "nobs": sum(len(c["obs"]) for c in clusters)}
    return net, truth, meta


def band_cov(rng, stdevs, band):
    """a positive definite banded covariance with the given standard deviations: C = D (R) D with
    R = tridiagonal-like correlation built as B B' normalised (band-limited B keeps the band)"""
    n = len(stdevs)
    band = min(band, n - 1)
    B = [[0.0] * n for _ in range(n)]
    for i in range(n):
        B[i][i] = 1.0
        for k in range(1, band + 1):
            if i - k >= 0:
                B[i][i - k] = rng.uniform(-0.5, 0.5) / (k + 0.5)
    # lower band-limited B: B B' has bandwidth `band`
    C = [[sum(B[i][k] * B[j][k] for k in range(n)) for j in range(n)] for i in range(n)]
    d = [math.sqrt(C[i][i]) for i in range(n)]
    C = [[C[i][j] / (d[i] * d[j]) * stdevs[i] * stdevs[j] for j in range(n)] for i in range(n)]
    vals = []
    for i in range(n):
        for j in range(i, min(n, i + band + 1)):
            vals.append(C[i][j])
    return {"dim": n, "band": band, "vals": vals}, C


def count_obs(net):
    n = 0
    for c in net["clusters"]:
        if c["kind"] == "vectors":
            n += 3 * len(c["obs"])
        elif c["kind"] == "coordinates":
            n += sum(sum(1 for k in ("x", "y", "z") if k in ob) for ob in c["obs"])
        else:
            n += len(c["obs"])
    return n


def add_coordinates_cluster(rng, net, truth, ids, dim=2, noise=1.0, sd=5.0, cov_band=None):
    """observed coordinates of the given points (x,y[,z]) with stdev sd mm (or a banded covariance)"""
    obs = []
    n = 0
    for pid in ids:
        x, y, z = truth[pid]
        o = {"t": "point", "id": pid}
        if dim != 1:
            o["x"] = x + rng.gauss(0, 1) * noise * sd * 1e-3
            o["y"] = y + rng.gauss(0, 1) * noise * sd * 1e-3
            n += 2
        if dim != 2:
            o["z"] = z + rng.gauss(0, 1) * noise * sd * 1e-3
            n += 1
        obs.append(o)
    if cov_band is None:
        cov = {"dim": n, "band": 0, "vals": [sd * sd] * n}
    else:
        cov, _ = band_cov(rng, [sd] * n, cov_band)
    net["clusters"].append({"kind": "coordinates", "obs": obs, "cov": cov})


def add_vectors_cluster(rng, net, truth, pairs, noise=1.0, sd=5.0, cov_band=None):
    obs = []
    for (a, b) in pairs:
        pa, pb = truth[a], truth[b]
        obs.append({"t": "vec", "from": a, "to": b,
                    "dx": pb[0] - pa[0] + rng.gauss(0, 1) * noise * sd * 1e-3,
                    "dy": pb[1] - pa[1] + rng.gauss(0, 1) * noise * sd * 1e-3,
                    "dz": pb[2] - pa[2] + rng.gauss(0, 1) * noise * sd * 1e-3})
    n = 3 * len(obs)
    if cov_band is None:
        cov = {"dim": n, "band": 0, "vals": [sd * sd] * n}
    else:
        cov, _ = band_cov(rng, [sd] * n, cov_band)
    net["clusters"].append({"kind": "vectors", "obs": obs, "cov": cov})


def add_azimuths(rng, net, truth, pairs, noise=1.0, sd=10.0):
    """azimuth observations in the ne / left-handed base convention (x axis = north: azimuth = bearing)"""
    by_from = {}
    for (a, b) in pairs:
        v = (bearing(truth[a], truth[b]) * R2G + rng.gauss(0, 1) * noise * sd * 1e-4) % 400.0
        by_from.setdefault(a, []).append({"t": "azimuth", "to": b, "val": v, "stdev": sd})
    for a, obs in by_from.items():
        net["clusters"].append({"kind": "obs", "from": a, "obs": obs})
