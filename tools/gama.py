"""Neutral network description, GKF writer, gama-local runner and adjustment-XML reader
(shared end-to-end infrastructure, DESIGN.md 1.8).  stdlib only.

A network is a dict:
  {"attrs": {"axes-xy": "ne", "angles": "left-handed", ...},
   "params": {"sigma-apr": 10, "conf-pr": 0.95, "tol-abs": 1000, "sigma-act": "aposteriori", ...},
   "description": "text",
   "po_attrs": {"distance-stdev": "5", ...},
   "points": [ {"id": "A", "x":.., "y":.., "z":.., "fix": "xy", "adj": "z"} ... ],   (any key optional)
   "clusters": [
       {"kind": "obs", "from": "A", "obs": [ {"t": "direction", "to": "B", "val": gon, "stdev": cc, ...}, ...],
        "cov": {"dim": n, "band": b, "vals": [...]}  (optional) },
       {"kind": "height-differences", "obs": [ {"t": "dh", "from":.., "to":.., "val":.., "stdev":.., "dist":..} ], "cov":...},
       {"kind": "coordinates", "obs": [ {"t": "point", "id":.., "x":.., "y":.., "z":..} ], "cov": ...},
       {"kind": "vectors", "obs": [ {"t": "vec", "from":.., "to":.., "dx":.., "dy":.., "dz":..} ], "cov": ...} ] }
Angular values are stored in gons (float) or, when "valstr" is present, written verbatim.
"""
import math, os, re, subprocess, xml.etree.ElementTree as ET

G2R = math.pi / 200.0
R2G = 200.0 / math.pi


def esc(s):
    s = str(s)
    return s.replace("&", "&amp;").replace("<", "&lt;").replace(">", "&gt;").replace('"', "&quot;").replace("'", "&apos;")


def fmt(v):
    if isinstance(v, str):
        return v
    if isinstance(v, int):
        return str(v)
    return repr(float(v))


def attrs(d, order=None):
    ks = list(d.keys()) if order is None else [k for k in order if k in d] + [k for k in d if k not in order]
    return "".join(' %s="%s"' % (k, esc(fmt(d[k]))) for k in ks if d[k] is not None)


def covmat_xml(c):
    return '<cov-mat dim="%d" band="%d">\n%s\n</cov-mat>\n' % (c["dim"], c["band"], " ".join(fmt(v) for v in c["vals"]))


OBS_ATTR_ORDER = ["from", "to", "bs", "fs", "id", "val", "x", "y", "z", "dx", "dy", "dz", "stdev", "dist",
                  "from_dh", "to_dh", "bs_dh", "fs_dh", "extern"]


def render_gkf(net):
    o = ['<?xml version="1.0" ?>\n<gama-local xmlns="http://www.gnu.org/software/gama/gama-local">\n']
    o.append("<network%s>\n" % attrs(net.get("attrs", {})))
    if net.get("description") is not None:
        o.append("<description>%s</description>\n" % esc(net["description"]))
    if net.get("params"):
        o.append("<parameters%s />\n" % attrs(net["params"]))
    o.append("<points-observations%s>\n" % attrs(net.get("po_attrs", {})))
    for p in net["points"]:
        o.append("<point%s />\n" % attrs(p, ["id", "x", "y", "z", "fix", "adj"]))
    for c in net["clusters"]:
        k = c["kind"]
        if k == "obs":
            a = {}
            if c.get("from") is not None:
                a["from"] = c["from"]
            for x in ("orientation", "from_dh"):
                if c.get(x) is not None:
                    a[x] = c[x]
            o.append("<obs%s>\n" % attrs(a))
        else:
            o.append("<%s>\n" % k)
        for ob in c["obs"]:
            d = {kk: vv for kk, vv in ob.items() if kk not in ("t", "valstr", "meta")}
            if "valstr" in ob:
                d["val"] = ob["valstr"]
            o.append(" <%s%s />\n" % (ob["t"], attrs(d, OBS_ATTR_ORDER)))
        if c.get("cov"):
            o.append(covmat_xml(c["cov"]))
        o.append("</%s>\n" % k)
    o.append("</points-observations>\n</network>\n</gama-local>\n")
    return "".join(o)


# ------------------------------------------------------------------------------------------
# running the rebuilt executables

class RunResult:
    def __init__(self, rc, out, err, files):
        self.rc, self.out, self.err, self.files = rc, out, err, files


def run_gama_local(bdir, gkf_text, workdir, name, algorithm=None, outputs=("xml",), extra=(), timeout=120, env=None):
    """runs <bdir>/gama-local on the text; returns RunResult with paths of produced files"""
    inp = os.path.join(workdir, name + ".gkf")
    with open(inp, "w", encoding="utf-8", errors="surrogateescape") as f:
        f.write(gkf_text)
    cmd = [os.path.join(bdir, "gama-local"), inp]
    if algorithm:
        cmd += ["--algorithm", algorithm]
    files = {}
    for k in outputs:
        p = os.path.join(workdir, "%s.%s.%s" % (name, algorithm or "def", k))
        if os.path.exists(p):
            os.remove(p)
        files[k] = p
        cmd += ["--" + k, p]
    cmd += list(extra)
    e = dict(os.environ)
    e["ASAN_OPTIONS"] = "detect_leaks=0:abort_on_error=0:exitcode=99"
    e["UBSAN_OPTIONS"] = "print_stacktrace=1:halt_on_error=1:exitcode=98"
    if env:
        e.update(env)
    try:
        p = subprocess.run(cmd, stdout=subprocess.PIPE, stderr=subprocess.PIPE, timeout=timeout, env=e)
        rc, out, err = p.returncode, p.stdout.decode(errors="replace"), p.stderr.decode(errors="replace")
    except subprocess.TimeoutExpired:
        rc, out, err = 124, "", "[timeout]"
    return RunResult(rc, out, err, files)


NS = "{http://www.gnu.org/software/gama/gama-local-adjustment}"


def _t(e, tag, conv=str, default=None):
    x = e.find(NS + tag)
    if x is None or x.text is None:
        return default
    try:
        return conv(x.text.strip())
    except ValueError:
        return default


def parse_adjustment_xml(path):
    """gama-local --xml output -> dict; raises ET.ParseError if not well-formed"""
    root = ET.parse(path).getroot()
    r = {"error": None}
    if root.tag == NS + "gama-local-adjustment" or root.tag.endswith("gama-local-adjustment"):
        pass
    er = root.find(NS + "error")
    if er is not None:
        r["error"] = {"category": er.get("category"), "text": " | ".join((x.text or "") for x in er.iter(NS + "description")),
                      "lineNumber": _t(er, "lineNumber", int)}
        return r
    d = root.find(NS + "description")
    r["description"] = d.text if d is not None else None
    g = root.find(NS + "network-general-parameters")
    r["general"] = dict(g.attrib) if g is not None else {}
    s = root.find(NS + "network-processing-summary")
    cs = s.find(NS + "coordinates-summary")
    r["coord_summary"] = {}
    for k in ("adjusted", "constrained", "fixed"):
        e = cs.find(NS + "coordinates-summary-" + k)
        r["coord_summary"][k] = {t: _t(e, "count-" + t, int) for t in ("xyz", "xy", "z")}
    osum = s.find(NS + "observations-summary")
    r["obs_summary"] = {c.tag.replace(NS, ""): int(c.text) for c in osum}
    pe = s.find(NS + "project-equations")
    r["equations"] = _t(pe, "equations", int)
    r["unknowns"] = _t(pe, "unknowns", int)
    r["dof"] = _t(pe, "degrees-of-freedom", int)
    r["defect"] = _t(pe, "defect", int)
    r["ssq"] = _t(pe, "sum-of-squares", float)
    r["iterations"] = _t(pe, "linearization-iterations", int)
    r["connected"] = pe.find(NS + "connected-network") is not None
    r["disconnected"] = pe.find(NS + "disconnected-network") is not None
    sd = s.find(NS + "standard-deviation")
    r["stdev"] = {"apriori": _t(sd, "apriori", float), "aposteriori": _t(sd, "aposteriori", float),
                  "used": _t(sd, "used"), "probability": _t(sd, "probability", float), "ratio": _t(sd, "ratio", float),
                  "lower": _t(sd, "lower", float), "upper": _t(sd, "upper", float),
                  "passed": sd.find(NS + "passed") is not None, "failed": sd.find(NS + "failed") is not None,
                  "confidence_scale": _t(sd, "confidence-scale", float)}
    co = root.find(NS + "coordinates")

    def pts(tag):
        res = []
        e = co.find(NS + tag)
        if e is None:
            return res
        for p in e.findall(NS + "point"):
            q = {"id": _t(p, "id")}
            for c in ("x", "y", "z", "X", "Y", "Z"):
                v = _t(p, c, float)
                if v is not None:
                    q[c.lower()] = v
                    if c.isupper():
                        q.setdefault("constrained", set()).add(c.lower())
            res.append(q)
        return res
    r["fixed"], r["approximate"], r["adjusted"] = pts("fixed"), pts("approximate"), pts("adjusted")
    r["ellipses"] = []
    e = co.find(NS + "std-error-ellipses")
    if e is not None:
        for x in e.findall(NS + "ellipse"):
            r["ellipses"].append({"id": _t(x, "id"), "major": _t(x, "major", float), "minor": _t(x, "minor", float),
                                  "alpha": _t(x, "alpha", float)})
    r["orientations"] = []
    e = co.find(NS + "orientation-shifts")
    if e is not None:
        for x in e.findall(NS + "orientation"):
            r["orientations"].append({"id": _t(x, "id"), "approx": _t(x, "approx"), "adj": _t(x, "adj")})
    cm = co.find(NS + "cov-mat")
    r["cov"] = None
    if cm is not None:
        r["cov"] = {"dim": _t(cm, "dim", int), "band": _t(cm, "band", int),
                    "flt": [float(x.text) for x in cm.findall(NS + "flt")]}
    oi = co.find(NS + "original-index")
    r["index"] = [int(x.text) for x in oi.findall(NS + "ind")] if oi is not None else []
    r["observations"] = []
    ob = root.find(NS + "observations")
    if ob is not None:
        for x in ob:
            q = {"tag": x.tag.replace(NS, "")}
            for c in x:
                k = c.tag.replace(NS, "")
                q[k] = c.text.strip() if c.text else ""
            for k in ("obs", "adj", "stdev", "qrr", "f", "std-residual", "err-obs", "err-adj"):
                if k in q:
                    try:
                        q[k] = angle_or_float(q[k])
                    except ValueError:
                        pass
            r["observations"].append(q)
    return r


def angle_or_float(s):
    s = s.strip()
    if re.match(r"^-?\d+-\d+-\d+(\.\d*)?$", s):
        neg = s.startswith("-")
        d, m, sec = s.lstrip("-").split("-")
        v = (int(d) + int(m) / 60.0 + float(sec) / 3600.0) * 400.0 / 360.0
        return -v if neg else v
    return float(s)


def cov_entry(res, i, j):
    """entry (i,j), 0-based, of the banded upper symmetric cov matrix in a parsed result; None outside the band"""
    c = res["cov"]
    dim, band = c["dim"], c["band"]
    if i > j:
        i, j = j, i
    if j - i > band:
        return None
    # rows 0..i-1 contribute min(band, dim-1-r)+1 entries
    k = 0
    for r in range(i):
        k += min(band, dim - 1 - r) + 1
    return c["flt"][k + (j - i)]


def adjusted_map(res):
    return {p["id"]: p for p in res["adjusted"]}
