#!/usr/bin/env python3
"""Shared machinery of the gama verification checks (see DESIGN.md section 1).

Everything a check needs: building /repo's *current working tree* into a scratch/cache
directory, compiling C++ harnesses against it, building / evaluating the Coq development,
handling violations / known findings, and writing the evidence file.

stdlib only.
"""
import atexit, fcntl, glob, hashlib, json, os, random, re, shutil, subprocess, sys, tempfile, time

VERIF = os.path.dirname(os.path.dirname(os.path.abspath(__file__)))
REPO = os.environ.get("GAMA_REPO", "/repo")
COQ = os.path.join(VERIF, "coq")
CACHE = os.environ.get("GAMA_VERIF_CACHE", "/var/tmp/gama-verif-cache")
GUARD = "GAMA_VERIF"
# memory leaks are not part of any property (MemRep::operator= is known to leak): report only invalid accesses
os.environ.setdefault("ASAN_OPTIONS", "detect_leaks=0")
os.environ.setdefault("UBSAN_OPTIONS", "print_stacktrace=1:halt_on_error=1")
NCPU = os.cpu_count() or 4

AXIOM_WHITELIST_PREFIXES = (
    # axioms declared by Coq's standard library / installed libraries only (DESIGN 1.7)
    "ClassicalDedekindReals.sig_forall_dec", "ClassicalDedekindReals.sig_not_dec",
    "FunctionalExtensionality.functional_extensionality_dep",
    "functional_extensionality_dep", "sig_forall_dec", "sig_not_dec",
    "Classical_Prop.classic", "classic",
    "Eqdep.Eq_rect_eq.eq_rect_eq", "eq_rect_eq", "JMeq_eq", "proof_irrelevance",
    "propositional_extensionality", "constructive_indefinite_description",
    "constructive_definite_description", "epsilon_statement",
    "FloatAxioms.", "Uint63.", "PrimInt63.", "PrimFloat.", "Uint63Axioms.", "Sint63.",
    "PArray.", "CarryType", "Rdefinitions.", "Raxioms.", "Rbasic_fun", "ClassicalEpsilon",
    "ProofIrrelevance", "Interval", "Coquelicot", "Flocq", "float_", "opp_spec", "abs_spec",
)


def _bigstack():
    import resource
    try:
        soft, hard = resource.getrlimit(resource.RLIMIT_STACK)
        resource.setrlimit(resource.RLIMIT_STACK, (hard, hard))
    except Exception:
        pass


def sh(cmd, timeout=None, cwd=None, env=None, inp=None):
    """run a command, return (rc, stdout, stderr) as text; never raises on non-zero.
    The stack limit is lifted (vm_compute over long lists recurses deeply)."""
    try:
        p = subprocess.run(cmd, shell=isinstance(cmd, str), cwd=cwd, env=env, input=inp, preexec_fn=_bigstack,
                           stdout=subprocess.PIPE, stderr=subprocess.PIPE, timeout=timeout,
                           text=True, errors="replace")
        return p.returncode, p.stdout, p.stderr
    except subprocess.TimeoutExpired as e:
        out = e.stdout.decode(errors="replace") if isinstance(e.stdout, bytes) else (e.stdout or "")
        err = e.stderr.decode(errors="replace") if isinstance(e.stderr, bytes) else (e.stderr or "")
        return 124, out, err + "\n[timeout]"


def file_hash(paths):
    h = hashlib.sha256()
    for p in paths:
        h.update(p.encode())
        try:
            with open(p, "rb") as f:
                h.update(f.read())
        except OSError:
            h.update(b"<missing>")
    return h.hexdigest()[:20]


_tree_hash = None


def repo_tree_hash():
    """content hash of everything the build of /repo reads"""
    global _tree_hash
    if _tree_hash is None:
        files = [os.path.join(REPO, "CMakeLists.txt")]
        for top in ("lib", "src", "scripts"):
            for d, dn, fn in os.walk(os.path.join(REPO, top)):
                dn.sort()
                for f in sorted(fn):
                    files.append(os.path.join(d, f))
        _tree_hash = file_hash(files)
    return _tree_hash


class _Lock:
    def __init__(self, path):
        self.path = path

    def __enter__(self):
        os.makedirs(os.path.dirname(self.path), exist_ok=True)
        self.f = open(self.path, "w")
        fcntl.flock(self.f, fcntl.LOCK_EX)
        return self

    def __exit__(self, *a):
        fcntl.flock(self.f, fcntl.LOCK_UN)
        self.f.close()


def _prune_cache(keep=6):
    try:
        ds = [os.path.join(CACHE, d) for d in os.listdir(CACHE) if d.startswith("b-")]
        ds.sort(key=lambda d: os.path.getmtime(d), reverse=True)
        for d in ds[keep:]:
            shutil.rmtree(d, ignore_errors=True)
        hs = [os.path.join(CACHE, d) for d in os.listdir(CACHE) if d.startswith("h-")]
        hs.sort(key=lambda d: os.path.getmtime(d), reverse=True)
        for d in hs[60:]:
            try:
                os.remove(d)
            except OSError:
                pass
    except OSError:
        pass


SAN_FLAGS = "-O1 -g -fno-omit-frame-pointer -fsanitize=address,undefined -fno-sanitize=nonnull-attribute -fno-sanitize-recover=all"
PLAIN_FLAGS = "-O1"
BIN_TARGETS = ["gama-local", "gama-g3", "compare-xyz", "gama-local-deformation"]


def build_repo(sanitize=False, targets=None):
    """cmake+ninja build of /repo's working tree (guard define on); returns build dir.
    Cached by content hash of the tree, so an edited tree is always rebuilt."""
    targets = targets or BIN_TARGETS
    variant = "san" if sanitize else "o1"
    d = os.path.join(CACHE, "b-%s-%s-%s" % (repo_tree_hash(), variant, hashlib.sha1((SAN_FLAGS + PLAIN_FLAGS).encode()).hexdigest()[:6]))
    with _Lock(d + ".lock"):
        stamp = os.path.join(d, ".ok-" + "-".join(sorted(targets)))
        if os.path.exists(stamp):
            os.utime(d)
            return d
        flags = (SAN_FLAGS if sanitize else PLAIN_FLAGS) + " -D" + GUARD
        os.makedirs(d, exist_ok=True)
        rc, out, err = sh(["cmake", "-G", "Ninja", "-S", REPO, "-B", d, "-DDISABLE_GNU_GAMA_TESTING=1",
                           "-DCMAKE_BUILD_TYPE=", "-DCMAKE_CXX_FLAGS=" + flags,
                           "-DCMAKE_EXE_LINKER_FLAGS=" + ("-fsanitize=address,undefined" if sanitize else "")],
                          timeout=600)
        if rc != 0:
            raise BuildError("cmake failed:\n" + out[-3000:] + err[-3000:])
        rc, out, err = sh(["ninja", "-C", d, "-j", str(NCPU)] + targets, timeout=1800)
        if rc != 0:
            raise BuildError("build of /repo failed:\n" + out[-6000:] + err[-3000:])
        open(stamp, "w").close()
    _prune_cache()
    return d


class BuildError(Exception):
    pass


def gama_objects(bdir):
    objs = sorted(glob.glob(os.path.join(bdir, "CMakeFiles/libgama.dir/**/*.o"), recursive=True))
    return objs


def compile_harness(src, link_gama=False, sanitize=False, extra_flags="", extra_src=()):
    """compile a harness .cpp against /repo/lib (header-only) or against the rebuilt libgama
    objects; returns path of executable.  Cached on (tree hash, harness text, flags)."""
    src = os.path.join(VERIF, src) if not os.path.isabs(src) else src
    key = file_hash([src] + [os.path.join(VERIF, "harness", "hcommon.h")]) + repo_tree_hash() + \
        ("L" if link_gama else "H") + ("S" if sanitize else "P") + hashlib.sha1(
            (extra_flags + "|".join(extra_src) + SAN_FLAGS + PLAIN_FLAGS).encode()).hexdigest()[:8]
    exe = os.path.join(CACHE, "h-" + hashlib.sha1(key.encode()).hexdigest()[:24])
    with _Lock(exe + ".lock"):
        if os.path.exists(exe):
            os.utime(exe)
            return exe
        os.makedirs(CACHE, exist_ok=True)
        flags = (SAN_FLAGS if sanitize else "-O1 -g") + " -std=c++14 -D" + GUARD + " -I" + os.path.join(REPO, "lib") + \
            " -I" + os.path.join(VERIF, "harness") + " " + extra_flags
        objs = []
        if link_gama:
            bdir = build_repo(sanitize=sanitize)
            objs = gama_objects(bdir)
        xs = [os.path.join(REPO, s) for s in extra_src]
        cmd = "g++ %s %s %s %s -lexpat -o %s.tmp && mv %s.tmp %s" % (
            flags, src, " ".join(xs), " ".join(objs), exe, exe, exe)
        rc, out, err = sh(cmd, timeout=900)
        if rc != 0:
            raise BuildError("harness %s does not compile against /repo:\n%s" % (src, (out + err)[-6000:]))
    return exe


# ---------------------------------------------------------------------------------------------
# Coq

def coq_project():
    """(re)generate coq/_CoqProject and coq/Makefile from the .v files present"""
    vs = sorted(f for f in os.listdir(COQ) if f.endswith(".v"))
    txt = "-Q . Gama\n-arg -w -arg -notation-overridden,-deprecated,-ambiguous-paths\n" + "\n".join(vs) + "\n"
    p = os.path.join(COQ, "_CoqProject")
    old = open(p).read() if os.path.exists(p) else None
    if old != txt or not os.path.exists(os.path.join(COQ, "Makefile")):
        open(p, "w").write(txt)
        rc, out, err = sh("coq_makefile -f _CoqProject -o Makefile", cwd=COQ, timeout=120)
        if rc != 0:
            raise BuildError("coq_makefile failed: " + out + err)


def coq_make(targets, timeout=3000):
    """full .vo build of the named targets (and what they need).  returns (ok, log)"""
    with _Lock(os.path.join(COQ, ".make.lock")):
        coq_project()
        rc, out, err = sh(["make", "-k", "-j", str(NCPU)] + list(targets), cwd=COQ, timeout=timeout)
    return rc == 0, out + err


def coq_run(vtext, workdir, name="cases", timeout=1200):
    """compile a generated .v file against the built development; returns (rc, stdout+stderr)"""
    p = os.path.join(workdir, name + ".v")
    with open(p, "w") as f:
        f.write(vtext)
    rc, out, err = sh(["coqc", "-Q", COQ, "Gama", "-w", "-notation-overridden,-deprecated", p], cwd=workdir,
                      timeout=timeout)
    return rc, out + err


def parse_coq_list(output, marker=None):
    """parse the (first, or the one following `marker`) `= [...] : list ...` printed by Eval.
    Returns list of strings (elements, top-level split on ';') or None if not found."""
    s = output
    if marker is not None:
        k = s.find(marker)
        if k < 0:
            return None
        s = s[k + len(marker):]
    m = re.search(r"=\s*(\[.*?\])\s*:\s*list", s, re.S)
    if not m:
        return None
    body = re.sub(r"\s+", " ", m.group(1))[1:-1].strip()
    if not body:
        return []
    out, depth, cur = [], 0, ""
    for ch in body:
        if ch in "([":
            depth += 1
        elif ch in ")]":
            depth -= 1
        if ch == ";" and depth == 0:
            out.append(cur.strip())
            cur = ""
        else:
            cur += ch
    out.append(cur.strip())
    return out


def hexfloat(x):
    """python float -> Coq primitive float literal (exact)"""
    if x != x:
        return "nan"
    if x == float("inf"):
        return "infinity"
    if x == float("-inf"):
        return "neg_infinity"
    h = float(x).hex()
    if h.startswith("-"):
        return "(-%s)" % h[1:]
    return h


def coq_float_list(xs):
    return "[" + "; ".join(hexfloat(x) for x in xs) + "]%float"


def theorems_in(vfile):
    txt = open(vfile).read()
    txt = re.sub(r"\(\*.*?\*\)", "", txt, flags=re.S)
    return re.findall(r"^\s*(?:Local\s+|Global\s+)?(?:Theorem|Lemma|Example|Corollary|Fact|Proposition)\s+([A-Za-z0-9_']+)", txt, re.M)


def requires_of(vfile):
    txt = open(vfile).read()
    txt = re.sub(r"\(\*.*?\*\)", "", txt, flags=re.S)
    deps = set()
    for m in re.finditer(r"(?:From\s+Gama\s+)?Require\s+(?:Import\s+|Export\s+)?([^.]*(?:\.[A-Za-z][^.]*)*)\.", txt):
        for w in m.group(1).split():
            w = w.replace("Gama.", "")
            if os.path.exists(os.path.join(COQ, w + ".v")):
                deps.add(w)
    return deps


def dev_closure(root):
    seen, todo = [], [root]
    while todo:
        x = todo.pop()
        if x in seen:
            continue
        seen.append(x)
        todo.extend(requires_of(os.path.join(COQ, x + ".v")))
    return seen


FORBIDDEN = re.compile(r"\b(Admitted|admit|Axiom|Axioms|Parameter|Parameters|Conjecture|Conjectures|Admit\s+Obligations|"
                       r"Unset\s+Guard\s+Checking|Unset\s+Positivity\s+Checking|Unset\s+Universe\s+Checking|bypass_check|"
                       r"native_compute|type-in-type|impredicative-set)\b")


def forbidden_in_sources(files):
    bad = []
    for f in files:
        txt = open(f).read()
        txt = re.sub(r"\(\*.*?\*\)", "", txt, flags=re.S)
        for m in FORBIDDEN.finditer(txt):
            bad.append("%s: %s" % (os.path.basename(f), m.group(0)))
    return bad


# ---------------------------------------------------------------------------------------------

def load_known_findings():
    res = {"finding": [], "fixed": []}
    p = os.path.join(VERIF, "KNOWN_FINDINGS.txt")
    if os.path.exists(p):
        for l in open(p):
            l = l.strip()
            m = re.match(r"finding:\s+property=(\S+)\s+key=(\S+)\s+(.*)", l)
            if m:
                res["finding"].append({"property": m.group(1), "key": m.group(2), "text": m.group(3)})
            m = re.match(r"fixed:\s+property=(\S+)\s+(\S+)\s+(.*)", l)
            if m:
                res["fixed"].append({"property": m.group(1), "commit": m.group(2), "text": m.group(3)})
    return res


class Ctx:
    def __init__(self, pid, tier="quick", seed=None):
        self.pid = pid
        self.tier = tier
        self.seed = int(seed if seed is not None else os.environ.get("VERIF_SEED", "20260926"))
        self.rng = random.Random(self.seed * 1000003 + int(pid[1:]))
        self.t0 = time.time()
        os.makedirs("/var/tmp", exist_ok=True)
        self.scratch = tempfile.mkdtemp(prefix="gama-verif-%s-" % pid, dir="/var/tmp")
        atexit.register(lambda: shutil.rmtree(self.scratch, ignore_errors=True))
        self.violations = 0
        self.known_matched = []
        self.known = load_known_findings()
        self.evaluations = 0
        self.distinct = set()
        self.samples = []
        self.obligations = 0
        self.discharged = 0
        self.checker_cmds = []
        self.axioms = set()
        self.theorem_names = []
        self.extra = {}
        self.rules = []
        self.notes = []
        self.dist = {}
        self.assumptions = []
        os.makedirs(os.path.join(VERIF, "replays"), exist_ok=True)
        os.makedirs(os.path.join(VERIF, "evidence"), exist_ok=True)

    @property
    def quick(self):
        return self.tier == "quick"

    def log(self, *a):
        print("[%s %6.1fs]" % (self.pid, time.time() - self.t0), *a, flush=True)

    # -- counting -------------------------------------------------------------------------
    def count(self, case_key=None, nontrivial=True, n=1):
        self.evaluations += n
        if case_key is not None and nontrivial:
            self.distinct.add(hashlib.sha1(repr(case_key).encode()).hexdigest()[:16])

    def hist(self, name, key, n=1):
        d = self.dist.setdefault(name, {})
        k = str(key)
        d[k] = d.get(k, 0) + n

    def skipped(self, name, replay=None, cases=None):
        """a generated case the check could not use (the program did not adjust it, ...): counted in the histogram `name`;
        when such cases are no longer rare the check has lost its grip on the property and finish() reports that, with one
        of the unused inputs as the replay"""
        self.hist(name, 1)
        self.skips = getattr(self, "skips", 0) + 1
        if replay is not None and getattr(self, "skip_replay", None) is None:
            self.skip_replay = (name, replay)

    def sample(self, obj, limit=6):
        if len(self.samples) < limit:
            self.samples.append(obj)

    def obligation(self, ok, what=None):
        self.obligations += 1
        if ok:
            self.discharged += 1
        elif what:
            self.notes.append("undischarged: " + what)

    # -- violations -----------------------------------------------------------------------
    def violation(self, replay, what, key=None, no_input=False):
        """report a violation (or a KNOWN-FINDING when `key` is listed for this property)"""
        if key is not None:
            for f in self.known["finding"]:
                if f["property"] == self.pid and f["key"] == key:
                    if key not in self.known_matched:
                        self.known_matched.append(key)
                        print("KNOWN-FINDING: property=%s %s" % (self.pid, f["text"]), flush=True)
                    return False
        self.violations += 1
        n = len(glob.glob(os.path.join(VERIF, "replays", "%s-*" % self.pid)))
        path = os.path.join("replays", "%s-%d-%03d.json" % (self.pid, self.seed, n))
        with open(os.path.join(VERIF, path), "w") as f:
            json.dump({"property": self.pid, "what": what, "key": key, "no_failing_input_found": no_input,
                       "seed": self.seed, "tier": self.tier, "replay": replay}, f, indent=1, default=str)
        print("VIOLATION property=%s replay=%s%s" % (self.pid, path, " no-failing-input-found" if no_input else ""),
              flush=True)
        self.log("  ->", what[:400])
        return True

    # -- proofs ---------------------------------------------------------------------------
    def check_proofs(self, prop_file=None, extra_files=(), report=True):
        """build Properties_<id>.vo (full .vo build), count obligations, collect axioms via
        Print Assumptions, scan sources for forbidden constructs.  Returns True iff all fine."""
        prop_file = prop_file or ("Properties_%s" % self.pid)
        roots = [prop_file] + list(extra_files)
        ok, log = coq_make([r + ".vo" for r in roots])
        self.checker_cmds.append("cd coq && coq_makefile -f _CoqProject -o Makefile && make -k -j%d %s" % (
            NCPU, " ".join(r + ".vo" for r in roots)))
        files = []
        for r in roots:
            for x in dev_closure(r):
                if x not in files:
                    files.append(x)
        allok = True
        for x in files:
            ths = theorems_in(os.path.join(COQ, x + ".v"))
            built = os.path.exists(os.path.join(COQ, x + ".vo")) and \
                os.path.getmtime(os.path.join(COQ, x + ".vo")) >= os.path.getmtime(os.path.join(COQ, x + ".v"))
            for t in ths:
                self.obligation(built, "%s.%s" % (x, t))
            if not built:
                allok = False
                m = re.search(r'File "\./%s\.v", line (\d+).*?\n(Error:.*?)(?:\n\n|\Z)' % re.escape(x), log, re.S)
                self.broken_theorem = "%s.v%s" % (x, (" line %s: %s" % (m.group(1), m.group(2)[:300])) if m else "")
        bad = forbidden_in_sources([os.path.join(COQ, x + ".v") for x in files])
        if bad:
            allok = False
            self.broken_theorem = "forbidden constructs: " + ", ".join(bad[:5])
        if not ok and allok:
            allok = False
            self.broken_theorem = "make failed: " + log[-500:]
        # property theorems + Print Assumptions
        prop_files = [prop_file] + [e for e in extra_files if e.startswith("Properties_")]
        names = [n for pf in prop_files for n in theorems_in(os.path.join(COQ, pf + ".v"))]
        self.theorem_names = names
        if allok and names:
            v = "".join("From Gama Require Import %s.\n" % pf for pf in prop_files) + "".join(
                'Goal True. idtac "@@%s". Abort.\nPrint Assumptions %s.\n' % (n, n) for n in names)
            rc, out = coq_run(v, self.scratch, name="assume_" + self.pid, timeout=600)
            self.checker_cmds.append("coqc -Q coq Gama assume_%s.v  (Print Assumptions for %d theorems)" % (self.pid, len(names)))
            if rc != 0:
                allok = False
                self.broken_theorem = "Print Assumptions failed: " + out[-400:]
            else:
                for blk in out.split("@@")[1:]:
                    for l in blk.splitlines()[1:]:
                        m = re.match(r"^([A-Za-z_][A-Za-z0-9_.']*)\s*(:|$)", l)
                        if m and not l.startswith("Closed under") and not l.startswith("Axioms"):
                            self.axioms.add(m.group(1))
                foreign = [a for a in self.axioms if not any(a.startswith(p) or ("." + p) in a or a.split(".")[-1].startswith(p.split(".")[-1]) for p in AXIOM_WHITELIST_PREFIXES)]
                if foreign:
                    allok = False
                    self.broken_theorem = "axioms outside the whitelist: " + ", ".join(foreign)
        if not allok and report:
            self.violation({"broken": getattr(self, "broken_theorem", "?"), "kind": "theorem"},
                           "proof obligation no longer checks: " + getattr(self, "broken_theorem", "?"), no_input=True)
        return allok

    # -- evidence / exit ------------------------------------------------------------------
    def finish(self, rule, level="proof", explanation=None):
        skips = getattr(self, "skips", 0)
        if skips:
            total = max(1, getattr(self, "skip_total", 0) or self.evaluations)
            ok = skips <= max(2, 0.2 * total)
            self.obligation(ok, "usable cases: %d of %d generated cases could not be used" % (skips, total))
            if not ok:
                nm, rp = getattr(self, "skip_replay", None) or ("skipped", None)
                self.violation({"kind": "coverage", "reason": nm, "unused_case": rp},
                               "%d of %d generated cases could not be used (%s): on the unchanged tree such cases are rare; the property is no longer "
                               "shown to hold on them" % (skips, total, nm), no_input=rp is None)
        for f in self.known["finding"]:
            if f["property"] == self.pid and f["key"] not in self.known_matched:
                # listed finding that this run's inputs did not reproduce: still announced, never suppresses anything
                print("KNOWN-FINDING: property=%s %s [listed; not met by the inputs of this run]" % (self.pid, f["text"]), flush=True)
        cov = {
            "evaluations": self.evaluations,
            "distinct_nontrivial": len(self.distinct),
            "rule": rule,
            "samples": self.samples[:8] if self.samples else ["(none)"],
            "obligations": self.obligations,
            "discharged": self.discharged,
            "checker_cmd": " ; ".join(self.checker_cmds) or "none",
            "trusted_base": [
                "Coq 8.16.1 kernel + VM (vm_compute), primitive floats/ints; no native_compute; no extraction",
                "axioms reported by Print Assumptions for the property theorems: " + (", ".join(sorted(self.axioms)) or "none (closed under the global context)"),
                "hand-written Gallina model tied to /repo by the correspondence harness (C++ in harness/, generators in tools/ and checks/); g++, libstdc++, libm, expat",
            ] + self.assumptions,
            "property_theorems": self.theorem_names,
            "input_distribution": self.dist,
            "known_findings_matched": self.known_matched,
            "notes": self.notes[:40],
        }
        if explanation:
            cov["explanation"] = explanation
        cov.update(self.extra)
        ev = {"property_id": self.pid, "tier": self.tier, "seed": self.seed, "level": level, "coverage": cov,
              "assumptions": self.assumptions, "wall_s": round(time.time() - self.t0, 2), "violations": self.violations}
        with open(os.path.join(VERIF, "evidence", self.pid + ".json"), "w") as f:
            json.dump(ev, f, indent=1, default=str)
        self.log("done: evaluations=%d distinct=%d obligations=%d/%d violations=%d known=%s" % (
            self.evaluations, len(self.distinct), self.discharged, self.obligations, self.violations, self.known_matched))
        sys.stdout.flush()
        return 1 if self.violations else 0
