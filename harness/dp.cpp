// Chunk-split harness for the table-driven DataParser (C11): S <hex document> parses the document split into two chunks at
// every byte position and compares the verdict (ok / exception line and text) with the unsplit parse.
#include <list>
#include <sstream>
#include <string>
#include <iostream>
#include <gnu_gama/xml/dataparser.h>
#include <gnu_gama/exception.h>
#include "hcommon.h"

static std::string verdict(const std::string& doc, long split) {
  std::ostringstream o;
  std::list<GNU_gama::DataObject::Base*> objects;
  try {
    GNU_gama::DataParser p(objects);
    if (split < 0) p.xml_parse(doc.c_str(), doc.size(), 1);
    else { p.xml_parse(doc.c_str(), split, 0); p.xml_parse(doc.c_str() + split, doc.size() - split, 1); }
    o << "ok " << objects.size();
    for (auto* x : objects) { std::string s = x->xml(); unsigned h = 5381; for (unsigned char c : s) h = h * 33 + c; o << ' ' << h; }
  } catch (const GNU_gama::Exception::parser& e) {
    o << "exc " << e.line << ' ' << bytes2hex(e.str);
  } catch (const std::exception& e) {
    o << "sexc " << bytes2hex(e.what());
  } catch (...) { o << "uexc"; }
  for (auto* x : objects) delete x;
  return o.str();
}

int main() {
  std::string line;
  while (std::getline(std::cin, line)) {
    if (line.size() < 2) continue;
    std::string doc = hex2bytes(line.substr(2));
    const bool line_ends_only = line[0] == 'L';      // L: split only behind a line feed (how gama-g3 feeds its parser)
    std::string ref = verdict(doc, -1);
    long bad = -1; std::string got;
    for (long p = 0; p <= (long)doc.size(); p++) {
      if (line_ends_only && !(p > 0 && doc[p - 1] == '\n')) continue;
      got = verdict(doc, p); if (got != ref) { bad = p; break; }
    }
    if (bad < 0) std::cout << "same " << doc.size() + 1 << ' ' << ref << "\n";
    else std::cout << "differs " << bad << ' ' << got << " | " << ref << "\n";
    std::cout.flush();
  }
  return 0;
}
