// Correspondence harness for gama-g3's linearisation (C19).
// Reads a <g3-model> input with the real DataParser (as src/gama-g3.cpp does), runs
// Model::update_linearization() and dumps, with exact (hex) doubles,
//   POINT id X Y Z B L H iN iE iU geoid       approximate values and indexes of the unknowns (0: none)
//   OBS kind ids.. values.. row                one line per active observation, row = its first row
//   ROW i rhs n (index coef)*                  the rows of the sparse design matrix and the right-hand side
//   REJECTED n
#include <fstream>
#include <iostream>
#include <list>
#include <sstream>
#include <string>
#define private public
#define protected public
#include <gnu_gama/g3/g3_model.h>
#include <gnu_gama/g3/g3_observation.h>
#undef private
#undef protected
#include <gnu_gama/xml/dataparser.h>
#include <gnu_gama/exception.h>
#include "hcommon.h"

using namespace GNU_gama::g3;
namespace g3 = GNU_gama::g3;
namespace GG = GNU_gama;

int main(int argc, char** argv) {
  if (argc < 2) return 2;
  std::ifstream input(argv[1]);
  std::list<GG::DataObject::Base*> objects;
  GG::DataParser parser(objects);
  g3::Model* model = nullptr;
  try {
    std::string text;
    while (std::getline(input, text)) {
      parser.xml_parse(text.c_str(), text.length(), 0);
      parser.xml_parse("\n", 1, 0);
    }
    parser.xml_parse("", 0, 1);
    for (auto* o : objects)
      if (auto* m = dynamic_cast<GG::DataObject::g3_model*>(o)) model = m->model;
    if (!model) { std::cout << "exc no-model\n"; return 0; }
    model->update_linearization();
  } catch (const GG::Exception::parser& p) {
    std::cout << "exc parser " << p.line << " " << p.str << "\n"; return 0;
  } catch (const GG::Exception::string& s) {
    std::cout << "exc string " << s.str << "\n"; return 0;
  } catch (const GG::Exception::matvec& m) {
    std::cout << "exc matvec " << m.what() << "\n"; return 0;
  } catch (...) {
    std::cout << "exc unknown\n"; return 0;
  }

  for (g3::Model::PointBase::iterator i = model->points->begin(); i != model->points->end(); ++i) {
    Point* p = *i;
    if (p->unused() || !p->has_position()) { std::cout << "UNUSED " << p->name << "\n"; continue; }
    std::cout << "POINT " << p->name << ' ' << dhex(p->X()) << ' ' << dhex(p->Y()) << ' ' << dhex(p->Z()) << ' '
              << dhex(p->B()) << ' ' << dhex(p->L()) << ' ' << dhex(p->H()) << ' '
              << p->N.index() << ' ' << p->E.index() << ' ' << p->U.index() << ' '
              << dhex(p->has_geoid() ? p->geoid() : 0.0) << ' '
              << (p->N.free() ? 1 : 0) << (p->E.free() ? 1 : 0) << (p->U.free() ? 1 : 0) << "\n";
  }
  int row = 1;
  for (g3::Model::ObservationList::iterator i = model->active_obs->begin(); i != model->active_obs->end(); ++i) {
    g3::Observation* o = *i;
    if (auto* v = dynamic_cast<Vector*>(o))
      std::cout << "OBS vector " << v->from << ' ' << v->to << ' ' << dhex(v->dx()) << ' ' << dhex(v->dy()) << ' ' << dhex(v->dz())
                << ' ' << dhex(v->from_dh) << ' ' << dhex(v->to_dh) << ' ' << row << "\n";
    else if (auto* x = dynamic_cast<XYZ*>(o))
      std::cout << "OBS xyz " << x->id << ' ' << dhex(x->x()) << ' ' << dhex(x->y()) << ' ' << dhex(x->z()) << ' ' << row << "\n";
    else if (auto* d = dynamic_cast<Distance*>(o))
      std::cout << "OBS distance " << d->from << ' ' << d->to << ' ' << dhex(d->obs()) << ' ' << dhex(d->from_dh) << ' ' << dhex(d->to_dh) << ' ' << row << "\n";
    else if (auto* z = dynamic_cast<ZenithAngle*>(o))
      std::cout << "OBS zenith " << z->from << ' ' << z->to << ' ' << dhex(z->obs()) << ' ' << dhex(z->from_dh) << ' ' << dhex(z->to_dh) << ' ' << row << "\n";
    else if (auto* a = dynamic_cast<Azimuth*>(o))
      std::cout << "OBS azimuth " << a->from << ' ' << a->to << ' ' << dhex(a->obs()) << ' ' << dhex(a->from_dh) << ' ' << dhex(a->to_dh) << ' ' << row << "\n";
    else if (auto* h = dynamic_cast<Height*>(o))
      std::cout << "OBS height " << h->id << ' ' << dhex(h->obs()) << ' ' << row << "\n";
    else if (auto* hd = dynamic_cast<HeightDiff*>(o))
      std::cout << "OBS hdiff " << hd->from << ' ' << hd->to << ' ' << dhex(hd->obs()) << ' ' << row << "\n";
    else if (auto* an = dynamic_cast<Angle*>(o))
      std::cout << "OBS angle " << an->from << ' ' << an->left << ' ' << an->right << ' ' << dhex(an->obs()) << ' '
                << dhex(an->from_dh) << ' ' << dhex(an->left_dh) << ' ' << dhex(an->right_dh) << ' ' << row << "\n";
    else
      std::cout << "OBS other " << row << "\n";
    row += o->dimension();
  }
  const GG::SparseMatrix<>* A = model->A;
  for (int r = 1; r <= A->rows(); r++) {
    std::cout << "ROW " << r << ' ' << dhex(model->rhs(r));
    double* b = A->begin(r); double* e = A->end(r); int* ib = A->ibegin(r);
    std::cout << ' ' << (e - b);
    for (; b != e; ++b, ++ib) std::cout << ' ' << *ib << ' ' << dhex(*b);
    std::cout << "\n";
  }
  std::cout << "REJECTED " << model->rejected_obs.size() << "\n";
  return 0;
}
