// shared helpers for the correspondence harnesses (no RNG here: cases come from the driver)
#ifndef VERIF_HCOMMON_H
#define VERIF_HCOMMON_H
#include <cstdio>
#include <cstdlib>
#include <string>
#include <vector>
#include <sstream>
#include <iostream>

inline std::string hex2bytes(const std::string& h) {
  std::string s;
  if (h == "-") return s;
  for (size_t i = 0; i + 1 < h.size(); i += 2) s += char(std::stoi(h.substr(i, 2), nullptr, 16));
  return s;
}
inline std::string bytes2hex(const std::string& s) {
  static const char* d = "0123456789abcdef";
  std::string h;
  for (unsigned char c : s) { h += d[c >> 4]; h += d[c & 15]; }
  return h.empty() ? "-" : h;
}
// exact transport of doubles: C99 hex float
inline std::string dhex(double x) { char b[64]; std::snprintf(b, sizeof b, "%a", x); return b; }
inline double hexd(const std::string& s) { return std::strtod(s.c_str(), nullptr); }
inline std::vector<std::string> split_ws(const std::string& l) {
  std::istringstream is(l); std::vector<std::string> v; std::string w;
  while (is >> w) v.push_back(w);
  return v;
}
// all strings of length <= n over alphabet, shorter first, then lexicographic (first char most
// significant) -- the same order as Strings.strings_upto in the Coq development
inline void strings_upto(const std::string& alpha, int n, std::vector<std::string>& out) {
  out.push_back("");
  size_t start = 0;
  for (int len = 1; len <= n; ++len) {
    size_t end = out.size();
    std::vector<std::string> next;
    for (char c : alpha)
      for (size_t i = start; i < end; ++i) next.push_back(std::string(1, c) + out[i]);
    start = end;
    for (auto& s : next) out.push_back(s);
  }
}
#endif
