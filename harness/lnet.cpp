// Harness on the local-network entry point (C05, C01, C10, C14, C20): parses a gkf file with the real
// GKFparser into a real LocalNetwork (as gama-local does), optionally runs the approximate coordinates,
// and dumps points, revised observations, unknowns and the project equations; with "solve" also the
// adjustment read through the public API.
//   lnet <file.gkf> <algorithm> [acord] [solve] [lindep]
#include "hcommon.h"
#include <fstream>
#include <cstring>
#include <map>
#include <set>
#include <list>
#include <algorithm>
#include <memory>
#include <cmath>
#include <iomanip>
#include <limits>
#include <utility>
#include <gnu_gama/adj/adj.h>
#include <gnu_gama/local/gamadata.h>
#define private public
#define protected public
#include <gnu_gama/local/network.h>
#undef private
#undef protected
#include <gnu_gama/xml/gkfparser.h>
#include <gnu_gama/local/acord/acord2.h>
#include <gnu_gama/local/observation.h>
#include <gnu_gama/local/language.h>
#include <gnu_gama/local/test_linearization_visitor.h>

using namespace GNU_gama::local;

static const char* obs_type(Observation* o, std::string& extra) {
  extra = "-";
  if (dynamic_cast<Direction*>(o)) return "direction";
  if (dynamic_cast<Distance*>(o)) return "distance";
  if (Angle* a = dynamic_cast<Angle*>(o)) { extra = bytes2hex(a->fs().str()); return "angle"; }
  if (dynamic_cast<H_Diff*>(o)) return "dh";
  if (dynamic_cast<S_Distance*>(o)) return "s-distance";
  if (dynamic_cast<Z_Angle*>(o)) return "z-angle";
  if (dynamic_cast<Azimuth*>(o)) return "azimuth";
  if (dynamic_cast<Xdiff*>(o)) return "dx";
  if (dynamic_cast<Ydiff*>(o)) return "dy";
  if (dynamic_cast<Zdiff*>(o)) return "dz";
  if (dynamic_cast<X*>(o)) return "x";
  if (dynamic_cast<Y*>(o)) return "y";
  if (dynamic_cast<Z*>(o)) return "z";
  return "unknown";
}

int main(int argc, char* argv[]) {
  if (argc < 3) return 2;
  bool acord = true, solve = false, lindep = false, twice = false;
  for (int i = 3; i < argc; i++) {
    if (!strcmp(argv[i], "noacord")) acord = false;
    if (!strcmp(argv[i], "solve")) solve = true;
    if (!strcmp(argv[i], "twice")) twice = true;
    if (!strcmp(argv[i], "lindep")) lindep = true;
  }
  set_gama_language(en);
  LocalNetwork* IS = new LocalNetwork;
  try {
    std::ifstream inp(argv[1]);
    std::string text((std::istreambuf_iterator<char>(inp)), std::istreambuf_iterator<char>());
    GKFparser gkf(*IS);
    gkf.xml_parse(text.c_str(), text.size(), 1);
    IS->set_algorithm(argv[2]);
    IS->remove_inconsistency();
    if (acord) { Acord2 a(IS->PD, IS->OD); a.execute(); refine_obsdh_reductions(IS); }
    auto dump = [&]() {
    std::ostringstream pe;
    pe.precision(17);
    IS->project_equations(pe);
    std::cout << "CONSISTENT " << (IS->consistent() ? 1 : 0) << " XNORTH " << dhex(IS->PD.xNorthAngle()) << " M0 " << dhex(IS->apriori_m_0()) << "\n";
    for (PointData::iterator i = IS->PD.begin(); i != IS->PD.end(); ++i) {
      LocalPoint& p = i->second;
      std::cout << "POINT " << bytes2hex(i->first.str()) << ' ' << (p.test_xy() ? dhex(p.x()) : "-") << ' ' << (p.test_xy() ? dhex(p.y()) : "-")
                << ' ' << (p.test_z() ? dhex(p.z()) : "-") << ' ' << p.fixed_xy() << p.free_xy() << p.constrained_xy() << p.fixed_z() << p.free_z()
                << p.constrained_z() << p.active_xy() << p.active_z() << ' ' << p.index_x() << ' ' << p.index_y() << ' ' << p.index_z() << "\n";
    }
    int k = 0;
    for (auto o : IS->revised_obs_) {
      std::string extra;
      const char* t = obs_type(o, extra);
      double orient = 0; int iori = 0;
      if (dynamic_cast<Direction*>(o)) {
        StandPoint* sp = static_cast<StandPoint*>(const_cast<ObservationData::ClusterType*>(o->ptr_cluster()));
        if (sp->test_orientation()) orient = sp->orientation(); iori = sp->index_orientation();
      }
      std::cout << "OBS " << ++k << ' ' << t << ' ' << bytes2hex(o->from().str()) << ' ' << bytes2hex(o->to().str()) << ' ' << extra << ' '
                << dhex(o->raw_value()) << ' ' << dhex(o->value()) << ' ' << dhex(o->stdDev()) << ' ' << dhex(o->from_dh()) << ' ' << dhex(o->to_dh())
                << ' ' << dhex(orient) << ' ' << iori << ' ' << dhex(IS->weight_obs(k)) << "\n";
    }
    for (int i = 1; i <= IS->unknowns_count(); i++)
      std::cout << "UNKNOWN " << i << ' ' << IS->unknown_type(i) << ' ' << bytes2hex(IS->unknown_pointid(i).str()) << "\n";
    // project equations as the network prints them: "n idx..." / "w rhs coef..."
    {
      std::istringstream is(pe.str());
      int nu, nm; is >> nu >> nm;
      std::cout << "PE " << nu << ' ' << nm << "\n";
      for (int r = 1; r <= nm; r++) {
        int n; is >> n; std::vector<int> idx(n); for (auto& v : idx) is >> v;
        double w, rhs; is >> w >> rhs; std::vector<double> c(n); for (auto& v : c) is >> v;
        std::cout << "ROW " << r << ' ' << dhex(w) << ' ' << dhex(rhs) << ' ' << n;
        for (auto v : idx) std::cout << ' ' << v;
        for (auto v : c) std::cout << ' ' << dhex(v);
        std::cout << "\n";
      }
    }
    };
    dump();
    std::cout << "MINN " << IS->min_n();
    for (int i = 0; i < IS->min_n(); i++) std::cout << ' ' << IS->min_x_[i];
    std::cout << "\n";
    if (solve) {
      int d = IS->null_space();
      std::cout << "DEFECT " << d << "\n";
      const auto& x = IS->solve();
      std::cout << "X"; for (int i = 1; i <= x.dim(); i++) std::cout << ' ' << dhex(x(i)); std::cout << "\n";
      const auto& r = IS->residuals();
      std::cout << "R"; for (int i = 1; i <= r.dim(); i++) std::cout << ' ' << dhex(r(i)); std::cout << "\n";
      std::cout << "VWV " << dhex(IS->trans_VWV()) << " DOF " << IS->degrees_of_freedom() << " M0POST " << dhex(IS->m_0_aposteriori_value()) << "\n";
    }
    if (twice) {
      // the project equations are rebuilt after every change of the configuration: same rows expected
      IS->update_points();
      std::cout << "PASS 2\n";
      dump();
    }
    if (lindep) {
      // as GeneralParameters does: adjust, and on a bad regularisation ask which unknowns are linearly dependent
      int badreg = 0;
      try { IS->solve(); }
      catch (const GNU_gama::Exception::matvec& e) {
        if (e.error() != GNU_gama::Exception::BadRegularization) throw;
        badreg = 1;
      }
      std::cout << "BADREG " << badreg << "\n";
      std::cout << "LINDEP";
      for (int i = 1; i <= IS->unknowns_count(); i++) std::cout << ' ' << (IS->lindep(i) ? 1 : 0);
      std::cout << "\n";
    }
    std::cout << "REMOVED";
    for (auto& id : IS->removed_points) std::cout << ' ' << bytes2hex(id.str());
    std::cout << "\nEND\n";
  } catch (const GNU_gama::local::ParserException& e) {
    std::cout << "EXC parser " << e.line << ' ' << e.what() << "\n";
  } catch (const GNU_gama::local::Exception& e) {
    std::cout << "EXC local " << e.what() << "\n";
  } catch (const GNU_gama::Exception::matvec& e) {
    std::cout << "EXC matvec " << e.error() << ' ' << e.what() << "\n";
  } catch (const std::exception& e) {
    std::cout << "EXC std " << e.what() << "\n";
  } catch (...) {
    std::cout << "EXC unknown\n";
  }
  return 0;
}
