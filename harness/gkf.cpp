// Correspondence / robustness harness for GKFparser (C11).
// stdin: one request per line
//   D <hexbytes>          parse the document in one piece with a fresh GKFparser + LocalNetwork
//   S <hexbytes>          parse it split into two chunks at EVERY byte position (n+1 parses); reports whether
//                         every split gives the same verdict (and line) as the unsplit parse
//   E <hexbytes>          as D, and prints the network description (UTF-8, hex) after the state
//   L <hexbytes>          line by line as gama-local reads its input (getline + "\n")
// stdout, one line per request:
//   ok <final state> | exc <line> <code> <hex text>        (S: "same <n>" or "differs <pos> <verdict>")
#include <sstream>
#include <string>
#include <list>
#include <vector>
#include <map>
#include <set>
#include <iostream>
#include <fstream>
#include <algorithm>
#include <memory>
#include <cmath>
#include <gnu_gama/local/network.h>
#define private public
#define protected public
#include <gnu_gama/xml/gkfparser.h>
#undef private
#undef protected
#include <gnu_gama/local/network.h>
#include <gnu_gama/local/language.h>
#include <gnu_gama/exception.h>
#include <gnu_gama/local/exception.h>
#include <sstream>
#include "hcommon.h"

using namespace GNU_gama::local;

static bool want_description = false;
static std::string verdict(const std::string& doc, long split, bool lines) {
  std::ostringstream o;
  LocalNetwork* net = new LocalNetwork;
  try {
    GKFparser gkf(*net);
    if (lines) {
      std::istringstream in(doc);
      std::string line;
      while (std::getline(in, line)) {
        line += '\n';
        gkf.xml_parse(line.c_str(), line.length(), 0);
      }
      gkf.xml_parse("", 0, 1);
    } else if (split < 0) {
      gkf.xml_parse(doc.c_str(), doc.size(), 1);
    } else {
      gkf.xml_parse(doc.c_str(), split, 0);
      gkf.xml_parse(doc.c_str() + split, doc.size() - split, 1);
    }
    o << "ok " << gkf.state;
    if (want_description) o << ' ' << bytes2hex(net->description);
  } catch (const GNU_gama::Exception::parser& e) {
    o << "exc " << e.line << ' ' << e.error_code << ' ' << bytes2hex(e.str);
  } catch (const GNU_gama::local::Exception& e) {
    o << "lexc " << bytes2hex(e.what());
  } catch (const GNU_gama::Exception::matvec& e) {
    o << "mexc " << e.error();
  } catch (const std::exception& e) {
    o << "sexc " << bytes2hex(e.what());
  } catch (...) {
    o << "uexc";
  }
  delete net;
  return o.str();
}

int main() {
  set_gama_language(en);
  std::string line;
  while (std::getline(std::cin, line)) {
    if (line.size() < 2) continue;
    char mode = line[0];
    std::string doc = hex2bytes(line.substr(2));
    want_description = (mode == 'E');
    if (mode == 'D' || mode == 'E') std::cout << verdict(doc, -1, false) << "\n";
    else if (mode == 'L') std::cout << verdict(doc, -1, true) << "\n";
    else if (mode == 'S') {
      std::string ref = verdict(doc, -1, false);
      long bad = -1; std::string got;
      for (long p = 0; p <= (long)doc.size(); p++) {
        got = verdict(doc, p, false);
        if (got != ref) { bad = p; break; }
      }
      if (bad < 0) std::cout << "same " << doc.size() + 1 << ' ' << ref << "\n";
      else std::cout << "differs " << bad << ' ' << got << " | " << ref << "\n";
    }
    std::cout.flush();
  }
  return 0;
}
