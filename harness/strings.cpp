// K-correspondence harness for the string-level functions:
//   IsFloat / IsInteger (lib/gnu_gama/intfloat.h), str2xml (lib/gnu_gama/xml/str2xml.cpp)
// stdin lines:   enum <fn> <alphabet-hex> <maxlen>   -> one line of '0'/'1' per string in canonical order
//                one  <fn> <hex>                     -> 0/1
//                x2x  <hex>                          -> hex of str2xml(s)
#include "hcommon.h"
#include <gnu_gama/intfloat.h>
#include <gnu_gama/xml/str2xml.h>

static bool call(const std::string& fn, const std::string& s) {
  if (fn == "isfloat") return GNU_gama::IsFloat(s);
  if (fn == "isinteger") return GNU_gama::IsInteger(s);
  std::fprintf(stderr, "unknown fn %s\n", fn.c_str()); std::exit(2);
}
int main() {
  std::string line;
  while (std::getline(std::cin, line)) {
    auto w = split_ws(line);
    if (w.empty()) continue;
    if (w[0] == "enum") {
      std::vector<std::string> all; strings_upto(hex2bytes(w[2]), std::stoi(w[3]), all);
      std::string bits;
      for (auto& s : all) bits += call(w[1], s) ? '1' : '0';
      std::cout << bits << "\n";
    } else if (w[0] == "one") {
      std::cout << (call(w[1], hex2bytes(w[2])) ? 1 : 0) << "\n";
    } else if (w[0] == "x2x") {
      std::cout << bytes2hex(GNU_gama::str2xml(hex2bytes(w[1]))) << "\n";
    } else if (w[0] == "x2xenum") {
      std::vector<std::string> all; strings_upto(hex2bytes(w[1]), std::stoi(w[2]), all);
      for (auto& s : all) std::cout << bytes2hex(GNU_gama::str2xml(s)) << "\n";
    }
  }
  return 0;
}
