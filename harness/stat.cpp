// K harness for lib/gnu_gama/statan.cpp: one query per line
//   normal a | nd x | student a n | chi2 p n | ks x      -> values as %a
#include "hcommon.h"
#include <gnu_gama/statan.h>
int main() {
  std::string line;
  while (std::getline(std::cin, line)) {
    auto w = split_ws(line);
    if (w.empty()) continue;
    if (w[0] == "normal") std::cout << dhex(GNU_gama::Normal(hexd(w[1]))) << "\n";
    else if (w[0] == "nd") { double D, f; GNU_gama::NormalDistribution(hexd(w[1]), D, f); std::cout << dhex(D) << ' ' << dhex(f) << "\n"; }
    else if (w[0] == "student") std::cout << dhex(GNU_gama::Student(hexd(w[1]), std::stoi(w[2]))) << "\n";
    else if (w[0] == "chi2") std::cout << dhex(GNU_gama::Chi_square(hexd(w[1]), std::stoi(w[2]))) << "\n";
    else if (w[0] == "ks") std::cout << dhex(GNU_gama::KSprob(hexd(w[1]))) << "\n";
    else std::cout << "?\n";
  }
  return 0;
}
