// K harness for the sparse kernels (C16): SparseMatrix build/transpose/replicate, column graph, connectivity,
// reverse Cuthill-McKee ordering, Envelope set/cholDec/solve/inverse, BlockDiagonal cholDec.
//   S m n <dense row-major>  <rhs n values>   -> lines: T (transpose dense), R (replicate dense), G (adjacency 0/1 n x n),
//        C connected, P perm.., I invp.., D defect, Z zero-pivot positions (permuted numbering), X solution (permuted numbering)
//        V inverse entries on the profile as triples i j v (permuted numbering, regular case only)
//   B nblocks {dim band values}               -> EV dim <lower triangle of Envelope(BlockDiagonal)>, F factor values per block or "notpd k"
//   U m n {k {col value}*k}*m                 -> raw storage, any order of the column indices, repeated indices allowed:
//        RT / RTT = storage of transpose() / transpose()->transpose(): rows, then per row: count {index value}*count
#include "hcommon.h"
#include <gnu_gama/sparse/smatrix.h>
#include <gnu_gama/sparse/smatrix_graph.h>
#include <gnu_gama/sparse/smatrix_ordering.h>
#include <gnu_gama/sparse/sbdiagonal.h>
#include <gnu_gama/adj/envelope.h>
using namespace GNU_gama;

static void raw(const SparseMatrix<>* s, const char* tag) {
  std::cout << tag << ' ' << s->rows();
  for (int i = 1; i <= s->rows(); i++) {
    double* b = s->begin(i); double* e = s->end(i); int* k = s->ibegin(i);
    std::cout << ' ' << (e - b);
    for (; b != e; ++b, ++k) std::cout << ' ' << *k << ' ' << dhex(*b);
  }
  std::cout << "\n";
}

static void dense(const SparseMatrix<>* s, const char* tag) {
  std::cout << tag << ' ' << s->rows() << ' ' << s->columns();
  for (int i = 1; i <= s->rows(); i++) {
    std::vector<double> row(s->columns(), 0.0);
    double* b = s->begin(i); double* e = s->end(i); int* k = s->ibegin(i);
    for (; b != e; ++b, ++k) row[*k - 1] += *b;
    for (double v : row) std::cout << ' ' << dhex(v);
  }
  std::cout << "\n";
}

int main() {
  std::string line;
  while (std::getline(std::cin, line)) {
    auto w = split_ws(line);
    if (w.empty()) continue;
    size_t p = 1;
    try {
      if (w[0] == "S") {
        int m = std::stoi(w[p++]), n = std::stoi(w[p++]);
        std::vector<std::vector<double>> A(m, std::vector<double>(n));
        int nz = 0;
        for (int i = 0; i < m; i++) for (int j = 0; j < n; j++) { A[i][j] = hexd(w[p++]); if (A[i][j] != 0) nz++; }
        std::vector<double> rhs(n); for (int j = 0; j < n; j++) rhs[j] = hexd(w[p++]);
        SparseMatrix<>* sm = new SparseMatrix<>(nz + 1, m, n);
        for (int i = 0; i < m; i++) { sm->new_row(); for (int j = 0; j < n; j++) if (A[i][j] != 0) sm->add_element(A[i][j], j + 1); }
        SparseMatrix<>* t = sm->transpose(); dense(t, "T");
        SparseMatrix<>* r = sm->replicate(); dense(r, "R");
        SparseMatrixGraph<> graph(sm);
        std::cout << "G " << graph.nodes();
        for (int i = 1; i <= graph.nodes(); i++) { std::vector<int> adj(graph.nodes(), 0); for (auto b = graph.begin(i); b != graph.end(i); ++b) adj[*b - 1]++; for (int v : adj) std::cout << ' ' << v; }
        std::cout << "\nC " << (graph.connected() ? 1 : 0) << "\n";
        ReverseCuthillMcKee<> rcm(&graph);
        std::cout << "P"; for (int i = 1; i <= n; i++) std::cout << ' ' << rcm.perm(i); std::cout << "\n";
        std::cout << "I"; for (int i = 1; i <= n; i++) std::cout << ' ' << rcm.invp(i); std::cout << "\n";
        Envelope<double, int> env(sm, &graph, &rcm);
        Envelope<double, int> chol(env);
        chol.cholDec();
        std::cout << "D " << chol.defect() << "\nZ";
        for (int i = 1; i <= n; i++) if (chol.diagonal(i) == 0) std::cout << ' ' << i;
        std::cout << "\n";
        std::vector<double> x(n);
        for (int i = 1; i <= n; i++) x[rcm.invp(i) - 1] = rhs[i - 1];          // rhs in the permuted numbering
        chol.solve(x.data(), n);
        std::cout << "X"; for (double v : x) std::cout << ' ' << dhex(v); std::cout << "\n";
        std::cout << "V";
        if (chol.defect() == 0) {
          Envelope<double, int> inv; inv.inverse(chol);
          for (int i = 1; i <= n; i++) for (int j = 1; j <= i; j++) if (double* e = inv.element(i, j)) std::cout << ' ' << i << ' ' << j << ' ' << dhex(*e);
        }
        std::cout << "\n";
        delete t; delete r; delete sm;
      } else if (w[0] == "U") {
        int m = std::stoi(w[p++]), n = std::stoi(w[p++]);
        std::vector<std::vector<std::pair<int, double>>> rows(m);
        int nz = 0;
        for (int i = 0; i < m; i++) { int k = std::stoi(w[p++]); for (int j = 0; j < k; j++) { int c = std::stoi(w[p++]); double v = hexd(w[p++]); rows[i].push_back({c, v}); nz++; } }
        SparseMatrix<>* sm = new SparseMatrix<>(nz + 1, m, n);
        for (int i = 0; i < m; i++) { sm->new_row(); for (auto& e : rows[i]) sm->add_element(e.second, e.first); }
        SparseMatrix<>* t = sm->transpose(); raw(t, "RT");
        SparseMatrix<>* tt = t->transpose(); raw(tt, "RTT");
        {  // the normal matrix built by Envelope::set from this storage, original numbering, lower triangle (0 outside the profile)
          SparseMatrixGraph<> graph(sm);
          ReverseCuthillMcKee<> rcm(&graph);
          Envelope<double, int> env(sm, &graph, &rcm);
          std::cout << "EN " << n;
          for (int i = 1; i <= n; i++) for (int j = 1; j <= i; j++) { const double* q = env.element(rcm.invp(i), rcm.invp(j)); std::cout << ' ' << dhex(q ? *q : 0.0); }
          std::cout << "\n";
        }
        delete tt; delete t; delete sm;
      } else if (w[0] == "B") {
        int nb = std::stoi(w[p++]);
        std::vector<int> dims, bands; std::vector<std::vector<double>> vals;
        int fl = 0;
        for (int b = 0; b < nb; b++) { int d = std::stoi(w[p++]), bw = std::stoi(w[p++]); int N = d * (bw + 1) - bw * (bw + 1) / 2; std::vector<double> v(N); for (auto& x : v) x = hexd(w[p++]); dims.push_back(d); bands.push_back(bw); vals.push_back(v); fl += N; }
        BlockDiagonal<> bd(nb + 1, fl + 1);
        for (int b = 0; b < nb; b++) bd.add_block(dims[b], bands[b], vals[b].data());
        {  // the block-diagonal matrix as an envelope: lower triangle row by row (0 outside the profile)
          Envelope<double, int> ev(bd);
          std::cout << "EV " << ev.dim();
          for (int i = 1; i <= (int)ev.dim(); i++) for (int j = 1; j <= i; j++) { const double* q = ev.element(i, j); std::cout << ' ' << dhex(q ? *q : 0.0); }
          std::cout << "\n";
        }
        int k = bd.cholDec();
        if (k) std::cout << "notpd " << k << "\n";
        else { std::cout << "F"; for (int b = 1; b <= nb; b++) for (const double* q = bd.begin(b); q != bd.end(b); ++q) std::cout << ' ' << dhex(*q); std::cout << "\n"; }
      }
    } catch (const Exception::matvec& e) { std::cout << "EXC " << e.error() << "\n";
    } catch (...) { std::cout << "EXC other\n"; }
    std::cout << "END\n";
  }
  return 0;
}
