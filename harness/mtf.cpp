// K-correspondence harness for GNU_gama::MoveToFront<3,int,int> (lib/gnu_gama/movetofront.h).
// stdin: one key sequence per line ("-" = empty); stdout: for each get: "<buffer> <hit>" pairs on one line
#include "hcommon.h"
#include <gnu_gama/movetofront.h>
int main() {
  std::string line;
  while (std::getline(std::cin, line)) {
    GNU_gama::MoveToFront<3, int, int> m;   // buffers 0,1,2
    if (line != "-") {
      for (auto& w : split_ws(line)) {
        std::pair<int, bool> p = m.get(std::stoi(w));
        std::cout << p.first << ' ' << (p.second ? 1 : 0) << ' ';
      }
    }
    std::cout << "\n";
  }
  return 0;
}
