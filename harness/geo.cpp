// K/oracle harness for geodetic primitives (C18): ellipsoid conversions, angle formats, bearings.
//   ell <id> b l h       -> x y z b' l' h'   (blh2xyz then xyz2blh), id = enum value 1..N, "ellcount" -> N
//   g2d gon sign prec     -> hex of the string;  d2g <hex> -> ok gon | no
//   dms2rad v | rad2dms v ;  bd ya xa yb xb -> b d
#include "hcommon.h"
#include <gnu_gama/ellipsoid.h>
#include <gnu_gama/ellipsoids.h>
#include <gnu_gama/gon2deg.h>
#include <gnu_gama/local/bearing.h>
int main() {
  std::string line;
  while (std::getline(std::cin, line)) {
    auto w = split_ws(line);
    if (w.empty()) continue;
    if (w[0] == "ellcount") { std::cout << int(GNU_gama::ellipsoid_wgs84) << "\n"; }
    else if (w[0] == "ell") {
      GNU_gama::Ellipsoid e; GNU_gama::set(&e, GNU_gama::gama_ellipsoid(std::stoi(w[1])));
      double x, y, z, b, l, h;
      e.blh2xyz(hexd(w[2]), hexd(w[3]), hexd(w[4]), x, y, z);
      e.xyz2blh(x, y, z, b, l, h);
      std::cout << dhex(x) << ' ' << dhex(y) << ' ' << dhex(z) << ' ' << dhex(b) << ' ' << dhex(l) << ' ' << dhex(h) << ' ' << dhex(e.a()) << ' ' << dhex(e.b()) << "\n";
    }
    else if (w[0] == "g2d") std::cout << bytes2hex(GNU_gama::gon2deg(hexd(w[1]), std::stoi(w[2]), std::stoi(w[3]))) << "\n";
    else if (w[0] == "d2g") { double g = 0; bool ok = GNU_gama::deg2gon(hex2bytes(w[1]), g); if (ok) std::cout << "ok " << dhex(g) << "\n"; else std::cout << "no\n"; }
    else if (w[0] == "dms2rad") std::cout << dhex(GNU_gama::dms2rad(hexd(w[1]))) << "\n";
    else if (w[0] == "rad2dms") std::cout << dhex(GNU_gama::rad2dms(hexd(w[1]))) << "\n";
    else if (w[0] == "bd") { double b, d; GNU_gama::local::bearing_distance(hexd(w[1]), hexd(w[2]), hexd(w[3]), hexd(w[4]), b, d); std::cout << dhex(b) << ' ' << dhex(d) << "\n"; }
    else std::cout << "?\n";
  }
  return 0;
}
