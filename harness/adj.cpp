// Correspondence harness for the adjustment solvers (C01, C02, C03, C04, C08, C20).
// Reads a command script on stdin (no RNG here), prints one result line per command.
//
//   P m n nblocks            problem header, then
//   A <n doubles>            (m lines, dense row; zeros are not stored in the sparse matrix)
//   b <m doubles>
//   C dim band <values>      (nblocks lines; upper band by rows = CovMat / BlockDiagonal storage)
//   M k i1 .. ik             regularisation subset (1-based); k = -1: none given
//   END
//   new adj  <alg>           object of class Adj (entry point of gama-g3) on a copy of the problem
//   new base <alg>           solver object (AdjBase) used directly; full solvers get the homogenised
//                            system computed with Adj::choldec / Adj::forwardSubstitution exactly as Adj does
//   x | r | ssq | defect | qxx i j | qbb i j | qbx i j | q0xx i j | lindep i | cond
//   minx k i1..ik | minxall | reset | setalg <alg> | free
// results:  "ok v1 v2 ..." (doubles as %a, ints as decimal)  or  "exc <kind> <text>"
#define private public
#define protected public
#include <gnu_gama/adj/adj.h>
#include <gnu_gama/adj/adj_envelope.h>
#include <gnu_gama/adj/adj_chol.h>
#include <gnu_gama/adj/adj_gso.h>
#include <gnu_gama/adj/adj_svd.h>
#undef private
#undef protected
#include "hcommon.h"
#include <memory>

using namespace GNU_gama;
typedef AdjBase<double, int, Exception::matvec> Base;
typedef AdjBaseFull<double, int, Exception::matvec> BaseFull;
typedef AdjBaseSparse<double, int, Exception::matvec, AdjInputData> BaseSparse;

struct Problem {
  int m = 0, n = 0;
  std::vector<std::vector<double>> A;
  std::vector<double> b;
  struct Blk { int dim, band; std::vector<double> v; };
  std::vector<Blk> cov;
  int mk = -1; std::vector<int> minx;
};

static AdjInputData* make_input(const Problem& p) {
  AdjInputData* d = new AdjInputData;
  int nz = 0;
  for (auto& r : p.A) for (double v : r) if (v != 0) nz++;
  SparseMatrix<>* sm = new SparseMatrix<>(nz + 1, p.m, p.n);
  for (int i = 0; i < p.m; i++) {
    sm->new_row();
    for (int j = 0; j < p.n; j++) if (p.A[i][j] != 0) sm->add_element(p.A[i][j], j + 1);
  }
  d->set_mat(sm);
  int fl = 0;
  for (auto& c : p.cov) fl += c.v.size();
  BlockDiagonal<>* bd = new BlockDiagonal<>(p.cov.size() + 1, fl + 1);
  for (auto& c : p.cov) bd->add_block(c.dim, c.band, c.v.data());
  d->set_cov(bd);
  Vec<> rhs(p.m);
  for (int i = 0; i < p.m; i++) rhs(i + 1) = p.b[i];
  d->set_rhs(rhs);
  if (p.mk >= 0) {
    IntegerList<>* l = new IntegerList<>(p.mk);
    for (int i = 0; i < p.mk; i++) (*l)(i) = p.minx[i];
    d->set_minx(l);
  }
  return d;
}

static Adj::algorithm alg_of(const std::string& s) {
  if (s == "envelope") return Adj::envelope;
  if (s == "gso") return Adj::gso;
  if (s == "svd") return Adj::svd;
  if (s == "cholesky") return Adj::cholesky;
  std::fprintf(stderr, "bad alg %s\n", s.c_str()); std::exit(2);
}

struct Obj {
  // exactly one of adj / base is used
  std::unique_ptr<Adj> adj;
  std::unique_ptr<Base> base;
  std::unique_ptr<AdjInputData> data;   // for base/envelope
  Mat<> Ah; Vec<> bh;                   // homogenised system for full solvers
  std::vector<int> minx;
  std::unique_ptr<SVD<double, int, Exception::matvec>> raw;   // class SVD used directly (lib/matvec/svd.h) on the homogenised system
};

static void homogenise(const Problem& p, Mat<>& A_dot, Vec<>& b_dot) {
  A_dot.reset(p.m, p.n); b_dot.reset(p.m);
  for (int i = 0; i < p.m; i++) { for (int j = 0; j < p.n; j++) A_dot(i + 1, j + 1) = p.A[i][j]; }
  int r = 0;
  for (auto& c : p.cov) {
    CovMat<> C(c.dim, c.band);
    CovMat<>::iterator it = C.begin();
    for (double v : c.v) *it++ = v;
    Adj::choldec(C);
    Vec<> t(c.dim);
    for (int i = 1; i <= c.dim; i++) t(i) = p.b[r + i - 1];
    Adj::forwardSubstitution(C, t);
    for (int i = 1; i <= c.dim; i++) b_dot(r + i) = t(i);
    for (int j = 1; j <= p.n; j++) {
      for (int i = 1; i <= c.dim; i++) t(i) = A_dot(r + i, j);
      Adj::forwardSubstitution(C, t);
      for (int i = 1; i <= c.dim; i++) A_dot(r + i, j) = t(i);
    }
    r += c.dim;
  }
}

static Base* new_base(const std::string& alg) {
  if (alg == "envelope") return new AdjEnvelope<double, int, Exception::matvec>;
  if (alg == "gso") return new AdjGSO<double, int, Exception::matvec>;
  if (alg == "svd") return new AdjSVD<double, int, Exception::matvec>;
  if (alg == "cholesky") return new AdjCholDec<double, int, Exception::matvec>;
  std::fprintf(stderr, "bad alg %s\n", alg.c_str()); std::exit(2);
}

static void base_reset(Obj& o, const Problem& p) {
  if (BaseSparse* s = dynamic_cast<BaseSparse*>(o.base.get())) {
    o.data.reset(make_input(p));
    s->reset(o.data.get());
  } else if (BaseFull* f = dynamic_cast<BaseFull*>(o.base.get())) {
    homogenise(p, o.Ah, o.bh);
    f->reset(o.Ah, o.bh);
  }
}

int main() {
  std::string line;
  Problem P;
  Obj o;
  while (std::getline(std::cin, line)) {
    auto w = split_ws(line);
    if (w.empty()) continue;
    const std::string& c = w[0];
    try {
      if (c == "P") {
        P = Problem(); P.m = std::stoi(w[1]); P.n = std::stoi(w[2]); int nb = std::stoi(w[3]);
        for (int i = 0; i < P.m; i++) {
          std::getline(std::cin, line); auto a = split_ws(line);
          std::vector<double> r; for (int j = 1; j <= P.n; j++) r.push_back(hexd(a[j]));
          P.A.push_back(r);
        }
        std::getline(std::cin, line); { auto a = split_ws(line); for (int i = 1; i <= P.m; i++) P.b.push_back(hexd(a[i])); }
        for (int k = 0; k < nb; k++) {
          std::getline(std::cin, line); auto a = split_ws(line);
          Problem::Blk B; B.dim = std::stoi(a[1]); B.band = std::stoi(a[2]);
          for (size_t i = 3; i < a.size(); i++) B.v.push_back(hexd(a[i]));
          P.cov.push_back(B);
        }
        std::getline(std::cin, line); { auto a = split_ws(line); P.mk = std::stoi(a[1]); for (int i = 0; i < P.mk; i++) P.minx.push_back(std::stoi(a[2 + i])); }
        std::getline(std::cin, line);  // END
        std::cout << "ok problem\n";
      } else if (c == "new") {
        o = Obj();
        if (w[1] == "rawsvd") {
          homogenise(P, o.Ah, o.bh);
          o.raw.reset(new SVD<double, int, Exception::matvec>(o.Ah));
          std::cout << "ok new\n";
          continue;
        }
        if (w[1] == "adj") {
          o.adj.reset(new Adj);
          o.adj->set(make_input(P));        // Adj takes ownership
          o.adj->set_algorithm(alg_of(w[2]));
        } else {
          o.base.reset(new_base(w[2]));
          if (P.mk >= 0) { o.minx = P.minx; o.base->min_x(P.mk, o.minx.data()); }
          base_reset(o, P);
        }
        std::cout << "ok new\n";
      } else if (o.raw && (c == "x" || c == "qxx" || c == "minx" || c == "minxall" || c == "defect")) {
        if (c == "x") {
          Vec<> x; o.raw->solve(o.bh, x);
          std::cout << "ok"; for (int i = 1; i <= x.dim(); i++) std::cout << ' ' << dhex(x(i)); std::cout << "\n";
        } else if (c == "qxx") {
          std::cout << "ok " << dhex(o.raw->q_xx(std::stoi(w[1]), std::stoi(w[2]))) << "\n";
        } else if (c == "defect") {
          std::cout << "ok " << o.raw->nullity() << "\n";
        } else if (c == "minx") {
          int k = std::stoi(w[1]); o.minx.clear();
          for (int i = 0; i < k; i++) o.minx.push_back(std::stoi(w[2 + i]));
          o.raw->min_x(k, o.minx.data()); std::cout << "ok minx\n";
        } else { o.raw->min_x(); std::cout << "ok minxall\n"; }
      } else if (c == "free") {
        o = Obj(); std::cout << "ok free\n";
      } else if (c == "x" || c == "r") {
        const Vec<>& v = o.adj ? (c == "x" ? o.adj->x() : o.adj->r()) : (c == "x" ? o.base->unknowns() : o.base->residuals());
        std::cout << "ok";
        for (int i = 1; i <= v.dim(); i++) std::cout << ' ' << dhex(v(i));
        std::cout << "\n";
      } else if (c == "ssq") {
        double s = o.adj ? (o.adj->x(), o.adj->rtr()) : o.base->sum_of_squares();
        std::cout << "ok " << dhex(s) << "\n";
      } else if (c == "defect") {
        int d = o.adj ? (o.adj->x(), o.adj->defect()) : o.base->defect();
        std::cout << "ok " << d << "\n";
      } else if (c == "qxx" || c == "qbb" || c == "qbx" || c == "q0xx") {
        int i = std::stoi(w[1]), j = std::stoi(w[2]);
        double v;
        if (o.adj) {
          o.adj->x();
          v = c == "qxx" ? o.adj->q_xx(i, j) : c == "qbb" ? o.adj->q_bb(i, j) : c == "q0xx" ? o.adj->least_squares->q0_xx(i, j) : o.adj->least_squares->q_bx(i, j);
        } else
          v = c == "qxx" ? o.base->q_xx(i, j) : c == "qbb" ? o.base->q_bb(i, j) : c == "q0xx" ? o.base->q0_xx(i, j) : o.base->q_bx(i, j);
        std::cout << "ok " << dhex(v) << "\n";
      } else if (c == "lindep") {
        int i = std::stoi(w[1]);
        bool v = o.adj ? (o.adj->x(), o.adj->least_squares->lindep(i)) : o.base->lindep(i);
        std::cout << "ok " << (v ? 1 : 0) << "\n";
      } else if (c == "cond") {
        double v = o.adj ? (o.adj->x(), o.adj->least_squares->cond()) : o.base->cond();
        std::cout << "ok " << dhex(v) << "\n";
      } else if (c == "envdiag") {
        // diagnostic (search for failing inputs): pivots of the envelope L D L' decomposition
        typedef AdjEnvelope<double, int, Exception::matvec> AE;
        AE* e = o.adj ? (o.adj->x(), dynamic_cast<AE*>(o.adj->least_squares)) : dynamic_cast<AE*>(o.base.get());
        if (!e) { std::cout << "exc harness not-envelope\n"; }
        else {
          e->defect();
          std::cout << "ok";
          for (int i = 1; i <= e->envelope.dim(); i++) std::cout << ' ' << dhex(e->envelope.diagonal(i));
          std::cout << "\n";
        }
      } else if (c == "minx") {
        int k = std::stoi(w[1]); o.minx.clear();
        for (int i = 0; i < k; i++) o.minx.push_back(std::stoi(w[2 + i]));
        o.base->min_x(k, o.minx.data());
        std::cout << "ok minx\n";
      } else if (c == "minxall") {
        o.base->min_x(); std::cout << "ok minxall\n";
      } else if (c == "reset") {
        if (o.adj) o.adj->set(make_input(P)); else base_reset(o, P);
        std::cout << "ok reset\n";
      } else if (c == "setalg") {
        o.adj->set_algorithm(alg_of(w[1])); std::cout << "ok setalg\n";
      } else {
        std::cout << "exc harness unknown-command\n";
      }
    } catch (const Exception::matvec& e) {
      std::cout << "exc matvec " << e.error() << " " << e.what() << "\n";
    } catch (const Exception::adjustment& e) {
      std::cout << "exc adjustment " << e.str << "\n";
    } catch (const std::exception& e) {
      std::cout << "exc std " << e.what() << "\n";
    } catch (...) {
      std::cout << "exc unknown\n";
    }
    std::cout.flush();
  }
  return 0;
}
