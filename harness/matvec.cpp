// K/C harness for lib/matvec (C15).  One command per line, integer or double data as %a tokens.
//   mm r1 c1 <A..> r2 c2 <B..>      A*B            tm: trans(A)*B   mt: A*trans(B)   tt: trans(A)*trans(B)
//   add / sub  (same encoding)       A+B, A-B       mv r c <A..> n <v..>: A*v    tmv: trans(A)*v   vm n <v..> r c <A..>: trans(v)*A  (Mat)
//   vmb n <v..> r c <A..>            trans(v)*trans(M) with M = A (r x c): the MatBase overload
//   inv n <A..>                      inverse of a square matrix (Mat::invert)
//   sym n <upper by rows..> <rhs..>  SymMat cholDec + solve        symidx n : packed positions of (i,j), i<=j  via operator()
//   cov n band <band..> <rhs..>      CovMat cholDec + solve ;  covidx n band
//   svd r c <A..>                    U W V (reconstruction is checked by the driver) ; pinv r c <A..>
//   copy r1 c1 r2 c2                 copy-assign / independence experiment, prints "ok" or a description
// output: "ok r c v..." | "exc <code>" | "exc other"
#include "hcommon.h"
#include <matvec/matvec.h>
#include <matvec/symmat.h>
#include <matvec/covmat.h>
#include <matvec/svd.h>
#include <matvec/pinv.h>
using namespace GNU_gama;
typedef Mat<double, int, Exception::matvec> M;
typedef Vec<double, int, Exception::matvec> V;

static size_t pos;
static std::vector<std::string> w;
static int I() { return std::stoi(w[pos++]); }
static double D() { return hexd(w[pos++]); }
static M readM() { int r = I(), c = I(); M A(r, c); for (int i = 1; i <= r; i++) for (int j = 1; j <= c; j++) A(i, j) = D(); return A; }
static V readV() { int n = I(); V v(n); for (int i = 1; i <= n; i++) v(i) = D(); return v; }
static void outM(const M& A) { std::cout << "ok " << A.rows() << ' ' << A.cols(); for (int i = 1; i <= A.rows(); i++) for (int j = 1; j <= A.cols(); j++) std::cout << ' ' << dhex(A(i, j)); std::cout << "\n"; }
static void outV(const V& v) { std::cout << "ok " << v.dim() << " 1"; for (int i = 1; i <= v.dim(); i++) std::cout << ' ' << dhex(v(i)); std::cout << "\n"; }

int main() {
  std::string line;
  while (std::getline(std::cin, line)) {
    w = split_ws(line); pos = 1;
    if (w.empty()) continue;
    const std::string c = w[0];
    try {
      if (c == "mm" || c == "tm" || c == "mt" || c == "tt" || c == "add" || c == "sub") {
        M A = readM(), B = readM(); M R;
        if (c == "mm") R = A * B; else if (c == "tm") R = trans(A) * B; else if (c == "mt") R = A * trans(B);
        else if (c == "tt") R = trans(A) * trans(B); else if (c == "add") R = A + B; else R = A - B;
        outM(R);
      } else if (c == "tadd" || c == "tsub" || c == "tsc") {
        // member operators of TransMat: trans(A) + trans(B), trans(A) - trans(B), trans(A) * 2
        M A = readM(), B = readM(); M R;
        if (c == "tadd") R = trans(A) + trans(B); else if (c == "tsub") R = trans(A) - trans(B); else R = trans(A) * 2.0;
        outM(R);
      } else if (c == "symmul") {
        // product of two symmetric matrices given in full: a general matrix
        M A = readM(), B = readM(); const int n = A.rows();
        SymMat<double, int, Exception::matvec> SA(n), SB(B.rows());
        for (int i = 1; i <= n; i++) for (int j = 1; j <= i; j++) SA(i, j) = A(i, j);
        for (int i = 1; i <= B.rows(); i++) for (int j = 1; j <= i; j++) SB(i, j) = B(i, j);
        M R = SA * SB;
        outM(R);
      } else if (c == "mv" || c == "tmv") {
        M A = readM(); V v = readV(); V r = (c == "mv") ? V(A * v) : V(trans(A) * v); outV(r);
      } else if (c == "vm" || c == "vmb") {
        V v = readV(); M A = readM();
        if (c == "vm") { V r = trans(trans(v) * A); outV(r); }
        else { TransMat<double, int, Exception::matvec> T = trans(A); const MatBase<double, int, Exception::matvec>& B = T; V r = trans(trans(v) * B); outV(r); }
      } else if (c == "trans") { M A = readM(); M R = trans(A); outM(R);
      } else if (c == "inv") { M A = readM(); A.invert(); outM(A);
      } else if (c == "sym") {
        int n = I(); SymMat<double, int, Exception::matvec> S(n);
        for (int i = 1; i <= n; i++) for (int j = i; j <= n; j++) S(i, j) = D();
        V r(n); for (int i = 1; i <= n; i++) r(i) = D();
        S.cholDec(); S.solve(r); outV(r);
      } else if (c == "symidx") {
        int n = I(); SymMat<double, int, Exception::matvec> S(n);
        std::cout << "ok " << n << ' ' << n;
        for (int i = 1; i <= n; i++) for (int j = 1; j <= n; j++) std::cout << ' ' << (&S(i, j) - S.begin());
        std::cout << "\n";
      } else if (c == "cov") {
        int n = I(), b = I(); CovMat<double, int, Exception::matvec> C(n, b);
        for (int i = 1; i <= n; i++) for (int j = i; j <= n && j <= i + b; j++) C(i, j) = D();
        V r(n); for (int i = 1; i <= n; i++) r(i) = D();
        C.cholDec(); C.solve(r); outV(r);
      } else if (c == "covldl") {
        // the packed storage after CovMat::cholDec: row r holds D_r followed by L(r+1..r+k, r)
        int n = I(), b = I(); CovMat<double, int, Exception::matvec> C(n, b);
        for (int i = 1; i <= n; i++) for (int j = i; j <= n && j <= i + b; j++) C(i, j) = D();
        C.cholDec();
        std::cout << "ok " << n << ' ' << b;
        for (const double* p = C.begin(); p != C.end(); ++p) std::cout << ' ' << dhex(*p);
        std::cout << "\n";
      } else if (c == "covidx") {
        int n = I(), b = I(); CovMat<double, int, Exception::matvec> C(n, b);
        std::cout << "ok " << n << ' ' << b;
        for (int i = 1; i <= n; i++) for (int j = i; j <= n && j <= i + b; j++) std::cout << ' ' << (&C(i, j) - C.begin());
        std::cout << "\n";
      } else if (c == "svd") {
        M A = readM(); SVD<double, int, Exception::matvec> s(A); s.decompose();
        const M& U = s.SVD_U(); const V& W = s.SVD_W(); const M& Vm = s.SVD_V();
        std::cout << "ok " << U.rows() << ' ' << U.cols();
        for (int i = 1; i <= U.rows(); i++) for (int j = 1; j <= U.cols(); j++) std::cout << ' ' << dhex(U(i, j));
        for (int i = 1; i <= W.dim(); i++) std::cout << ' ' << dhex(W(i));
        for (int i = 1; i <= Vm.rows(); i++) for (int j = 1; j <= Vm.cols(); j++) std::cout << ' ' << dhex(Vm(i, j));
        std::cout << "\n";
      } else if (c == "pinv") { M A = readM(); M Pm = pinv(A); outM(Pm);
      } else if (c == "copy") {
        int r1 = I(), c1 = I(), r2 = I(), c2 = I();
        M A(r1, c1), B(r2, c2); A.set_all(1); B.set_all(2);
        std::string res = "ok";
        M C(A);                                   // copy construction
        if (r1 * c1) { C(1, 1) = 7; if (A(1, 1) != 1) res = "copy-constructed object shares storage with its source"; }
        B = A;                                    // copy assignment between different sizes
        if (B.rows() != r1 || B.cols() != c1) res = "copy assignment did not take over the dimensions";
        if (r1 * c1) { B(r1, c1) = 9; if (A(r1, c1) != 1) res = "copy-assigned object shares storage with its source"; }
        A.reset(r2, c2);                          // resize the source
        if (A.rows() != r2 || A.cols() != c2) res = "reset(r,c) did not set the dimensions";
        A.set_all(3);
        if (r1 * c1 && (B(1, 1) != 1 && !(r1 == 1 && c1 == 1))) res = "resetting the source changed the copy";
        M Dm(std::move(A));                       // move
        if (Dm.rows() != r2 || Dm.cols() != c2) res = "move construction lost the dimensions";
        if (r2 * c2 && Dm(r2, c2) != 3) res = "move construction lost the values";
        std::cout << res << "\n";
      } else std::cout << "exc unknown-command\n";
    } catch (const Exception::matvec& e) { std::cout << "exc " << e.error() << "\n";
    } catch (...) { std::cout << "exc other\n"; }
  }
  return 0;
}
