// Read-back harness (C12): parses an adjustment XML with gama's own LocalNetworkAdjustmentResults::read_xml and dumps
// what the reader stored, one record per line (strings as hex, doubles as %a):
//   GEN <description> <axes> <angles> <algorithm>
//   SUM equations unknowns dof defect ssq connected iterations
//   STD apriori aposteriori using_aposteriori probability ratio lower upper confidence_scale
//   PT <list> <id> hxy hz x y z cxy cz indx indy indz         list in {fixed, approximate, adjusted}
//   ORI <id> approx adj index
//   ELL <id> major minor alpha
//   COV dim band n v1 .. vn      (upper band by rows)
//   IND n i1 .. in
//   OBS <tag> <from> <to> <left> <right> obs adj stdev qrr f std_residual <err_obs> <err_adj>
//   exc <line> <text>
#include <fstream>
#include <iostream>
#include <string>
#include <gnu_gama/xml/localnetwork_adjustment_results.h>
#include <gnu_gama/exception.h>
#include "hcommon.h"

using namespace GNU_gama;

static void pts(const char* name, const LocalNetworkAdjustmentResults::PointList& l) {
  for (const auto& p : l)
    std::cout << "PT " << name << ' ' << bytes2hex(p.id) << ' ' << p.hxy << ' ' << p.hz << ' ' << dhex(p.x) << ' ' << dhex(p.y) << ' ' << dhex(p.z)
              << ' ' << p.cxy << ' ' << p.cz << ' ' << p.indx << ' ' << p.indy << ' ' << p.indz << "\n";
}

int main(int argc, char** argv) {
  if (argc < 2) return 2;
  LocalNetworkAdjustmentResults r;
  try {
    std::ifstream in(argv[1]);
    r.read_xml(in);
  } catch (const Exception::parser& e) {
    std::cout << "exc " << e.line << ' ' << bytes2hex(e.str) << "\n";
    return 0;
  } catch (...) {
    std::cout << "exc 0 -\n";
    return 0;
  }
  std::cout << "GEN " << bytes2hex(r.description) << ' ' << bytes2hex(r.network_general_parameters.axes_xy) << ' '
            << bytes2hex(r.network_general_parameters.angles) << ' ' << bytes2hex(r.network_general_parameters.gama_local_algorithm) << "\n";
  std::cout << "SUM " << r.project_equations.equations << ' ' << r.project_equations.unknowns << ' ' << r.project_equations.degrees_of_freedom << ' '
            << r.project_equations.defect << ' ' << dhex(r.project_equations.sum_of_squares) << ' ' << r.project_equations.connected_network << ' '
            << r.project_equations.linearization_iterations << "\n";
  std::cout << "STD " << dhex(r.standard_deviation.apriori) << ' ' << dhex(r.standard_deviation.aposteriori) << ' ' << r.standard_deviation.using_aposteriori << ' '
            << dhex(r.standard_deviation.probability) << ' ' << dhex(r.standard_deviation.ratio) << ' ' << dhex(r.standard_deviation.lower) << ' '
            << dhex(r.standard_deviation.upper) << ' ' << dhex(r.standard_deviation.confidence_scale) << "\n";
  pts("fixed", r.fixed_points);
  pts("approximate", r.approximate_points);
  pts("adjusted", r.adjusted_points);
  for (const auto& o : r.orientations)
    std::cout << "ORI " << bytes2hex(o.id) << ' ' << dhex(o.approx) << ' ' << dhex(o.adj) << ' ' << o.index << "\n";
  for (const auto& e : r.ellipses)
    std::cout << "ELL " << bytes2hex(e.id) << ' ' << dhex(e.major) << ' ' << dhex(e.minor) << ' ' << dhex(e.alpha) << "\n";
  {
    const int dim = r.cov.dim(), band = r.cov.bandWidth();
    std::cout << "COV " << dim << ' ' << band;
    int n = 0;
    for (int i = 1; i <= dim; i++) for (int j = i; j <= std::min(dim, i + band); j++) n++;
    std::cout << ' ' << n;
    for (int i = 1; i <= dim; i++) for (int j = i; j <= std::min(dim, i + band); j++) std::cout << ' ' << dhex(r.cov(i, j));
    std::cout << "\n";
  }
  std::cout << "IND " << r.original_index.size();
  for (int i : r.original_index) std::cout << ' ' << i;
  std::cout << "\n";
  for (const auto& o : r.obslist)
    std::cout << "OBS " << bytes2hex(o.xml_tag) << ' ' << bytes2hex(o.from) << ' ' << bytes2hex(o.to) << ' ' << bytes2hex(o.left) << ' ' << bytes2hex(o.right) << ' '
              << dhex(o.obs) << ' ' << dhex(o.adj) << ' ' << dhex(o.stdev) << ' ' << dhex(o.qrr) << ' ' << dhex(o.f) << ' ' << dhex(o.std_residual) << ' '
              << bytes2hex(o.err_obs) << ' ' << bytes2hex(o.err_adj) << ' ' << dhex(o.residual()) << "\n";
  return 0;
}
