"""C02 -- the four algorithms give the same adjustment.

proof:  coq/Properties_C02.v: residuals / sum of squares of any two minimisers coincide; the minimum-norm
        minimiser is unique when the selection resolves the defect (so all algorithms must agree)
K:      solver level, pairwise over the 4 algorithms x 2 entry points, incl. cofactors and non-resolving
        subsets (every algorithm must raise BadRegularization), judged against coq/QLsq.v inside coqc
E:      gama-local --algorithm X on generated networks (checks/enet.py): same participating points and
        observations, same results; an input refused by one algorithm is refused by all
"""
import vlib
from checks import solver, enet


def oracle(p, r, allres, qp, code):
    """pairwise property oracle on the implementation only: does this algorithm differ from the others?"""
    outs = [solver.outcome(q) for q in allres]
    if len(set(o.split(":")[0] for o in outs)) > 1:
        return "algorithms disagree on whether the input can be adjusted: " + ", ".join("%s/%s=%s" % (q["entry"], q["alg"], o) for q, o in zip(allres, outs))
    if "raw" not in r or r["raw"]["x"][0] != "ok":
        return None
    tol = 1e-7
    for key in ["x", "ssq", "defect"] + [c for c in r["cmds"] if c.startswith("q")]:
        vals = []
        for q in allres:
            if key.startswith("qbb") and q["entry"] != r["entry"]:
                continue     # AdjBase::q_bb refers to the homogenised system, Adj::q_bb to the original one
            if "raw" in q and q["raw"][key][0] == "ok":
                t = q["raw"][key][1]
                vals.append([float(int(t[0]))] if key == "defect" else [solver.fl(v) for v in t])
        for a in vals:
            for b in vals:
                sc = max([1.0] + [abs(v) for v in a])
                if len(a) != len(b) or any(abs(u - v) > tol * sc for u, v in zip(a, b)):
                    return "algorithms return different %s for the same input" % key
    return None


def run(ctx):
    ctx.check_proofs(extra_files=["QLsqRun"])
    n = 80 if ctx.quick else 800
    solver.solver_level(ctx, "c02", n, ["none", "all", "resolving", "nonresolving", "nonresolving"], oracle, want_q="all",
                        defect_choices=[0, 1, 1, 2], maxm=9 if ctx.quick else 12, maxn=5 if ctx.quick else 7)
    enet.algorithms_agree(ctx, 16 if ctx.quick else 150)
    return ctx.finish(rule="K: random small-integer problems (defect 0..2; subsets none/all/resolving/non-resolving), 4 algorithms x {Adj, AdjBase}, "
                           "x, r, ssq, defect, all q_xx pairs, q_bb diagonal + sample; E: generated 1D/2D/3D networks (fixed and free datum, correlated clusters) "
                           "through gama-local with each algorithm; non-trivial = defect>0, correlated block or free network; distinct by content")
