"""C09 -- reported statistics are consistent with the adjustment they describe.

proof:  coq/Properties_C09.v (weight scaling by sigma-apr; residual cofactors = complementary projector; error-ellipse semi-axes
        and bearing are the eigen-decomposition of the 2x2 block) + C17's quantile theorems for the confidence coefficient
E:      every numeric field of gama-local --xml is recomputed from the other fields, the input and <cov-mat>:
        dof, m0', used m0, confidence scale (Normal / Student), chi-square interval and verdict, ellipses from the covariance
        block, per observation stdev / qrr / std-residual from f, v, the input sigma and m0; redundancy sum = dof;
        metamorphic: sigma-apr -> k sigma-apr rescales v'Pv by k^2 and nothing else (both sigma-act settings)
"""
import copy, math
import vlib
from checks import enet, c17
from tools import gama, netgen


def obs_sigma_map(net):
    """(tag, from, to/extra) -> input standard deviation, for uncorrelated clusters"""
    m = {}
    tagof = {"direction": "direction", "distance": "distance", "angle": "angle", "s-distance": "slope-distance", "z-angle": "zenith-angle",
             "dh": "height-diff", "azimuth": "azimuth"}
    for c in net["clusters"]:
        if c.get("cov"):
            continue
        for ob in c["obs"]:
            if ob["t"] in tagof and "stdev" in ob:
                frm = ob.get("from", c.get("from"))
                key = (tagof[ob["t"]], frm, ob.get("to") or ob.get("bs"), ob.get("fs"))
                m.setdefault(key, []).append(ob["stdev"])
    return m


def check_result(res, net, conf_pr, sigma_act):
    dd = []
    m, n, d = res["equations"], res["unknowns"], res["defect"]
    if res["dof"] != m - n + d:
        dd.append("degrees of freedom %d != equations %d - unknowns %d + defect %d" % (res["dof"], m, n, d))
    dof = res["dof"]
    st = res["stdev"]
    apost = math.sqrt(res["ssq"] / dof) if dof > 0 else 0.0
    if abs(st["aposteriori"] - apost) > 2e-6 * max(1.0, apost):
        dd.append("a posteriori m0 %.8g != sqrt(v'Pv/dof) = %.8g" % (st["aposteriori"], apost))
    if st["used"] != sigma_act:
        dd.append("used reference deviation is %s, requested %s" % (st["used"], sigma_act))
    m0 = st["aposteriori"] if st["used"] == "aposteriori" else st["apriori"]
    alpha = (1 - conf_pr) / 2
    if st["used"] == "apriori" or dof == 0:
        ks = c17.true_quantile(c17.norm_sf, alpha, -40, 40) if st["used"] == "apriori" else None
    else:
        ks = c17.true_quantile(lambda t: c17.student_sf(t, dof), alpha, -1e7, 1e7)
    if ks is not None and abs(st["confidence_scale"] - ks) > 1e-3 * max(1.0, abs(ks)):
        dd.append("confidence scale %.7g, the %s quantile for alpha/2=%.4g%s is %.7g" % (
            st["confidence_scale"], "normal" if st["used"] == "apriori" else "Student", alpha, "" if st["used"] == "apriori" else " dof=%d" % dof, ks))
    if dof > 0:
        ratio = st["aposteriori"] / st["apriori"]
        if abs(st["ratio"] - ratio) > 6e-4:
            dd.append("ratio %.3f != m0'/m0 = %.4f" % (st["ratio"], ratio))
        lo = math.sqrt(c17.true_quantile(lambda t: c17.chi2_sf(t, dof), 1 - alpha, 0, 50 * dof + 1000) / dof)
        up = math.sqrt(c17.true_quantile(lambda t: c17.chi2_sf(t, dof), alpha, 0, 50 * dof + 1000) / dof)
        if abs(st["lower"] - lo) > 4e-3 * max(1, lo) + 6e-4 or abs(st["upper"] - up) > 4e-3 * max(1, up) + 6e-4:
            dd.append("chi-square interval (%.3f, %.3f), expected (%.4f, %.4f) for dof=%d conf-pr=%.3f" % (st["lower"], st["upper"], lo, up, dof, conf_pr))
        verdict = st["lower"] < ratio < st["upper"]
        if abs(ratio - st["lower"]) > 2e-3 and abs(ratio - st["upper"]) > 2e-3 and verdict != st["passed"]:
            dd.append("m0 test verdict passed=%s but ratio %.4f and interval (%.3f, %.3f)" % (st["passed"], ratio, st["lower"], st["upper"]))
    # covariance layout: coordinates of the adjusted points in listing order
    pos = {}
    k = 0
    for p in res["adjusted"]:
        for c in "xyz":
            if c in p:
                pos[(p["id"], c)] = k
                k += 1
    cov = res["cov"]
    if cov and cov["band"] >= 1:
        for e in res["ellipses"]:
            ix, iy = pos.get((e["id"], "x")), pos.get((e["id"], "y"))
            if ix is None or iy is None or abs(ix - iy) > cov["band"]:
                continue
            cxx, cyy, cxy = gama.cov_entry(res, ix, ix), gama.cov_entry(res, iy, iy), gama.cov_entry(res, ix, iy)
            c = math.sqrt((cxx - cyy) ** 2 + 4 * cxy * cxy)
            a = math.sqrt(max(0.0, (cxx + cyy + c) / 2))
            b = math.sqrt(max(0.0, (cxx + cyy - c) / 2))
            sc = max(a, 1e-9)
            if abs(e["major"] - a) > 2e-5 * sc + 1e-9 or abs(e["minor"] - b) > 2e-4 * sc + 1e-7:
                dd.append("ellipse of %s: axes %.6g/%.6g, eigenvalues of the covariance block give %.6g/%.6g" % (e["id"], e["major"], e["minor"], a, b))
            if c > 1e-3 * (cxx + cyy):     # bearing defined
                al = math.atan2(2 * cxy, cxx - cyy) / 2
                if al < 0:
                    al += math.pi
                da = abs((e["alpha"] - al + math.pi / 2) % math.pi - math.pi / 2)
                if da > 2e-4 + 1e-5 * (cxx + cyy) / c:
                    dd.append("ellipse of %s: bearing %.6f, eigenvector direction %.6f" % (e["id"], e["alpha"], al))
        # the standard deviation of an adjusted distance is f' C f with the covariance matrix and the coordinates of the SAME file
        # (also when the axes are declared inconsistent with the angles: coordinates and covariances must be in one frame)
        xyz = {p_["id"]: p_ for p_ in res["fixed"]}
        xyz.update({p_["id"]: p_ for p_ in res["adjusted"]})
        sig0 = obs_sigma_map(net)
        for o in res["observations"]:
            if o["tag"] != "distance" or not isinstance(o.get("stdev"), float):
                continue
            if (o["tag"], o.get("from"), o.get("to"), None) not in sig0:
                continue        # member of a correlated cluster (see the recorded finding on their standard deviations)
            a_, b_ = xyz.get(o.get("from")), xyz.get(o.get("to"))
            if not a_ or not b_ or any(c_ not in a_ or c_ not in b_ for c_ in "xy"):
                continue
            dx_, dy_ = b_["x"] - a_["x"], b_["y"] - a_["y"]
            d_ = math.hypot(dx_, dy_)
            if d_ < 1e-6:
                continue
            f_ = [(pos.get((o["from"], "x")), -dx_ / d_), (pos.get((o["from"], "y")), -dy_ / d_), (pos.get((o["to"], "x")), dx_ / d_), (pos.get((o["to"], "y")), dy_ / d_)]
            f_ = [(i_, v_) for i_, v_ in f_ if i_ is not None]
            if not f_ or any(abs(i_ - j_) > cov["band"] for i_, _ in f_ for j_, _ in f_):
                continue
            var = sum(vi * vj * gama.cov_entry(res, i_, j_) for i_, vi in f_ for j_, vj in f_)
            want = math.sqrt(max(var, 0.0))
            if abs(o["stdev"] - want) > 2e-3 * max(want, 1e-3) + 2e-4:
                dd.append("distance %s->%s: stdev of the adjusted observation %.5g, but coordinates and <cov-mat> of the same file give %.5g "
                          "(covariances and coordinates in different frames?)" % (o.get("from"), o.get("to"), o["stdev"], want))
        # standard deviations via covariance diagonal are positive
        for i in range(cov["dim"]):
            if gama.cov_entry(res, i, i) < -1e-12:
                dd.append("negative variance in cov-mat at %d" % i)
    # per observation
    sig = obs_sigma_map(net)
    hsum = 0.0
    nall = 0
    complete = True
    for o in res["observations"]:
        key = (o["tag"], o.get("from"), o.get("to") or o.get("left"), o.get("right"))
        s_in = sig.get(key)
        f = o.get("f")
        if not isinstance(f, float):
            complete = False
            continue
        h = (1 - f / 100.0) ** 2
        hsum += 1 - h
        nall += 1
        if not s_in or len(s_in) != 1 or not isinstance(o.get("stdev"), float):
            complete = complete and bool(s_in)
            continue
        s_in = s_in[0]
        ang = o["tag"] in ("direction", "angle", "zenith-angle", "azimuth")
        want_sd = (m0 / st["apriori"]) * (1 - f / 100.0) * s_in
        if abs(o["stdev"] - want_sd) > 2e-3 * max(want_sd, 1e-3) + 1e-3 * s_in * 0.01:
            dd.append("%s %s->%s: stdev of the adjusted observation %.6g, m0 * sqrt(q_L) = %.6g (f=%.3f, sigma=%.4g)" % (o["tag"], o.get("from"), o.get("to"), o["stdev"], want_sd, f, s_in))
        qrr = (1 - h) * (s_in / st["apriori"]) ** 2
        # qrr is printed with 8 significant digits, f with 3 decimals of a per cent: the comparison is made on the redundancy
        # number r = p qrr = 1 - h, which has no unit and no scale (an absolute allowance on qrr itself hid a clamp of small
        # weight coefficients to zero under large weights -- seed C09-c)
        if isinstance(o.get("qrr"), float):
            r_g = o["qrr"] / (s_in / st["apriori"]) ** 2
            if abs(r_g - (1 - h)) > 3e-5 + 2e-6 * r_g:
                dd.append("%s %s->%s: qrr %.8g i.e. redundancy p*qrr = %.6f, but 1 - (1 - f/100)^2 = %.6f (f=%.3f)" % (o["tag"], o.get("from"), o.get("to"), o["qrr"], r_g, 1 - h, f))
        if isinstance(o.get("std-residual"), float) and isinstance(o.get("qrr"), float) and qrr > 1e-3 and m0 > 0:
            v = o["adj"] - o["obs"]
            if ang:
                v = ((v + 200) % 400 - 200) * 1e4     # cc
            else:
                v *= 1e3                               # mm
            want = abs(v) / (m0 * math.sqrt(qrr))
            if abs(o["std-residual"] - want) > 4e-3 * max(1.0, want) + 2e-3 + abs(want) * 3e-3 / max(qrr, 1e-3) * 6e-4:
                dd.append("%s %s->%s: standardised residual %.3f, |v|/(m0 sqrt(qrr)) = %.4f" % (o["tag"], o.get("from"), o.get("to"), o["std-residual"], want))
    if nall == res["equations"] and not any(c.get("cov") and c["cov"]["band"] > 0 for c in net["clusters"]):
        if abs(hsum - dof) > 2.5e-5 * nall * 2 + 1e-3:
            dd.append("redundancy numbers sum to %.4f, degrees of freedom %d" % (hsum, dof))
    return dd


def run(ctx):
    ctx.check_proofs()
    bdir = enet.binaries(ctx)
    n = 14 if ctx.quick else 120
    bad = 0
    # witness of the recorded finding C09:rank-decision-depends-on-sigma-apr (run first, every time): the same file under
    # envelope and svd; reported (as the known finding) only while they disagree
    import os
    wf = os.path.join(vlib.VERIF, "corpus", "directed", "k_sigma_apr_small.gkf")
    if os.path.exists(wf):
        wtxt = open(wf).read()
        ow, _ = enet.run_all(ctx, bdir, wtxt, "c09_witness", algs=["envelope", "svd"])
        ctx.count(("c09-witness", wtxt), nontrivial=True)
        if enet.adjusted_ok(ow["envelope"]) and enet.adjusted_ok(ow["svd"]):
            ma, mb = gama.adjusted_map(ow["envelope"]["res"]), gama.adjusted_map(ow["svd"]["res"])
            dw = ["%s %s: %.7f (envelope) vs %.7f (svd)" % (p_, c_, ma.get(p_, {}).get(c_, float("nan")), mb[p_][c_])
                  for p_ in mb for c_ in "xyz" if c_ in mb[p_] and not abs(ma.get(p_, {}).get(c_, 1e99) - mb[p_][c_]) <= 3e-6]
            if dw or ow["envelope"]["res"]["dof"] != ow["svd"]["res"]["dof"]:
                ctx.violation({"kind": "E:sigma-apr", "gkf": wtxt, "differences": dw[:6], "dof": [ow["envelope"]["res"]["dof"], ow["svd"]["res"]["dof"]]},
                              "sigma-apr = 0.001: envelope and svd adjust the same file differently: %s" % (dw[:1] or ["degrees of freedom"])[0],
                              key="C09:rank-decision-depends-on-sigma-apr")
    for t in range(n):
        kind = ctx.rng.choice(["2d-fixed", "2d-fixed", "2d-free", "3d-fixed", "lev-fixed", "lev-free", "3d-free"])
        net, truth, meta = enet.varied_network(ctx.rng, kind)
        if ctx.rng.random() < 0.35:
            # little redundancy: dof 0, 1 or 2
            net, truth, meta = netgen.make_network(ctx.rng, dim=2, n=3, n_fixed=2, extra=ctx.rng.choice([0.0, 0.0, 0.2]))
            meta["kind"] = "2d-minimal"
        ids = [p["id"] for p in net["points"]]
        if meta.get("dim", 2) != 1 and ctx.rng.random() < 0.3:
            # axes declared inconsistent with the orientation of the angles: gama mirrors y internally, every reported number
            # must still be in the user's frame
            from checks import c07
            net.setdefault("attrs", {}).setdefault("axes-xy", "ne")
            net, _ = c07.t_mirror(ctx.rng, net)        # the same survey described with y mirrored: ne -> nw (left-handed angles kept)
            truth = {k_: (v_[0], -v_[1]) + tuple(v_[2:]) for k_, v_ in truth.items()}
            meta["kind"] += "+inconsistent-axes"
        if meta.get("dim", 2) != 1 and ctx.rng.random() < 0.5:
            # a station whose single direction is dropped by the revision, followed by distances of different quality
            st = ctx.rng.choice(ids)
            others = [i for i in ids if i != st]
            ctx.rng.shuffle(others)
            obs = [{"t": "direction", "to": others[0], "val": 12.3456, "stdev": 10.0}]
            for j, sd in zip(others[:3], ctx.rng.sample([3.0, 6.0, 12.0, 25.0], 3)):
                ob = {"t": "distance", "to": j, "stdev": sd}
                ob["val"] = netgen.obs_value(ob, truth, 0.0, st) + ctx.rng.gauss(0, 1) * sd * 1e-3
                obs.append(ob)
            net["clusters"].append({"kind": "obs", "from": st, "obs": obs})
            meta["kind"] += "+passive-first"
        if ctx.rng.random() < 0.2:
            # points determined by observed coordinates only: covariance between x and y is exactly zero
            k = ctx.rng.randint(2, 3)
            pts = netgen.gen_points(ctx.rng, k, 2)
            truth = {"C%d" % i: pts[i] for i in range(k)}
            net = {"attrs": {"axes-xy": "ne", "angles": "left-handed"}, "params": dict(net["params"]), "description": "observed coordinates",
                   "points": [{"id": "C%d" % i, "adj": "xy"} for i in range(k)], "clusters": []}
            for rep in range(2):
                obs = [{"t": "point", "id": "C%d" % i, "x": pts[i][0] + ctx.rng.gauss(0, 0.004), "y": pts[i][1] + ctx.rng.gauss(0, 0.008)} for i in range(k)]
                vals = []
                for i in range(k):
                    vals += [16.0, 64.0] if rep == 0 else [25.0, 100.0]
                net["clusters"].append({"kind": "coordinates", "obs": obs, "cov": {"dim": 2 * k, "band": 0, "vals": vals}})
            meta = {"dim": 2, "kind": "observed-coordinates"}
        conf_pr = ctx.rng.choice([0.95, 0.99, 0.9, 0.5, 0.999, round(ctx.rng.uniform(0.05, 0.995), 3)])
        sigma_act = ctx.rng.choice(["aposteriori", "apriori"])
        sigma_apr = ctx.rng.choice([10.0, 1.0, 5.0, 2.5, 30.0, 1000.0, 1e5, 0.01])
        net["params"].update({"conf-pr": conf_pr, "sigma-act": sigma_act, "sigma-apr": sigma_apr})
        alg = ctx.rng.choice(enet.ALGS)
        o1, txt = enet.run_all(ctx, bdir, net, "c09_%d" % t, algs=[alg])
        ctx.count(("c09", txt), nontrivial=True)
        ctx.hist("network_kind", meta["kind"]); ctx.hist("sigma_act", sigma_act)
        if o1[alg]["err"]:
            ctx.violation({"kind": "E:statistics", "gkf": txt, "error": o1[alg]["err"]}, "gama-local failed: " + o1[alg]["err"][:200]); bad += 1
            continue
        if not enet.adjusted_ok(o1[alg]):
            ctx.skipped("skipped_not_adjusted", {"gkf": txt})
            continue
        res = o1[alg]["res"]
        ctx.hist("dof", min(res["dof"], 10))
        if t == 0:
            ctx.sample({"network": enet.summarize(net), "conf_pr": conf_pr, "sigma_act": sigma_act, "stdev_block": res["stdev"]})
        dd = check_result(res, net, conf_pr, sigma_act)
        if dd:
            bad += 1
            ctx.violation({"kind": "E:statistics", "gkf": txt, "algorithm": alg, "differences": dd[:8]}, "statistics inconsistent with the adjustment (%s): %s" % (alg, dd[0]))
        # sigma-apr metamorphic relation
        k = ctx.rng.choice([0.5, 2.0, 3.0, 0.1, 1000.0, 1e-3])
        net2 = copy.deepcopy(net)
        net2["params"]["sigma-apr"] = sigma_apr * k
        o2, txt2 = enet.run_all(ctx, bdir, net2, "c09s_%d" % t, algs=[alg])
        def relation(r2):
            d2 = []
            # v'Pv in units of sigma-apr^2: P = (m0/sigma)^2 -> factor k^2
            if abs(r2["ssq"] - res["ssq"] * k * k) > 5e-6 * max(1.0, r2["ssq"]):
                d2.append("v'Pv %.8g, expected k^2 * %.8g = %.8g" % (r2["ssq"], res["ssq"], res["ssq"] * k * k))
            m1, m2 = gama.adjusted_map(res), gama.adjusted_map(r2)
            for pid in m1:
                for c in "xyz":
                    if c in m1[pid] and m2.get(pid, {}).get(c) is None:
                        d2.append("adjusted %s %s = %.7f is missing in the rescaled run (point removed)" % (pid, c, m1[pid][c]))
                    elif c in m1[pid] and abs(m1[pid][c] - m2[pid][c]) > 3e-6:
                        d2.append("adjusted %s %s changed: %.7f vs %.7f" % (pid, c, m1[pid][c], m2[pid][c]))
            fac = 1.0   # m0^2 Q: the weights scale by k^2, the cofactors by 1/k^2, the reference variance by k^2 (apriori) or not at all
            if res["cov"] and r2["cov"]:
                sc = max(abs(v) for v in res["cov"]["flt"]) * fac
                for u, v in zip(res["cov"]["flt"], r2["cov"]["flt"]):
                    if abs(u * fac - v) > 3e-5 * sc:
                        d2.append("covariance element %.8g, expected %.8g" % (v, u * fac))
                        break
            if res["dof"] > 0 and abs(r2["stdev"]["ratio"] - res["stdev"]["ratio"]) > 1.1e-3:
                d2.append("ratio m0'/m0 changed: %.3f vs %.3f" % (res["stdev"]["ratio"], r2["stdev"]["ratio"]))
            return d2
        if enet.adjusted_ok(o2[alg]):
            d2 = relation(o2[alg]["res"])
            if d2:
                # the recorded weakness C02:rank-tolerances-are-absolute seen through this relation: with very small (large)
                # weights the absolute pivot tolerances of cholesky / envelope / gso declare a regular network singular (miss a
                # singularity); recognised only when svd, on the same scaled input, satisfies the relation
                key = None
                if alg != "svd":
                    o3, _ = enet.run_all(ctx, bdir, net2, "c09v_%d" % t, algs=["svd"])
                    if enet.adjusted_ok(o3["svd"]) and not relation(o3["svd"]["res"]):
                        key = "C09:rank-decision-depends-on-sigma-apr"
                if ctx.violation({"kind": "E:sigma-apr", "gkf": txt, "gkf_scaled": txt2, "k": k, "algorithm": alg, "differences": d2[:8]},
                                 "scaling sigma-apr by %g changed more than v'Pv: %s" % (k, d2[0]), key=key) is not False:
                    bad += 1
        if bad >= 4:
            break
    ctx.obligation(bad == 0, "E:statistics")
    return ctx.finish(rule="generated noisy networks (incl. minimal ones with dof 0..2), random conf-pr in (0.05, 0.999), both sigma-act settings, sigma-apr in {0.01,1,2.5,5,10,30,1000,1e5} "
                           "and its scaling by k; every XML result is a non-trivial case; distinct by content")
