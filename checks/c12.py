"""C12 -- the XML result is a faithful, well-formed serialisation of the adjustment.

proof:  coq/Properties_C12.v (escaping round trip for every byte string, ...)
K:      str2xml on all strings <= 4 (5) over a 10-byte alphabet + random hostile strings,
        model (Strings.str2xml) vs implementation, compared inside Coq
E:      see checks/c12_e.py (gama-local --xml read back, cov-band, cross format)   [added when present]
search: property oracle on the implementation = expat decoding of the escaped text
"""
import os, sys
import vlib
import xml.parsers.expat

ALPHA = bytes([0x3c, 0x3e, 0x26, 0x27, 0x22, 0x61, 0x20, 0xc3, 0xa9, 0x3b])


def strings_upto(alpha, n):
    out = [b""]
    start = 0
    for ln in range(1, n + 1):
        end = len(out)
        nxt = [bytes([c]) + out[i] for c in alpha for i in range(start, end)]
        start = end
        out.extend(nxt)
    return out


def tr(b):
    """(len, 0x..%N) transport literal"""
    return "(%d, 0x%s%%N)" % (len(b), b.hex() if b else "0")


def expat_roundtrip_ok(inp, out):
    """property oracle, independent of the model: an XML reader recovers `inp` from the escaped
    text both as character data and as attribute value"""
    got = {"t": b"", "a": None}
    p = xml.parsers.expat.ParserCreate("ISO-8859-1")  # bytes 1:1
    p.buffer_text = True

    def st(name, attrs):
        got["a"] = attrs.get("d")

    def cd(data):
        got["t"] += data.encode("latin-1")
    p.StartElementHandler = st
    p.CharacterDataHandler = cd
    doc = b'<?xml version="1.0" encoding="ISO-8859-1"?><a d="' + out + b'">' + out + b"</a>"
    try:
        p.Parse(doc, True)
    except xml.parsers.expat.ExpatError:
        return False
    a = got["a"].encode("latin-1") if got["a"] is not None else None
    # attribute values are whitespace-normalised by XML; compare on the text node, and on the
    # attribute only when the input has no tab/newline
    return got["t"] == inp and (a == inp or any(c in inp for c in b"\t\r\n"))


def k_str2xml(ctx):
    exe = vlib.compile_harness("harness/strings.cpp", extra_src=["lib/gnu_gama/xml/str2xml.cpp"])
    maxlen = 4 if ctx.quick else 5
    enum = strings_upto(ALPHA, maxlen)
    # random hostile strings: printable + control-free bytes, XML specials over-represented
    rnd = []
    pool = list(b"<>&'\"") * 6 + list(range(32, 127)) + list(range(0xa0, 0x100))
    for i in range(300 if ctx.quick else 3000):
        n = ctx.rng.choice([1, 2, 3, 5, 8, 13, 40, 200])
        rnd.append(bytes(ctx.rng.choice(pool) for _ in range(n)))
    inp = "x2xenum %s %d\n" % (ALPHA.hex(), maxlen) + "".join("x2x %s\n" % (s.hex() or "-") for s in rnd)
    rc, out, err = vlib.sh([exe], inp=inp, timeout=300)
    if rc != 0:
        ctx.violation({"kind": "K:str2xml", "stderr": err[-2000:]}, "strings harness failed rc=%d" % rc, no_input=True)
        return
    lines = out.split("\n")[:-1]
    outs = [bytes.fromhex(l) if l != "-" else b"" for l in lines]
    if len(outs) != len(enum) + len(rnd):
        ctx.violation({"kind": "K:str2xml"}, "harness produced %d lines for %d cases" % (len(outs), len(enum) + len(rnd)), no_input=True)
        return
    e_out, r_out = outs[:len(enum)], outs[len(enum):]
    v = ["From Coq Require Import List NArith.", "From Gama Require Import Strings StringsRun.", "Import ListNotations.",
         "Definition alpha : str := [%s]%%N." % "; ".join(str(c) for c in ALPHA),
         "Definition outs : list (nat * N) := [%s]." % "; ".join(tr(o) for o in e_out),
         'Goal True. idtac "@@ENUM". Abort.',
         "Eval vm_compute in x2x_enum_mismatches (strings_upto alpha %d) outs." % maxlen,
         "Definition rnd : list ((nat * N) * (nat * N)) := [%s]." % "; ".join("(%s, %s)" % (tr(a), tr(b)) for a, b in zip(rnd, r_out)),
         'Goal True. idtac "@@RND". Abort.',
         "Eval vm_compute in x2x_pairs_mismatches rnd."]
    rc, cout = vlib.coq_run("\n".join(v) + "\n", ctx.scratch, name="cases_c12_str2xml", timeout=900)
    ctx.checker_cmds.append("coqc -Q coq Gama cases_c12_str2xml.v")
    m1 = vlib.parse_coq_list(cout, "@@ENUM")
    m2 = vlib.parse_coq_list(cout, "@@RND")
    okshard = rc == 0 and m1 == [] and m2 == []
    ctx.obligation(okshard, "K:str2xml shard")
    for s in enum:
        ctx.count(("x2x", s), nontrivial=any(c in s for c in b"<>&'\""))
    for s in rnd:
        ctx.count(("x2x", s), nontrivial=any(c in s for c in b"<>&'\""))
        ctx.hist("random_string_len", len(s))
    ctx.extra["exhaustive_str2xml"] = {"alphabet_hex": ALPHA.hex(), "maxlen": maxlen, "strings": len(enum)}
    ctx.sample({"str2xml_in_hex": enum[7].hex(), "out_hex": e_out[7].hex()})
    ctx.sample({"str2xml_in_hex": rnd[0].hex(), "out_hex": r_out[0].hex()})
    if okshard:
        return
    # correspondence broken -> search the implementation with the property's own oracle
    bad = []
    if rc != 0 or m1 is None or m2 is None:
        ctx.log("coq output:", cout[-1500:])
    for s, o in list(zip(enum, e_out)) + list(zip(rnd, r_out)):
        if not expat_roundtrip_ok(s, o):
            bad.append((s, o))
    if bad:
        s, o = min(bad, key=lambda p: len(p[0]))
        ctx.violation({"kind": "K:str2xml", "input_hex": s.hex(), "str2xml_output_hex": o.hex(),
                       "oracle": "expat decoding of the escaped text differs from the input (or the document is not well-formed)",
                       "failing_inputs": len(bad)},
                      "str2xml(%r) = %r is not decoded back to the input by an XML reader" % (s, o))
    else:
        idx = (m1 or []) + (m2 or [])
        ctx.violation({"kind": "K:str2xml", "broken": "correspondence K:str2xml (model Strings.str2xml vs GNU_gama::str2xml)",
                       "mismatching_case_indices": idx[:20], "coq_rc": rc, "coq_tail": cout[-800:]},
                      "model and implementation of str2xml disagree, but every output still decodes to its input",
                      no_input=True)


def run(ctx):
    ctx.check_proofs(extra_files=["StringsRun", "Properties_C12_frame"])
    k_str2xml(ctx)
    try:
        from checks import c12_e
        c12_e.run(ctx)
    except ImportError:
        pass
    return ctx.finish(
        rule="K: all strings of length<=%d over the 10-byte alphabet {< > & ' \" a space 0xc3 0xa9 ;} plus random hostile strings; "
             "a case is non-trivial when it contains at least one of < > & ' \"; distinct by content" % (4 if ctx.quick else 5))
