"""C11 -- any input is either adjusted or refused with a located diagnostic, safely.

translator:  tools/gkf_translate.py regenerates coq/GkfGen.v (states, tags, start/end/text tables, tag()) from
             lib/gnu_gama/xml/gkfparser.{h,cpp} on every run
proof:       coq/Properties_C11.v over GkfGen: the automaton is the stack machine of the element grammar
             (accepts exactly the grammar, XSD documents accepted, every tag-level refusal located, error absorbing,
             tag recogniser exact) -- finite checks over the regenerated tables lifted by induction
K:           harness/gkf.cpp (the real GKFparser, ASan+UBSan): EVERY well-formed event sequence the model accepts up to a
             bound, extended by any one event, rendered as a document with valid attributes; verdict and error line
             against the generated model and against the hand-written grammars, all evaluated inside coqc (GkfRun.v);
             every split of a document into two chunks; the literal recognisers exhaustively (shared with C18)
E:           gama-local / gama-g3 / gama-local-deformation built with ASan+UBSan on mutated, truncated and option-varied
             inputs: must terminate, no sanitizer report, refusal with a line
"""
import shutil
import glob, os, random, re, subprocess, sys
import vlib
from checks import c18

TAGS = None   # filled from GkfGen.v (order of all_tags)


def read_tags():
    s = open(os.path.join(vlib.COQ, "GkfGen.v")).read()
    m = re.search(r"Definition all_tags : list tag := \[(.*?)\]\.", s)
    tags = [x.strip() for x in m.group(1).split(";")]
    tbl = re.findall(r'\("(.)", "([^"]*)", (tag_\w+)\)', s)
    name = {}
    for c, n, t in tbl:
        name.setdefault(t, n)
    name["tag_gama_xml"] = "gama-local"
    name["tag_unknown"] = "foo"
    return tags, name


NS = "http://www.gnu.org/software/gama/gama-local"


def render(codes, tags, name):
    """event codes -> (document text, semantic expectation)
    semantic expectation: index of the first event at which an attribute/content check (not the automaton) must
    refuse, or None.  One event per line: event j is on line j + 2."""
    lines = ['<?xml version="1.0" ?>']
    stack = []          # [tag, nobs, cov_text_count, has_cov]
    sem = None
    npts = 0
    for j, c in enumerate(codes):
        if c == 0:
            top = stack.pop()
            lines.append("</%s>" % name[top["t"]])
            if top["t"] == "tag_height_differences" and top["n"] == 0 and top["cov"] is None and sem is None:
                sem = j      # <height-differences> needs at least one <dh> (xsd: dh+); refused when the cluster ends
            if top["t"] in ("tag_obs", "tag_coordinates", "tag_height_differences", "tag_vectors") and top["cov"] is not None and sem is None:
                # the covariance data is judged when the cluster ends
                if top["cov"] != 1 and top["covdim"] > 0:
                    sem = j
        elif c == 1:
            top = stack[-1]
            if top["t"] == "tag_cov_mat":
                par = stack[-2]
                par["cov"] = (par["cov"] or 0) + 1
                lines.append(" ".join(["1"] * max(1, par["covdim"])))
            else:
                lines.append("7")
        else:
            t = tags[c - 2]
            par = stack[-1] if stack else None
            a = ""
            if t == "tag_gama_xml":
                a = ' xmlns="%s"' % NS
            elif t == "tag_point":
                npts += 1
                if par and par["t"] == "tag_coordinates":
                    a = ' id="P%d" x="1" y="2" z="3"' % npts
                    par["n"] += 3
                else:
                    a = ' id="P%d" x="1" y="2" z="3" fix="xyz"' % npts
            elif t == "tag_obs":
                a = ' from="A"'
            elif t in ("tag_direction", "tag_distance", "tag_s_distance", "tag_z_angle", "tag_azimuth"):
                a = ' to="B" val="10.5" stdev="1"'
                if par and par["t"] == "tag_obs":
                    par["n"] += 1
            elif t == "tag_angle":
                a = ' bs="B" fs="C" val="10.5" stdev="1"'
                if par and par["t"] == "tag_obs":
                    par["n"] += 1
            elif t == "tag_dh":
                a = ' from="A" to="B" val="1.5" stdev="1"'
                if par and par["t"] == "tag_height_differences":
                    par["n"] += 1
            elif t == "tag_vec":
                a = ' from="A" to="B" dx="1" dy="2" dz="3"'
                if par and par["t"] == "tag_vectors":
                    par["n"] += 3
            elif t == "tag_cov_mat":
                n = par["n"] if par and "n" in par else 0
                a = ' dim="%d" band="0"' % n
                if par is not None:
                    par["cov"] = 0
                    par["covdim"] = n
                if n == 0 and sem is None:
                    sem = j          # idim < 1
            lines.append("<%s%s>" % (name[t], a))
            stack.append({"t": t, "n": 0, "cov": None, "covdim": 0})
    return "\n".join(lines) + "\n", sem


def parse_enum(out):
    res = []
    for m in re.finditer(r"\(\[([\d;\s]*)\],\s*(None|Some\s+\d+),\s*(true|false),\s*(true|false)\)", out):
        codes = [int(x) for x in m.group(1).replace("\n", " ").split(";") if x.strip()]
        v = None if m.group(2) == "None" else int(m.group(2).split()[1])
        res.append((codes, v, m.group(3) == "true", m.group(4) == "true"))
    return res


def run_gkf(exe, requests):
    inp = "".join("%s %s\n" % (m, d.encode("latin-1").hex() if isinstance(d, str) else d.hex()) for m, d in requests)
    rc, out, err = vlib.sh([exe], inp=inp, timeout=3000)
    return rc, out.split("\n"), err


def k_events(ctx, exe, proofs_ok):
    tags, name = read_tags()
    depth = (7 if ctx.quick else 8)
    v = "From Coq Require Import List.\nFrom Gama Require Import GkfRun.\nImport ListNotations.\n" \
        'Goal True. idtac "@@ENUM". Abort.\nEval vm_compute in enum %d.\n' % depth
    rc, cout = vlib.coq_run(v, ctx.scratch, name="cases_c11_enum", timeout=1800)
    ctx.checker_cmds.append("coqc -Q coq Gama cases_c11_enum.v   (Eval vm_compute in GkfRun.enum %d)" % depth)
    if rc != 0 or "@@ENUM" not in cout:
        ctx.obligation(False, "K:events enumeration")
        ctx.violation({"kind": "K:gkf-events", "broken": "GkfRun.enum did not evaluate", "tail": cout[-800:]}, "enumeration failed", no_input=True)
        return
    docs = parse_enum(cout.split("@@ENUM", 1)[1])
    ctx.extra["event_sequences"] = {"prefix_bound": depth, "documents": len(docs)}
    acc = judge_documents(ctx, exe, docs, tags, name, "enumerated")
    # longer documents: random trees of the schema grammar (python generator), one random perturbation in half of them;
    # verdicts again from Coq
    rng = ctx.rng
    seqs = []
    pristine = set()
    for _ in range(300 if ctx.quick else 6000):
        w = random_document(rng, tags)
        if rng.random() < 0.5:
            w = perturb_events(rng, w, len(tags))
        elif w:
            pristine.add(tuple(w))
        if w:
            seqs.append(w)
    v = "From Coq Require Import List.\nFrom Gama Require Import GkfRun.\nImport ListNotations.\n" \
        "Definition ws : list (list nat) := [\n%s\n].\n" % ";\n".join("[%s]" % "; ".join(str(c) for c in w) for w in seqs) + \
        'Goal True. idtac "@@RAND". Abort.\nEval vm_compute in map (fun w => (w, verdict w, verdicts_agree w, in_xsd_grammar w)) ws.\n'
    rc, cout = vlib.coq_run(v, ctx.scratch, name="cases_c11_rand", timeout=1800)
    ctx.checker_cmds.append("coqc -Q coq Gama cases_c11_rand.v   (verdicts of %d random documents)" % len(seqs))
    if rc != 0 or "@@RAND" not in cout:
        ctx.obligation(False, "K:random documents")
        ctx.violation({"kind": "K:gkf-events", "broken": "verdicts of random documents did not evaluate", "tail": cout[-800:]}, "cases file failed", no_input=True)
    else:
        docs2 = parse_enum(cout.split("@@RAND", 1)[1])
        acc += judge_documents(ctx, exe, docs2, tags, name, "random")
        # the hand-written generator of the schema's element structure against the content automata regenerated from the xsd
        off = [codes for codes, verdict, incode, inxsd in docs2 if tuple(codes) in pristine and not inxsd]
        ctx.obligation(not off, "K:schema generator vs regenerated xsd automata (%d documents)" % len(pristine))
        if off:
            text, _ = render(off[0], tags, name)
            ctx.violation({"kind": "K:gkf-events", "input": text, "events": off[0], "broken": "in_xsd_grammar (regenerated from xml/gama-local.xsd)"},
                          "a document built after the element structure of xml/gama-local.xsd is outside the content automata regenerated from the schema")
    return acc


def well_formed(w):
    d = 0
    closed = False
    for c in w:
        if closed:
            return False
        if c == 0:
            if d == 0:
                return False
            d -= 1
            closed = d == 0
        elif c == 1:
            if d == 0:
                return False
        else:
            d += 1
    return d == 0 and len(w) > 0 and w[0] >= 2


def perturb_events(rng, w, ntags):
    for _ in range(20):
        v = list(w)
        k = rng.randrange(4)
        i = rng.randrange(len(v))
        if k == 0:          # insert an empty element of any tag
            t = 2 + rng.randrange(ntags)
            v[i:i] = [t, 0]
        elif k == 1:        # insert text
            v[i:i] = [1]
        elif k == 2:        # rename an open tag
            js = [j for j, c in enumerate(v) if c >= 2]
            v[rng.choice(js)] = 2 + rng.randrange(ntags)
        else:               # delete an empty element
            js = [j for j in range(len(v) - 1) if v[j] >= 2 and v[j + 1] == 0]
            if js:
                j = rng.choice(js)
                del v[j:j + 2]
        if well_formed(v):
            return v
    return w


def random_document(rng, tags):
    """event codes of a random tree of the schema (xml/gama-local.xsd, element structure)"""
    T = {t: 2 + i for i, t in enumerate(tags)}
    w = []

    def leaf(t):
        w.extend([T[t], 0])

    def cov():
        w.extend([T["tag_cov_mat"], 1, 0])

    w.append(T["tag_gama_xml"]); w.append(T["tag_network"])
    for _ in range(rng.randrange(0, 4)):
        k = rng.random()
        if k < 0.2:
            w.extend([T["tag_description"]] + [1] * rng.randrange(0, 2) + [0])
        elif k < 0.4:
            leaf("tag_parameters")
        else:
            w.append(T["tag_points_observations"])
            for _ in range(rng.randrange(0, 6)):
                c = rng.randrange(5)
                if c == 0:
                    leaf("tag_point")
                elif c == 1:
                    w.append(T["tag_obs"])
                    for _ in range(rng.randrange(0, 5)):
                        leaf(rng.choice(["tag_direction", "tag_distance", "tag_angle", "tag_s_distance", "tag_z_angle", "tag_azimuth"]))
                    if rng.random() < 0.4:
                        cov()
                    w.append(0)
                elif c == 2:
                    w.append(T["tag_coordinates"])
                    for _ in range(rng.randrange(1, 4)):
                        leaf("tag_point")
                    cov(); w.append(0)
                elif c == 3:
                    w.append(T["tag_height_differences"])
                    for _ in range(rng.randrange(1, 4)):
                        leaf("tag_dh")
                    if rng.random() < 0.4:
                        cov()
                    w.append(0)
                else:
                    w.append(T["tag_vectors"])
                    for _ in range(rng.randrange(1, 3)):
                        leaf("tag_vec")
                    cov(); w.append(0)
            w.append(0)
    w.extend([0, 0])
    return w


def judge_documents(ctx, exe, docs, tags, name, label):
    reqs = []
    meta = []
    for codes, verdict, incode, inxsd in docs:
        text, sem = render(codes, tags, name)
        reqs.append(("D", text))
        meta.append((codes, verdict, incode, inxsd, text, sem))
    rc, lines, err = run_gkf(exe, reqs)
    if rc != 0 or len([l for l in lines if l]) != len(reqs):
        k = len([l for l in lines if l])
        ctx.obligation(False, "K:events harness (%s)" % label)
        ctx.violation({"kind": "K:gkf-events", "input": reqs[k][1] if k < len(reqs) else None, "rc": rc, "stderr": err[-3000:]},
                      "GKFparser harness died (rc %d) on a generated document: %s" % (rc, (err.strip().splitlines() or ["?"])[0][:200]))
        return []
    bad = 0
    nacc = 0
    for (codes, verdict, incode, inxsd, text, sem), ln in zip(meta, lines):
        w = ln.split()
        ctx.count(("doc", tuple(codes)), nontrivial=True)
        ctx.hist("events_" + label, len(codes) // 5 * 5)
        ctx.hist("model_verdict_" + label, "accept" if verdict is None else "refuse")
        accepted = w[0] == "ok"
        if accepted:
            nacc += 1
        line = int(w[1]) if w[0] == "exc" else None
        msg = vlib_hex(w[3]) if w[0] == "exc" and len(w) > 3 else ""
        why = None
        # expected: first of (automaton refusal, semantic refusal)
        firsts = [x for x in (verdict, sem) if x is not None]
        exp = min(firsts) if firsts else None
        if w[0] not in ("ok", "exc"):
            why = "unexpected exception class from the parser: %s" % ln[:200]
        elif not accepted and (line is None or line < 1 or not msg.strip()):
            why = "refused without a located diagnostic (line %s, message %r)" % (line, msg)
        elif exp is None and not accepted:
            why = ("a document of the documented grammar (xml/gama-local.xsd) is refused" if inxsd else "a document the model accepts is refused") + \
                  ": line %d: %s" % (line, msg)
        elif exp is not None and accepted:
            why = "a document outside the grammar is accepted (the model refuses event %d, line %d)" % (exp, exp + 2)
        elif exp is not None and abs(line - (exp + 2)) > (1 if codes[exp] == 1 else 0):
            why = "refused at line %d, the first offending event is on line %d" % (line, exp + 2)
        elif not incode:
            # (third component: the regenerated automaton and the stack machine of the grammar give the same verdict and position)
            why = ("the parser's automaton accepts a document outside the element grammar" if verdict is None else
                   "the parser's automaton refuses at event %d (line %d), not where the element grammar is first violated: the events in between "
                   "were processed in a state that does not belong to the open elements" % (verdict, verdict + 2))
        if why:
            bad += 1
            if bad <= 5:
                ctx.violation({"kind": "K:gkf-events", "input": text, "events": codes, "model_verdict": verdict, "in_code_grammar": incode,
                               "in_xsd_grammar": inxsd, "semantic_expectation": sem, "parser": ln}, why)
    ctx.hist("accepted_documents_" + label, nacc)
    ctx.obligation(bad == 0, "K:gkf-events %d %s documents" % (len(docs), label))
    if meta:
        ctx.sample({"document": meta[len(meta) // 2][4], "model": meta[len(meta) // 2][1], "parser": lines[len(meta) // 2]})
    return [m[4] for m in meta if m[1] is None and m[5] is None]


def vlib_hex(h):
    try:
        return "" if h == "-" else bytes.fromhex(h).decode("latin-1")
    except ValueError:
        return "?"


def corpus_files():
    fs = sorted(glob.glob(os.path.join(vlib.REPO, "tests/gama-local/input/*.gkf")))
    return fs


def k_chunks(ctx, exe, extra_docs):
    """every split of a document into two chunks gives the verdict of the unsplit parse"""
    rng = ctx.rng
    files = corpus_files()
    small = [f for f in files if os.path.getsize(f) < (6000 if ctx.quick else 40000)]
    pick = rng.sample(small, min(len(small), 4 if ctx.quick else 25))
    docs = [open(f, "rb").read() for f in pick]
    docs += [d.encode() for d in rng.sample(extra_docs, min(len(extra_docs), 10 if ctx.quick else 100))]
    # and a few refused ones
    for d in list(docs[:3]):
        k = rng.randrange(len(d))
        docs.append(d[:k] + b"<" + d[k:])
    rc, lines, err = run_gkf(exe, [("S", d) for d in docs])
    bad = 0
    for d, ln in zip(docs, lines):
        ctx.count(("split", d[:200], len(d)), nontrivial=True, n=len(d) + 1)
        if not ln.startswith("same"):
            bad += 1
            if bad <= 3:
                ctx.violation({"kind": "K:gkf-chunks", "input": d.decode("latin-1"), "result": ln},
                              "chunked delivery changes the parser's verdict: %s" % ln[:200])
    if rc != 0:
        bad += 1
        ctx.violation({"kind": "K:gkf-chunks", "rc": rc, "stderr": err[-3000:]}, "GKFparser harness died during chunked delivery (rc %d)" % rc)
    ctx.obligation(bad == 0, "K:gkf-chunks")


def k_encodings(ctx, exe):
    """the 8-bit encodings the parsers install themselves (UnknownEncodingHandler): every byte 0x80..0xFF must be decoded as the
    code page says (python codecs as the reference), under ASan"""
    pages = {"iso-8859-2": "iso8859_2", "cp-1250": "cp1250", "windows-1250": "cp1250", "cp-1251": "cp1251", "windows-1251": "cp1251"}
    reqs, meta = [], []
    for enc, codec in pages.items():
        for b in range(0x80, 0x100):
            try:
                ch = bytes([b]).decode(codec)
            except UnicodeDecodeError:
                continue          # undefined in the code page
            if codec == "cp1250" and b == 0x80:
                continue          # the euro sign entered cp1250 in 1998; gama's table keeps U+0080 (harmless, noted in DESIGN.md)
            doc = ('<?xml version="1.0" encoding="%s"?>\n<gama-local xmlns="%s">\n<network>\n<description>' % (enc, NS)).encode() + b"a" + bytes([b]) + \
                b"z</description>\n<points-observations>\n</points-observations>\n</network>\n</gama-local>\n"
            reqs.append(("E", doc)); meta.append((enc, b, ch))
    for enc in ("x-unknown", "utf-16", "iso-8859-5"):
        doc = ('<?xml version="1.0" encoding="%s"?>\n<gama-local xmlns="%s">\n<network>\n<description>' % (enc, NS)).encode() + b"a\xe1z</description>\n</network>\n</gama-local>\n"
        reqs.append(("E", doc)); meta.append((enc, 0xe1, None))
    rc, lines, err = run_gkf(exe, reqs)
    bad = 0
    if rc != 0:
        bad += 1
        k = len([l for l in lines if l])
        ctx.violation({"kind": "K:encodings", "input": reqs[k][1].decode("latin-1") if k < len(reqs) else None, "rc": rc, "stderr": err[-3000:]},
                      "GKFparser harness died while an encoding was set up: %s" % (err.strip().splitlines() or ["?"])[0][:200])
    else:
        for (enc, b, ch), ln, (_, doc) in zip(meta, lines, reqs):
            ctx.count(("enc", enc, b), nontrivial=True)
            w = ln.split()
            why = None
            if ch is None:
                if w[0] == "exc" and int(w[1]) < 1:
                    why = "encoding %s refused without a line" % enc
            elif w[0] != "ok":
                why = "a document in %s with byte 0x%02x is refused: %s" % (enc, b, ln[:100])
            else:
                got = bytes.fromhex(w[2]).decode("utf-8", "replace") if len(w) > 2 and w[2] != "-" else ""
                if got != "a" + ch + "z":
                    why = "byte 0x%02x in %s is read as %r instead of %r" % (b, enc, got[1:-1], ch)
            if why:
                bad += 1
                if bad <= 3:
                    ctx.violation({"kind": "K:encodings", "input": doc.decode("latin-1"), "encoding": enc, "byte": b, "parser": ln}, why)
    ctx.obligation(bad == 0, "K:encodings")


def k_dataparser_chunks(ctx):
    """DataParser: splits at line ends (how gama-g3 feeds it) must not change the verdict; every-byte splits are tried too and a
    difference inside a token is the recorded finding C11:dataparser-text-pieces"""
    exe = vlib.compile_harness("harness/dp.cpp", link_gama=True, sanitize=True)
    files = [f for f in sorted(glob.glob(os.path.join(vlib.REPO, "tests/gama-g3/input/*.xml"))) if 0 < os.path.getsize(f) < (6000 if ctx.quick else 40000)]
    docs = [open(f, "rb").read() for f in files[:3 if ctx.quick else 12]]
    rc, lines, err = run_gkf(exe, [("S", d) for d in docs] + [("L", d) for d in docs])
    bad = 0
    if rc != 0:
        bad += 1
        ctx.violation({"kind": "K:dataparser-chunks", "rc": rc, "stderr": err[-2500:]}, "DataParser harness died during chunked delivery (rc %d)" % rc)
    for d, ln in zip(docs, lines[len(docs):]):
        if not ln.startswith("same"):
            bad += 1
            ctx.violation({"kind": "K:dataparser-chunks", "input": d.decode("latin-1"), "result": ln[:300]},
                          "DataParser: delivering the document line by line changes the result: %s" % ln[:200])
    for d, ln in zip(docs, lines):
        ctx.count(("dp-split", d[:200], len(d)), nontrivial=True, n=len(d) + 1)
        if ln.startswith("same"):
            continue
        k = int(ln.split()[1])
        inside_token = 0 < k < len(d) and not chr(d[k - 1]).isspace() and not chr(d[k]).isspace() and d[k - 1:k] != b">" and d[k:k + 1] != b"<"
        at_line_end = k > 0 and d[k - 1:k] == b"\n"
        key = "C11:dataparser-text-pieces" if (inside_token and not at_line_end) else None
        if ctx.violation({"kind": "K:dataparser-chunks", "input": d.decode("latin-1"), "split_at": k, "context": d[max(0, k - 30):k + 30].decode("latin-1"), "result": ln[:300]},
                         "DataParser: delivering the document in two chunks split at byte %d changes the result" % k, key=key):
            bad += 1
    ctx.obligation(bad == 0, "K:dataparser-chunks")


# ------------------------------------------------------------------------------------------------
# K: the attribute layer (tables regenerated from the process_* handlers and from xml/gama-local.xsd)

ATTR_VALUE = {"axes-xy": "ne", "angles": "left-handed", "epoch": "2020.5", "sigma-apr": "7.5", "conf-pr": "0.9", "tol-abs": "500", "sigma-act": "apriori",
              "algorithm": "gso", "language": "en", "encoding": "utf-8", "angular": "400", "latitude": "50", "ellipsoid": "wgs84", "cov-band": "-1",
              "distance-stdev": "5 3 1", "direction-stdev": "10", "angle-stdev": "10", "zenith-angle-stdev": "10", "azimuth-stdev": "10",
              ("parameters", "angles"): "400", "fix": "xy", "adj": "xy", "id": "Q", "from": "A", "to": "B", "bs": "B", "fs": "C", "rs": "C", "extern": "e1", "version": "2.0"}
UNDEF_ATTR = re.compile(r"undefined attribute|unknown parameter")


def attr_value(el, a):
    return ATTR_VALUE.get((el, a), ATTR_VALUE.get(a, "1.5"))


def attr_tables():
    """(state, tag) -> names or None, and element -> [(attribute, required)], read back from the regenerated GkfGen.v"""
    s = open(os.path.join(vlib.COQ, "GkfGen.v")).read()
    tbl = {}
    for m in re.finditer(r"\| (state_\w+), (tag_\w+) => (None|Some \[([^\]]*)\])", s):
        tbl[(m.group(1), m.group(2))] = None if m.group(3) == "None" else re.findall(r'"([^"]*)"', m.group(4) or "")
    xsd = {}
    m = re.search(r"Definition xsd_attrs .*?:= \[(.*?)\]\.\n", s, re.S)
    for e in re.finditer(r'\("([^"]*)", \[(.*?)\]\)(?:;|$)', m.group(1), re.M):
        xsd[e.group(1)] = [(a, r == "true") for a, r in re.findall(r'\("([^"]*)", (true|false)\)', e.group(2))]
    return tbl, xsd


def k_attributes(ctx, exe):
    """one more attribute on one element of a valid document: the regenerated table of the handler (evaluated in Coq:
    GkfRun.attr_verdict) says whether the name is refused; the parser must refuse exactly those, on the element's line"""
    tags, name = read_tags()
    rng = ctx.rng
    tbl, xsd = attr_tables()
    pool = sorted({a for l in tbl.values() if l for a in l} | {a for al in xsd.values() for a, _ in al} | {"foo", "ID", "From", "x1", "valu", "std-dev", "xmlns:q"})
    pool.remove("xmlns:q")
    cases = []
    n = 400 if ctx.quick else 8000
    T = {t: 2 + i for i, t in enumerate(tags)}
    tries = 0
    while len(cases) < n and tries < 20 * n:
        tries += 1
        w = random_document(rng, tags)
        text, sem = render(w, tags, name)
        if sem is not None:
            continue
        opens = [j for j, c in enumerate(w) if c >= 2]
        j = rng.choice(opens)
        t = tags[w[j] - 2]
        el = name[t]
        # aim half of the cases at the names the schema declares for this element, the rest at the whole pool
        a = rng.choice([x for x, _ in xsd.get(el, [])] or pool) if rng.random() < 0.5 else rng.choice(pool)
        lines = text.split("\n")
        ln = lines[j + 1]
        if re.search(r'\s%s="' % re.escape(a), ln):
            continue                                   # already there (a repeated attribute is not well-formed XML)
        val = attr_value(el, a)
        lines[j + 1] = ln[:-1] + ' %s="%s">' % (a, val)
        cases.append((w, j, a, "\n".join(lines), el))
    v = "From Coq Require Import List String.\nFrom Gama Require Import GkfRun.\nImport ListNotations.\nLocal Open Scope string_scope.\n" \
        "Definition cs : list (list nat * nat * string) := [\n%s\n].\n" % ";\n".join(
            '([%s], %d, "%s")' % ("; ".join(str(c) for c in w), j, a) for w, j, a, _, _ in cases) + \
        'Goal True. idtac "@@ATTR". Abort.\nEval vm_compute in map attr_verdict cs.\n'
    rc, cout = vlib.coq_run(v, ctx.scratch, name="cases_c11_attr", timeout=1800)
    ctx.checker_cmds.append("coqc -Q coq Gama cases_c11_attr.v   (GkfRun.attr_verdict on %d documents with one more attribute)" % len(cases))
    got = vlib.parse_coq_list(cout, "@@ATTR") if rc == 0 else None
    if got is None or len(got) != len(cases):
        ctx.obligation(False, "K:attributes model")
        ctx.violation({"kind": "K:gkf-attributes", "broken": "GkfRun.attr_verdict did not evaluate", "tail": cout[-800:]}, "cases file failed", no_input=True)
        return
    rc, lines, err = run_gkf(exe, [("D", c[3]) for c in cases])
    lines = [l for l in lines if l]
    if rc != 0 or len(lines) != len(cases):
        k = len(lines)
        ctx.obligation(False, "K:attributes harness")
        ctx.violation({"kind": "K:gkf-attributes", "input": cases[k][3] if k < len(cases) else None, "rc": rc, "stderr": err[-3000:]},
                      "GKFparser harness died (rc %d) on a document with one more attribute: %s" % (rc, (err.strip().splitlines() or ["?"])[0][:200]))
        return
    bad = 0
    for (w, j, a, text, el), mv, ln in zip(cases, got, lines):
        ctx.count(("attr", el, a, j, tuple(w)), nontrivial=True)
        wds = ln.split()
        accepted = wds[0] == "ok"
        line = int(wds[1]) if wds[0] == "exc" else None
        msg = vlib_hex(wds[3]) if wds[0] == "exc" and len(wds) > 3 else ""
        declared = a in [x for x, _ in xsd.get(el, [])]
        ctx.hist("attribute_cases", ("declared " if declared else "other ") + mv.replace("Some ", ""))
        why = None
        if mv not in ("Some true", "Some false"):
            why = "the model does not reach the element (attr_verdict = %s)" % mv
        elif wds[0] not in ("ok", "exc"):
            why = "unexpected exception class: %s" % ln[:200]
        elif mv == "Some false":
            if accepted:
                why = "<%s %s=...> is accepted although the handler's table does not list the name" % (el, a)
            elif line != j + 2 or not msg.strip():
                why = "<%s %s=...> refused at line %s (%r), the element is on line %d" % (el, a, line, msg, j + 2)
        else:
            if not accepted and UNDEF_ATTR.search(msg):
                why = "<%s %s=...> is refused as an unknown attribute (line %s: %s) although the handler's table lists the name" % (el, a, line, msg)
            elif not accepted and (line is None or line < j + 2 or not msg.strip()):
                why = "<%s %s=\"%s\"> refused without a diagnostic located at or after the element (line %s, %r)" % (el, a, attr_value(el, a), line, msg)
            elif declared and not accepted and a in ATTR_VALUE and a not in ("from", "to", "bs", "fs", "id", "fix", "adj"):
                why = "a document of the documented grammar is refused: <%s %s=\"%s\">: line %s: %s" % (el, a, attr_value(el, a), line, msg)
        if why:
            bad += 1
            if bad <= 5:
                ctx.violation({"kind": "K:gkf-attributes", "input": text, "element": el, "attribute": a, "model": mv, "parser": ln}, why)
    ctx.obligation(bad == 0, "K:gkf-attributes %d documents" % len(cases))
    # an attribute the schema requires (use="required") is taken away: the element must be refused on its line
    reqs, meta = [], []
    tries = 0
    nreq = 150 if ctx.quick else 3000
    while len(reqs) < nreq and tries < 20 * nreq:
        tries += 1
        w = random_document(rng, tags)
        text, sem = render(w, tags, name)
        if sem is not None:
            continue
        opens = [j for j, c in enumerate(w) if c >= 2 and any(r for _, r in xsd.get(name[tags[c - 2]], []))]
        if not opens:
            continue
        j = rng.choice(opens)
        el = name[tags[w[j] - 2]]
        a = rng.choice([x for x, r in xsd[el] if r])
        dl = text.split("\n")
        new_line, k = re.subn(r'\s%s="[^"]*"' % re.escape(a), "", dl[j + 1], count=1)
        if k != 1:
            continue
        dl[j + 1] = new_line
        reqs.append(("D", "\n".join(dl)))
        meta.append((el, a, j))
    rc, out, err = run_gkf(exe, reqs)
    out = [l for l in out if l]
    bad2 = 0
    if rc != 0 or len(out) != len(reqs):
        ctx.violation({"kind": "K:gkf-attributes", "input": reqs[len(out)][1] if len(out) < len(reqs) else None, "rc": rc, "stderr": err[-3000:]},
                      "GKFparser harness died (rc %d) on a document with a required attribute removed" % rc)
        bad2 = 1
    else:
        for (el, a, j), (_, text), ln in zip(meta, reqs, out):
            ctx.count(("attr-required", el, a, text), nontrivial=True)
            ctx.hist("required_attribute_removed", "%s/%s" % (el, a))
            wds = ln.split()
            line = int(wds[1]) if wds[0] == "exc" else None
            why = None
            if wds[0] == "ok":
                why = "<%s> without its required attribute %s is accepted (the data of the element cannot have been supplied)" % (el, a)
            elif wds[0] != "exc" or line != j + 2:
                why = "<%s> without its required attribute %s: refused at line %s, the element is on line %d (%s)" % (el, a, line, j + 2, ln[:100])
            if why:
                bad2 += 1
                if bad2 <= 4:
                    ctx.violation({"kind": "K:gkf-attributes", "input": text, "element": el, "attribute": a, "parser": ln}, why)
    ctx.obligation(bad2 == 0, "K:gkf required attributes removed, %d documents" % len(reqs))
    ctx.sample({"attribute_case": cases[len(cases) // 2][3][-400:], "model": got[len(cases) // 2], "parser": lines[len(cases) // 2]})


def xsd_attribute_witnesses(ctx, exe):
    """search for a failing input when Properties_C11's attribute theorem no longer checks: every attribute the schema
    declares that the regenerated handler tables do not list, put into a minimal document"""
    tags, name = read_tags()
    tbl, xsd = attr_tables()
    elem_of = {t: name[t] for t in tags if t in name}
    found = 0
    for (st, t), names in sorted(tbl.items()):
        if names is None:
            continue
        el = elem_of.get(t)
        for a, _ in xsd.get(el, []):
            if a in names:
                continue
            # a minimal document that opens the element in that state
            T = {x: 2 + i for i, x in enumerate(tags)}
            path = {"state_start": [], "state_gama_xml": ["tag_gama_xml"], "state_network": ["tag_gama_xml", "tag_network"],
                    "state_point_obs": ["tag_gama_xml", "tag_network", "tag_points_observations"]}
            par = {"state_obs": "tag_obs", "state_coords": "tag_coordinates", "state_hdiffs": "tag_height_differences", "state_vectors": "tag_vectors"}
            if st in path:
                pre = path[st]
            elif st in par:
                pre = path["state_point_obs"] + [par[st]]
            else:
                continue
            w = [T[x] for x in pre] + [T[t]]
            j = len(w) - 1
            w += [0] * len(w)
            text, _ = render(w, tags, name)
            ls = text.split("\n")
            ls[j + 1] = ls[j + 1][:-1] + ' %s="%s">' % (a, attr_value(el, a))
            doc = "\n".join(ls)
            rc, out, err = run_gkf(exe, [("D", doc)])
            ln = ([l for l in out if l] or ["?"])[0]
            if ln.split()[0] != "ok" and UNDEF_ATTR.search(vlib_hex(ln.split()[3]) if len(ln.split()) > 3 else ""):
                found += 1
                ctx.violation({"kind": "K:gkf-attributes", "input": doc, "element": el, "attribute": a, "parser": ln, "broken": "C11_xsd_attribute_names_are_accepted"},
                              "xml/gama-local.xsd declares %s for <%s>, the parser refuses it: %s" % (a, el, vlib_hex(ln.split()[3])))
    return found


# ------------------------------------------------------------------------------------------------
# E: the executables under sanitizers

SAN_MARK = re.compile(r"AddressSanitizer|runtime error:|LeakSanitizer|UndefinedBehaviorSanitizer|SUMMARY: ")


ENCODINGS = [b"iso-8859-2", b"cp-1250", b"windows-1250", b"cp-1251", b"windows-1251", b"utf-8", b"us-ascii", b"iso-8859-1", b"utf-16", b"x-unknown"]


def mutate(rng, data):
    k = rng.randrange(10)
    n = len(data)
    if n == 0:
        return b"<"
    if k == 8:      # declare an encoding (the parsers install their own handler for the 8-bit ones) and use high bytes
        enc = rng.choice(ENCODINGS)
        body = re.sub(rb"^\s*<\?xml[^>]*\?>", b"", data, count=1)
        m = re.search(rb"<description>", body)
        hi = bytes(rng.choice([0xA0, 0xA1, 0xE1, 0xFF, 0x80, 0xC0, 0xB1]) for _ in range(rng.randrange(1, 6)))
        if m and rng.random() < 0.7:
            body = body[:m.end()] + hi + body[m.end():]
        return b'<?xml version="1.0" encoding="' + enc + b'"?>' + body
    if k == 9:      # one number more / less / garbled inside a covariance matrix
        ms = list(re.finditer(rb"<cov-mat[^>]*>([^<]*)</cov-mat>", data))
        if not ms:
            return data
        m = rng.choice(ms)
        toks = m.group(1).split()
        c = rng.randrange(4)
        if c == 0:
            toks.append(b"1.5")
        elif c == 1 and toks:
            toks.pop()
        elif c == 2 and toks:
            toks[rng.randrange(len(toks))] = rng.choice([b"x", b"-", b"1e999", b"nan", b"0", b"-1"])
        else:
            toks += [b"2.5"] * rng.randrange(2, 40)
        return data[:m.start(1)] + b" ".join(toks) + data[m.end(1):]
    if k == 0:      # truncation
        return data[:rng.randrange(n)]
    if k == 1:      # byte flip
        i = rng.randrange(n)
        return data[:i] + bytes([rng.randrange(256)]) + data[i + 1:]
    if k == 2:      # delete a span
        i = rng.randrange(n); j = min(n, i + rng.randrange(1, 40))
        return data[:i] + data[j:]
    if k == 3:      # duplicate a span
        i = rng.randrange(n); j = min(n, i + rng.randrange(1, 200))
        return data[:j] + data[i:j] + data[j:]
    if k == 4:      # hostile attribute value
        vals = [b'""', b'"-"', b'"+"', b'"1e999"', b'"nan"', b'"1e-999"', b'" "', b'"0"', b'"-1"', b'"99999999999999999999"', b'"1 2"', b'"&lt;"', b'"\xff"', b'"1.5.5"', b'"e5"', b'"0x10"']
        ms = list(re.finditer(rb'"[^"<>]*"', data))
        if not ms:
            return data
        m = rng.choice(ms)
        return data[:m.start()] + rng.choice(vals) + data[m.end():]
    if k == 5:      # swap two elements (lines)
        ls = data.split(b"\n")
        if len(ls) > 3:
            i, j = rng.randrange(len(ls)), rng.randrange(len(ls))
            ls[i], ls[j] = ls[j], ls[i]
        return b"\n".join(ls)
    if k == 6:      # remove an attribute
        ms = list(re.finditer(rb'\s[\w-]+="[^"]*"', data))
        if not ms:
            return data
        m = rng.choice(ms)
        return data[:m.start()] + data[m.end():]
    # change dim / band of a covariance matrix
    ms = list(re.finditer(rb'(dim|band)="(\d+)"', data))
    if not ms:
        return data
    m = rng.choice(ms)
    return data[:m.start(2)] + str(rng.choice([0, 1, 2, 3, 5, 50, 1000000])).encode() + data[m.end(2):]


def run_tool(cmd, timeout=120):
    try:
        p = subprocess.run(cmd, capture_output=True, timeout=timeout)
        return p.returncode, p.stdout.decode("latin-1"), p.stderr.decode("latin-1")
    except subprocess.TimeoutExpired:
        return 124, "", "timeout"


def classify(rc, out, err, what):
    """None if safe, else a description"""
    if rc == 124:
        return "%s does not terminate (120 s)" % what
    if rc < 0:
        return "%s killed by signal %d" % (what, -rc)
    if SAN_MARK.search(err) or SAN_MARK.search(out):
        m = SAN_MARK.search(err) or SAN_MARK.search(out)
        txt = (err if SAN_MARK.search(err) else out)
        return "%s: sanitizer report: %s" % (what, txt[m.start():m.start() + 300].replace("\n", " | "))
    return None


LOCATED = re.compile(r"(line|řád|Zeile|ligne|línea|rivi|sor|строк|рядк)\D{0,30}(\d+)", re.I)


def e_gama_local(ctx, bdir):
    rng = ctx.rng
    exe = os.path.join(bdir, "gama-local")
    files = [f for f in corpus_files() if os.path.getsize(f) < 60000]
    n = 60 if ctx.quick else 1200
    bad = 0
    opts_pool = [[], ["--algorithm", "envelope"], ["--algorithm", "svd"], ["--algorithm", "cholesky"], ["--algorithm", "gso"], ["--angular", "360"], ["--angular", "400"],
                 ["--latitude", "50"], ["--ellipsoid", "wgs84"], ["--cov-band", "0"], ["--cov-band", "-1"], ["--iterations", "0"], ["--iterations", "3"],
                 ["--language", "cz"], ["--language", "fr"], ["--encoding", "iso-8859-2"], ["--encoding", "cp-1250"], ["--export", "EXP"], ["--html", "HTM"], ["--svg", "SVG"],
                 ["--octave", "OCT"], ["--verbose", "no"], ["--latitude", "-91"], ["--ellipsoid", "nonsense"], ["--angular", "123"], ["--cov-band", "abc"]]
    for t in range(n):
        src = rng.choice(files)
        data = open(src, "rb").read()
        for _ in range(rng.choice([1, 1, 1, 2, 3])):
            data = mutate(rng, data)
        inp = os.path.join(ctx.scratch, "c11_%d.gkf" % t)
        open(inp, "wb").write(data)
        opts = []
        for o in rng.sample(opts_pool, rng.choice([0, 1, 2])):
            opts += [os.path.join(ctx.scratch, "c11_%d.%s" % (t, x.lower())) if x in ("EXP", "HTM", "SVG", "OCT") else x for x in o]
        cmd = [exe, inp, "--text", os.path.join(ctx.scratch, "c11_%d.txt" % t), "--xml", os.path.join(ctx.scratch, "c11_%d.xml" % t)] + opts
        rc, out, err = run_tool(cmd)
        ctx.count(("gama-local", data[:4000], tuple(opts)), nontrivial=True)
        ctx.hist("gama_local_exit", rc)
        why = classify(rc, out, err, "gama-local")
        # with --xml a refusal is reported inside the XML (exit status 0): well-formed, and a parser error carries its line
        xp = os.path.join(ctx.scratch, "c11_%d.xml" % t)
        if why is None and os.path.exists(xp) and os.path.getsize(xp) > 0:
            try:
                import xml.etree.ElementTree as ET
                root = ET.parse(xp).getroot()
                er = root.find("{http://www.gnu.org/software/gama/gama-local-adjustment}error")
                if er is not None:
                    cat = er.get("category")
                    ctx.hist("xml_error_category", cat)
                    ln = er.find("{http://www.gnu.org/software/gama/gama-local-adjustment}lineNumber")
                    descr = [d.text or "" for d in er.findall("{http://www.gnu.org/software/gama/gama-local-adjustment}description")]
                    if cat == "gamaLocalParserError" and (ln is None or int(ln.text or 0) < 1 or not any(x.strip() for x in descr[1:])):
                        why = "gama-local refuses the input without a located diagnostic (XML error document: line %s, text %r)" % (
                            ln.text if ln is not None else None, descr[1:])
                else:
                    ctx.hist("xml_error_category", "adjusted")
            except ET.ParseError as e:
                why = "the XML written for this input is not well-formed: %s" % e
        elif why is None and rc == 0 and "--help" in out and "--version" in out:
            ctx.hist("xml_error_category", "usage printed (bad option value)")
        elif why is None and rc == 0:
            why = "gama-local wrote no XML although --xml was given and the exit status is 0"
        if why is None and rc != 0:
            # refused: the diagnostic names a line, unless it is not about the input text at all
            txt = out + err
            if "XML" in txt and "0 :" in txt and re.search(r"number 0\s*:", txt):
                why = "gama-local refuses the input without a located diagnostic: %s" % txt.strip()[-200:]
        if why:
            bad += 1
            if bad <= 4:
                ctx.violation({"kind": "E:gama-local", "cmd": " ".join(cmd[1:]), "source": os.path.basename(src), "input": data.decode("latin-1"), "rc": rc,
                               "stderr": err[-2500:], "stdout": out[-500:]}, why)
        for f in glob.glob(os.path.join(ctx.scratch, "c11_%d.*" % t)):
            os.remove(f)
    ctx.obligation(bad == 0, "E:gama-local mutated inputs")


def e_command_lines(ctx, bdir):
    """every combination of command-line options: random argument vectors (known and unknown options, with and without their
    values, dangling at the end, repeated; with one, two or no input file, '-', --input-xml, a missing file, a directory):
    the program terminates without a signal or a sanitizer report"""
    rng = ctx.rng
    exe = os.path.join(bdir, "gama-local")
    # copies in the scratch directory: an input placed after an option that writes a file (--export, --text ...) is overwritten
    good = []
    for i, f in enumerate([f for f in corpus_files() if f.endswith(".gkf") and os.path.getsize(f) < 20000][:8]):
        g = os.path.join(ctx.scratch, "c11cl_in_%d.gkf" % i)
        shutil.copyfile(f, g)
        good.append(g)
    originals = [f for f in corpus_files() if f.endswith(".gkf") and os.path.getsize(f) < 20000][:8]
    sizes = [os.path.getsize(f) for f in originals]
    names = ["algorithm", "language", "encoding", "angular", "latitude", "ellipsoid", "text", "html", "xml", "octave", "svg", "obs", "cov-band", "iterations", "export",
             "verbose", "input-xml", "help", "version", "nonsense", "sqlitedb", "configuration", "readonly-configuration", "updated-xml"]
    values = ["gso", "svd", "envelope", "cholesky", "en", "cz", "utf-8", "400", "360", "50", "wgs84", "-1", "0", "3", "yes", "no", "abc", "", "-", "--", "1e999"]
    n = 150 if ctx.quick else 3000
    bad = 0
    for t in range(n):
        args = []
        k = rng.choice([0, 0, 1, 1, 1, 2])
        inputs = [rng.choice(good + ["-", os.path.join(ctx.scratch, "no-such-file.gkf"), ctx.scratch]) for _ in range(k)]
        for _ in range(rng.randrange(0, 5)):
            nm = rng.choice(names)
            args.append(rng.choice(["--", "-", "--", ""]) + nm)
            if rng.random() < 0.75:
                v = rng.choice(values)
                if nm in ("text", "html", "xml", "octave", "svg", "obs", "export", "updated-xml") and rng.random() < 0.7:
                    v = os.path.join(ctx.scratch, "c11cl_%d.%s" % (t, nm))
                elif nm == "input-xml" and rng.random() < 0.7:
                    v = rng.choice(good)
                args.append(v)
        for f in inputs:
            args.insert(rng.randrange(len(args) + 1), f)
        try:
            p = subprocess.run([exe] + args, capture_output=True, timeout=120, stdin=subprocess.DEVNULL, cwd=ctx.scratch)    # bare words become output files
            rc, out, err = p.returncode, p.stdout.decode("latin-1"), p.stderr.decode("latin-1")
        except subprocess.TimeoutExpired:
            rc, out, err = 124, "", "timeout"
        ctx.count(("cmdline", tuple(os.path.basename(a) for a in args)), nontrivial=True)
        ctx.hist("cmdline_inputs", len(inputs)); ctx.hist("cmdline_exit", rc)
        why = classify(rc, out, err, "gama-local")
        if why:
            bad += 1
            if bad <= 4:
                ctx.violation({"kind": "E:command-line", "cmd": "gama-local " + " ".join(args), "rc": rc, "stderr": err[-2500:], "stdout": out[-300:]},
                              "%s on the command line: gama-local %s" % (why, " ".join(os.path.basename(a) if a.startswith("/") else a for a in args)))
        for f in glob.glob(os.path.join(ctx.scratch, "c11cl_%d.*" % t)):
            os.remove(f)
        for i, g in enumerate(good):       # restore inputs a command line has overwritten
            if not os.path.exists(g) or os.path.getsize(g) != sizes[i]:
                shutil.copyfile(originals[i], g)
    ctx.obligation(bad == 0, "E:command lines")


def mutate_g3_structure(rng, data):
    """well-formed, schema-conforming changes of a gama-g3 input: a free point nobody observes, a removed observation block,
    a changed status, a duplicated point"""
    k = rng.randrange(4)
    if k == 0:
        m = re.search(rb"<obs>", data)
        if m:
            new = b"<free> <n/> <e/> <u/> </free>\n<point> <id>LONE%d</id> <x>3980000.0</x> <y>1030000.0</y> <z>4860000.0</z> </point>\n" % rng.randrange(100)
            return data[:m.start()] + new + data[m.start():]
    if k == 1:
        ms = list(re.finditer(rb"<obs>.*?</obs>\s*", data, re.S))
        if ms:
            for m in sorted(rng.sample(ms, min(len(ms), rng.randrange(1, 4))), key=lambda m: -m.start()):
                data = data[:m.start()] + data[m.end():]
            return data
    if k == 2:
        ms = list(re.finditer(rb"<(free|fixed|constr)>", data))
        if ms:
            m = rng.choice(ms)
            new = rng.choice([b"free", b"fixed", b"constr"])
            e = data.find(b"</" + m.group(1) + b">", m.end())
            if e > 0:
                return data[:m.start(1)] + new + data[m.end(1):e + 2] + new + data[e + 2 + len(m.group(1)):]
    ms = list(re.finditer(rb"<point>.*?</point>\s*", data, re.S))
    if ms:
        m = rng.choice(ms)
        return data[:m.end()] + m.group(0) + data[m.end():]
    return data


def e_other_readers(ctx, bdir):
    """gama-g3's DataParser and the adjustment-results reader (gama-local-deformation) on mutated inputs"""
    rng = ctx.rng
    bad = 0
    g3files = [f for f in sorted(glob.glob(os.path.join(vlib.REPO, "tests/gama-g3/input/*.xml"))) if os.path.getsize(f) < 200000]
    g3 = os.path.join(bdir, "gama-g3")
    n = 25 if ctx.quick else 500
    for t in range(n):
        src = rng.choice(g3files)
        data = open(src, "rb").read()
        if t % 3 == 0:
            data = mutate_g3_structure(rng, data)
        if t % 3 != 0 or rng.random() < 0.3:
            for _ in range(rng.choice([1, 1, 2])):
                data = mutate(rng, data)
        inp = os.path.join(ctx.scratch, "c11g_%d.xml" % t)
        open(inp, "wb").write(data)
        rc, out, err = run_tool([g3, inp, os.path.join(ctx.scratch, "c11g_%d.out" % t)])
        ctx.count(("gama-g3", data[:4000]), nontrivial=True)
        ctx.hist("gama_g3_exit", rc)
        why = classify(rc, out, err, "gama-g3")
        if why:
            bad += 1
            if bad <= 3:
                ctx.violation({"kind": "E:gama-g3", "source": os.path.basename(src), "input": data.decode("latin-1"), "rc": rc, "stderr": err[-2500:]}, why)
        for f in glob.glob(os.path.join(ctx.scratch, "c11g_%d.*" % t)):
            os.remove(f)
    # adjustment results: produce two with the plain gama-local, mutate one, feed gama-local-deformation
    defo = os.path.join(bdir, "gama-local-deformation")
    gl = os.path.join(bdir, "gama-local")
    srcs = [f for f in corpus_files() if os.path.getsize(f) < 20000][:6]
    adj = []
    for i, f in enumerate(srcs):
        o = os.path.join(ctx.scratch, "c11adj_%d.xml" % i)
        rc, out, err = run_tool([gl, f, "--xml", o])
        if rc == 0 and os.path.exists(o):
            adj.append(o)
    if os.path.exists(defo) and adj:
        for t in range(n):
            a = rng.choice(adj)
            data = open(a, "rb").read()
            for _ in range(rng.choice([1, 1, 2])):
                data = mutate(rng, data)
            inp = os.path.join(ctx.scratch, "c11d_%d.xml" % t)
            open(inp, "wb").write(data)
            rc, out, err = run_tool([defo, a, inp, "--text", os.path.join(ctx.scratch, "c11d_%d.txt" % t)])
            ctx.count(("deformation", data[:4000]), nontrivial=True)
            ctx.hist("deformation_exit", rc)
            why = classify(rc, out, err, "gama-local-deformation")
            if why:
                bad += 1
                if bad <= 3:
                    ctx.violation({"kind": "E:adjustment-results-reader", "input": data.decode("latin-1"), "first": os.path.basename(a), "rc": rc, "stderr": err[-2500:]}, why)
            for f in glob.glob(os.path.join(ctx.scratch, "c11d_%d.*" % t)):
                os.remove(f)
    ctx.obligation(bad == 0, "E:g3 and adjustment-results readers on mutated inputs")


def e_g3_reflow(ctx, bdir):
    """formatting independence of the table-driven DataParser: the same g3 document with a line break after every tag and around
    every text node (gama-g3 feeds its parser line by line, the state is inspected after every chunk) must get the same verdict"""
    rng = ctx.rng
    g3 = os.path.join(bdir, "gama-g3")
    files = [f for f in sorted(glob.glob(os.path.join(vlib.REPO, "tests/gama-g3/input/*.xml"))) if 0 < os.path.getsize(f) < 200000]
    docs = [open(f, "rb").read() for f in files]
    # the ellipsoid given by its axes, by the flattening and by name; constants in every documented form
    base = b'<?xml version="1.0" ?>\n<gnu-gama-data xmlns="http://www.gnu.org/software/gama/gnu-gama-data">\n<g3-model>\n<constants>\n' \
           b'<apriori-standard-deviation>10</apriori-standard-deviation> <confidence-level>0.95</confidence-level> <angular-units-gons/>\n%s\n</constants>\n' \
           b'<fixed><n/><e/><u/></fixed>\n<point><id>A</id><x>3980000</x><y>1000000</y><z>4860000</z></point>\n' \
           b'<free><n/><e/><u/></free>\n<point><id>B</id><x>3980100</x><y>1000050</y><z>4860020</z></point>\n' \
           b'<obs><vector><from>A</from><to>B</to><dx>100.001</dx><dy>50.002</dy><dz>20.003</dz></vector>\n' \
           b'<cov-mat><dim>3</dim><band>0</band><flt>1</flt><flt>1</flt><flt>1</flt></cov-mat></obs>\n' \
           b'<obs><distance><from>A</from><to>B</to><val>113.58</val><stdev>5</stdev></distance></obs>\n</g3-model>\n</gnu-gama-data>\n'
    for ell in (b"<ellipsoid><id>wgs84</id></ellipsoid>", b"<ellipsoid><a>6378137</a><b>6356752.31425</b></ellipsoid>",
                b"<ellipsoid><a>6378137</a><inv-f>298.257223563</inv-f></ellipsoid>", b"<ellipsoid></ellipsoid>", b""):
        docs.append(base % ell)
    bad = 0
    for k, d in enumerate(docs):
        variants = {"original": d, "one-tag-per-line": re.sub(rb">\s*<", b">\n<", d), "text-on-own-lines": re.sub(rb">([^<>\n]+)<", rb">\n\1\n<", re.sub(rb">\s*<", b">\n<", d)),
                    "single-line": re.sub(rb"\s*\n\s*", b" ", d)}
        res = {}
        for name, v in variants.items():
            inp = os.path.join(ctx.scratch, "c11r_%d_%s.xml" % (k, name))
            out = inp + ".out"
            open(inp, "wb").write(v)
            rc, so, se = run_tool([g3, inp, out])
            why = classify(rc, so, se, "gama-g3")
            located = not re.search(r"on line 0 ", so + se)
            res[name] = (rc, os.path.exists(out) and os.path.getsize(out) > 0, why, located, (so + se).strip()[-200:])
            ctx.count(("g3-reflow", v[:3000], name), nontrivial=True)
            for f in (inp, out):
                if os.path.exists(f):
                    os.remove(f)
        r0 = res["original"]
        for name, r in res.items():
            why = r[2]
            if why is None and (r[0] != 0) != (r0[0] != 0):
                why = "gama-g3 %s the document when it is written %s but %s the original layout: %s" % (
                    "refuses" if r[0] else "accepts", name, "accepts" if not r0[0] else "refuses", (r[4] or r0[4]))
            if why is None and r[0] != 0 and not r[3]:
                why = "gama-g3 refuses the document (%s) without a located diagnostic: %s" % (name, r[4])
            if why:
                bad += 1
                if bad <= 3:
                    ctx.violation({"kind": "E:g3-layout", "input": variants[name].decode("latin-1"), "layout": name, "results": {n: list(x) for n, x in res.items()}}, why)
                break
    ctx.obligation(bad == 0, "E:g3 layout independence")


def run(ctx):
    sys.path.insert(0, os.path.join(vlib.VERIF, "tools"))
    ctx.assumptions += [
        'translators tools/gkf_translate.py and tools/dp_translate.py (C++ text -> GkfGen.v / DpGen.v) are trusted to read the tables correctly; K compares the regenerated GKF automaton with the running parser on every enumerated document',
        'memory safety and termination are observed under ASan+UBSan on the generated inputs, not proved; expat is trusted; attribute values and covariance contents are checked by the handlers, covered by K/E only',
        'events delivered by expat for a well-formed document are modelled as open / close / non-blank text',
    ]
    import gkf_translate
    translated = True
    try:
        txt = gkf_translate.emit(gkf_translate.translate(vlib.REPO))
        p = os.path.join(vlib.COQ, "GkfGen.v")
        if not os.path.exists(p) or open(p).read() != txt:
            open(p, "w").write(txt)
        ctx.checker_cmds.append("python3 tools/gkf_translate.py /repo coq/GkfGen.v")
    except gkf_translate.TranslateError as e:
        translated = False
        ctx.obligation(False, "translator")
        ctx.log("translator: %s" % e)
        ctx.translator_error = str(e)
    ctx.obligation(translated, "translator gkfparser.cpp -> GkfGen.v")
    import dp_translate
    try:
        t2 = dp_translate.translate(vlib.REPO)
        txt2 = dp_translate.emit(t2)
        p2 = os.path.join(vlib.COQ, "DpGen.v")
        if not os.path.exists(p2) or open(p2).read() != txt2:
            open(p2, "w").write(txt2)
        ctx.checker_cmds.append("python3 tools/dp_translate.py /repo coq/DpGen.v")
        ctx.extra["dataparser_tables"] = {"states": len(t2["states"]), "tags": len(t2["tags"]), "transitions": len(t2["next"]), "init_calls": t2["ninit"],
                                          "init_into_error": t2["enters_error"], "after_overwritten": t2["overwritten"][:10]}
        ctx.obligation(True, "translator dataparser*.cpp -> DpGen.v")
    except gkf_translate.TranslateError as e:
        translated = False
        ctx.obligation(False, "translator dataparser*.cpp -> DpGen.v")
        ctx.translator_error = "DataParser: " + str(e)
    proofs_ok = ctx.check_proofs(extra_files=["GkfRun"], report=False) if translated else False
    exe = vlib.compile_harness("harness/gkf.cpp", link_gama=True, sanitize=True)
    v0 = ctx.violations
    accepted_docs = k_events(ctx, exe, proofs_ok) or []
    k_attributes(ctx, exe)
    if not proofs_ok:
        xsd_attribute_witnesses(ctx, exe)
    k_chunks(ctx, exe, accepted_docs)
    k_encodings(ctx, exe)
    k_dataparser_chunks(ctx)
    c18.k_literals(ctx)
    bdir = vlib.build_repo(sanitize=True)
    e_gama_local(ctx, bdir)
    e_command_lines(ctx, bdir)
    e_other_readers(ctx, bdir)
    e_g3_reflow(ctx, bdir)
    if not translated or not proofs_ok:
        what = ("translator: " + getattr(ctx, "translator_error", "?")) if not translated else getattr(ctx, "broken_theorem", "?")
        if ctx.violations == v0:
            ctx.violation({"kind": "theorem", "broken": what}, "proof obligation no longer checks and no failing input was found: " + what, no_input=True)
        else:
            ctx.log("proof obligation broken (%s); failing inputs reported above" % what)
    return ctx.finish(rule="(K) all well-formed open/close/text event sequences: model-accepted prefixes up to the bound, extended by any event over the 20 tags + an "
                           "unknown tag, completed by end tags, rendered with valid attributes (one case = one document); every two-chunk split of corpus and generated "
                           "documents; literals exhaustively over a 9-character alphabet.  (E) mutated (truncation, byte flip, span delete/duplicate, hostile attribute "
                           "values, swapped lines, removed attributes, dim/band changes) files of tests/gama-local/input and tests/gama-g3/input and mutated adjustment "
                           "results, random option combinations, under ASan+UBSan; distinct by content")
