"""C18 -- geodetic primitives round-trip: ellipsoidal coordinates, angles, bearings.

proof:  coq/Properties_C18.v: bearing antisymmetry / consistency, geodetic->Cartesian lies on the ellipsoid, exact height
        recovery, sexagesimal field ranges by integer decomposition, literal recogniser refutation (pinned) / example (fixed)
K:      IsFloat / IsInteger exhaustively on all strings of length<=6 (quick 4) over {+,-,.,e,E,0,5,' ',x} against the
        Coq recognisers (coq/Strings.v), compared inside coqc
oracle: on the rebuilt functions: blh->xyz->blh on every ellipsoid of the table (poles, antimeridian, -10 km..2e7 m),
        gon2deg field ranges / deg2gon(gon2deg(x)) within the printed precision, dms2rad/rad2dms, bearing_distance
"""
import math, re
import vlib

LIT_ALPHA = bytes([0x2b, 0x2d, 0x2e, 0x65, 0x45, 0x30, 0x35, 0x20, 0x78])


def hx(v):
    return float(v).hex()


def k_literals(ctx):
    exe = vlib.compile_harness("harness/strings.cpp", extra_src=["lib/gnu_gama/xml/str2xml.cpp"])
    maxlen = 4 if ctx.quick else 5
    inp = "enum isfloat %s %d\nenum isinteger %s %d\n" % (LIT_ALPHA.hex(), maxlen, LIT_ALPHA.hex(), maxlen)
    rc, out, err = vlib.sh([exe], inp=inp, timeout=300)
    lines = out.split("\n")
    if rc != 0 or len(lines) < 2:
        ctx.violation({"kind": "K:literals", "stderr": err[-500:]}, "strings harness failed", no_input=True)
        return
    nstr = len(lines[0])
    bad_all = []
    for fn, bits, model in (("isfloat", lines[0], "is_float"), ("isinteger", lines[1], "is_integer")):
        # transport: bit i of the number = result for string i
        num = int(bits[::-1], 2) if bits else 0
        v = "From Coq Require Import List NArith.\nFrom Gama Require Import Strings StringsRun.\nImport ListNotations.\n" \
            "Definition alpha : str := [%s]%%N.\n" % "; ".join(str(c) for c in LIT_ALPHA) + \
            'Goal True. idtac "@@LIT". Abort.\n' \
            "Eval vm_compute in mismatches %s (strings_upto alpha %d) 0x%x%%N.\n" % (model, maxlen, num)
        rc, cout = vlib.coq_run(v, ctx.scratch, name="cases_c18_%s" % fn, timeout=1200)
        lst = vlib.parse_coq_list(cout, "@@LIT")
        ctx.checker_cmds.append("coqc -Q coq Gama cases_c18_%s.v" % fn)
        ok = rc == 0 and lst == []
        ctx.obligation(ok, "K:%s exhaustive" % fn)
        if rc != 0 or lst is None:
            ctx.log(cout[-600:])
            ctx.violation({"kind": "K:literals", "broken": "cases file did not evaluate", "tail": cout[-400:]}, "cases file failed", no_input=True)
        elif lst:
            bad_all.append((fn, bits, [int(x.replace("%N", "")) for x in lst]))
    ctx.count(("literals", maxlen), nontrivial=True, n=2 * nstr)
    ctx.extra["exhaustive_literals"] = {"alphabet": LIT_ALPHA.decode(), "maxlen": maxlen, "strings": nstr}
    # enumerate the strings in the harness order to name the failing ones
    if bad_all:
        strs = [b""]
        start = 0
        for ln in range(1, maxlen + 1):
            end = len(strs)
            strs.extend([bytes([c]) + strs[i] for c in LIT_ALPHA for i in range(start, end)])
            start = end
        flt = re.compile(rb"^[ \t\n\r\f\v]*[+-]?(\d+\.?\d*|\.\d+)([eE][+-]?\d+)?[ \t\n\r\f\v]*$")
        itg = re.compile(rb"^[ \t\n\r\f\v]*[+-]?\d+[ \t\n\r\f\v]*$")
        for fn, bits, idxs in bad_all:
            rx = flt if fn == "isfloat" else itg
            found = None
            for i in idxs:
                acc = bits[i] == "1"
                if acc != bool(rx.match(strs[i])):
                    found = (strs[i], acc)
                    break
            if found:
                ctx.violation({"kind": "K:literals", "function": fn, "string": found[0].decode("latin-1"), "accepted": found[1]},
                              "%s(%r) = %s, the documented literal format says otherwise" % (fn, found[0], found[1]))
            else:
                ctx.violation({"kind": "K:literals", "broken": "correspondence K:%s (Strings.v vs intfloat.h)" % fn, "indices": idxs[:10],
                               "strings": [strs[i].decode("latin-1") for i in idxs[:10]]},
                              "recogniser model and implementation disagree, the implementation agrees with the documented format", no_input=True)


def oracle_geo(ctx):
    exe = vlib.compile_harness("harness/geo.cpp", extra_src=["lib/gnu_gama/ellipsoid.cpp", "lib/gnu_gama/ellipsoids.cpp", "lib/gnu_gama/gon2deg.cpp",
                                                              "lib/gnu_gama/local/bearing.cpp"])
    rng = ctx.rng
    rc, out, err = vlib.sh([exe], inp="ellcount\n", timeout=60)
    nell = int(out.split()[0])
    q = []
    lats = [-90, -89.9999, -60, -45, -30, -1e-7, 0, 1e-7, 15, 30, 45, 60, 75, 89.9999, 90] + [rng.uniform(-90, 90) for _ in range(10 if ctx.quick else 60)]
    lons = [-179.9999999, -120, -90, -1e-9, 0, 1e-9, 45, 90, 135, 179.9999999, 180] + [rng.uniform(-180, 180) for _ in range(4 if ctx.quick else 20)]
    hs = [-10000, -100, 0, 1, 500, 8848, 1e5, 1e6, 6378137 * 2, 2e7]
    for e in range(1, nell + 1):
        for b in lats:
            for l in (lons if (e % 7 == 0 or not ctx.quick) else lons[::3]):
                for h in (hs if (b in (-90, 90, 45) or not ctx.quick) else hs[::3]):
                    q.append(("ell", e, math.radians(b), math.radians(l), h))
    inp = "".join("ell %d %s %s %s\n" % (e, hx(b), hx(l), hx(h)) for _, e, b, l, h in q)
    rc, out, err = vlib.sh([exe], inp=inp, timeout=600)
    lines = out.split("\n")[:-1]
    bad = 0
    for (_, e, b, l, h), ln in zip(q, lines):
        w = [float.fromhex(t) for t in ln.split()]
        x, y, z, b2, l2, h2, A, B = w
        ctx.count(("ell", e, b, l, h), nontrivial=True)
        ctx.hist("ellipsoid", e)
        # documented bound of the closed formula: 0.0018" at H = 2a; sub-millimetre near the surface
        tol_b = 2e-11 if abs(h) <= 1e5 else 1e-8
        tol_h = 1e-4 if abs(h) <= 1e5 else 2e-2
        dl = abs((l2 - l + math.pi) % (2 * math.pi) - math.pi)
        pole = abs(abs(b) - math.pi / 2) < 1e-9
        why = None
        if any(math.isnan(v) or math.isinf(v) for v in w):
            why = "non-finite result"
        elif abs(b2 - b) > tol_b:
            why = "latitude off by %.3e rad" % (b2 - b)
        elif not pole and dl * math.cos(b) > 2e-11:
            why = "longitude off by %.3e rad" % dl
        elif abs(h2 - h) > tol_h:
            why = "height off by %.3e m" % (h2 - h)
        if why:
            bad += 1
            if bad <= 3:
                ctx.violation({"kind": "oracle:ellipsoid", "ellipsoid_id": e, "b": b, "l": l, "h": h, "xyz": [x, y, z], "back": [b2, l2, h2], "oracle": why},
                              "ellipsoid %d: blh->xyz->blh of (%.9f, %.9f, %.3f): %s" % (e, b, l, h, why))
    ctx.obligation(bad == 0, "oracle:ellipsoid round trip")
    # K: the same cases against the binary64 transliteration coq/EllRun.v (blh2xyz on the inputs, xyz2blh on the implementation's
    # own x, y, z), judged in coqc
    terms = []
    cap = 1500 if ctx.quick else 9000            # evenly spaced sample of the round-trip cases (thorough has > 10^6 of them)
    ksel = list(range(0, len(lines), max(1, len(lines) // cap)))
    for k in ksel:
        (_, e, b, l, h) = q[k]
        t = lines[k].split()
        if len(t) != 8:
            continue
        terms.append("(%s, %s, (%s, %s, %s), (%s, %s, %s), (%s, %s, %s))" % (
            vlib.hexfloat(float.fromhex(t[6])), vlib.hexfloat(float.fromhex(t[7])), vlib.hexfloat(b), vlib.hexfloat(l), vlib.hexfloat(h),
            vlib.hexfloat(float.fromhex(t[0])), vlib.hexfloat(float.fromhex(t[1])), vlib.hexfloat(float.fromhex(t[2])),
            vlib.hexfloat(float.fromhex(t[3])), vlib.hexfloat(float.fromhex(t[4])), vlib.hexfloat(float.fromhex(t[5]))))
    kbad = []
    shard = 1500
    for s0 in range(0, len(terms), shard):
        v = "From Coq Require Import List Floats NArith.\nFrom Gama Require Import EllRun.\nImport ListNotations.\nLocal Open Scope float_scope.\n" \
            "Definition cases := [\n%s\n].\n" % ";\n".join(terms[s0:s0 + shard]) + 'Goal True. idtac "@@ELL". Abort.\nEval vm_compute in bad_ell cases.\n'
        rc, cout = vlib.coq_run(v, ctx.scratch, name="cases_c18_ell_%d" % s0, timeout=900)
        lst = vlib.parse_coq_list(cout, "@@ELL")
        ctx.checker_cmds.append("coqc -Q coq Gama cases_c18_ell_%d.v" % s0)
        ctx.obligation(rc == 0 and lst == [], "K:ellipsoid shard %d" % s0)
        if rc != 0 or lst is None:
            ctx.violation({"kind": "K:ellipsoid", "broken": "cases file did not evaluate", "tail": cout[-600:]}, "cases file failed", no_input=True)
        else:
            kbad += [ksel[s0 + int(x.replace("%N", ""))] for x in lst]
    for k in kbad[:3]:
        (_, e, b, l, h) = q[k]
        # the round-trip oracle above accepted this case: model and code differ, the property's oracle sees no failure
        ctx.violation({"kind": "K:ellipsoid", "ellipsoid_id": e, "b": b, "l": l, "h": h, "implementation": lines[k],
                       "broken": "correspondence K:EllRun.blh2xyz / xyz2blh vs GNU_gama::Ellipsoid"},
                      "model and implementation of the ellipsoid conversions disagree (ellipsoid %d, b %.9f, l %.9f, h %.3f)" % (e, b, l, h), no_input=(bad == 0))
    # ---- angles ----
    gons = [0, 1e-9, 1.1111111, 0.00005, 99.99999999, 100, 199.99999, 200, 399.9999999, 63.9347, 1.0 / 0.9, 59.99999 / 0.9, 0.9999999999 / 0.9]
    gons += [rng.uniform(0, 400) for _ in range(300 if ctx.quick else 5000)]
    gons += [k / 0.9 + d for k in (1, 17, 359) for d in (-1e-9, 0, 1e-9)] + [(k + 59.999999 / 60) / 0.9 for k in range(0, 360, 37)]
    gons += [-g for g in gons[:80]]
    aq = []
    for g in gons:
        for sign in (0, 1, 2, 3):
            for prec in (0, 1, 2, 4, 6):
                if g < 0 and sign == 0:
                    continue
                aq.append((g, sign, prec))
    inp = "".join("g2d %s %d %d\n" % (hx(g), s, p) for g, s, p in aq)
    rc, out, err = vlib.sh([exe], inp=inp, timeout=600)
    strs = [bytes.fromhex(l) if l != "-" else b"" for l in out.split("\n")[:-1]]
    inp2 = "".join("d2g %s\n" % (s.strip().hex() or "-") for s in strs)
    rc, out2, err = vlib.sh([exe], inp=inp2, timeout=600)
    backs = out2.split("\n")[:-1]
    bad = 0
    for (g, sign, prec), s, bk in zip(aq, strs, backs):
        ctx.count(("g2d", g, sign, prec), nontrivial=True)
        m = re.match(rb"^\s*(-?)\s*(\d+)-(\d\d)-(\d+(?:\.\d+)?)$", s)
        why = None
        if not m:
            why = "output %r is not d-mm-ss[.s]" % s
        else:
            mm, ss = int(m.group(3)), float(m.group(4))
            if mm >= 60 or ss >= 60:
                why = "field out of range in %r" % s
            elif not bk.startswith("ok"):
                why = "deg2gon rejects gon2deg's own output %r" % s
            else:
                g2 = float.fromhex(bk.split()[1])
                tolg = (0.5 * 10 ** -prec) / 3600 / 0.9 * 1.0001 + 1e-12
                if abs(abs(g2) - abs(g)) > tolg or (g2 != 0 and g != 0 and (g2 < 0) != (g < 0) and sign != 0):
                    why = "deg2gon(gon2deg(%.10f)) = %.10f differs by more than the printed precision" % (g, g2)
        if why:
            bad += 1
            if bad <= 3:
                ctx.violation({"kind": "oracle:angles", "gon": g, "sign": sign, "prec": prec, "string": s.decode("latin-1"), "oracle": why}, "gon2deg(%r,%d,%d): %s" % (g, sign, prec, why))
    ctx.obligation(bad == 0, "oracle:gon2deg/deg2gon")
    # literal d-m-s strings
    lits = {"57-32-28.428": 63.9347, "-0-30-00": -0.5 / 0.9, "+10-00-00": 10 / 0.9, "0-00-00": 0.0, " 12-30-00.5 ": (12.5 + 0.5 / 3600) / 0.9,
            "12-30": None, "12-30-": None, "12--30-10": None, "a-b-c": None, "": None, "-": None, "12-30-10x": None, "1 2-30-10": None, "12-30-1e1": (12.5 + 10 / 3600) / 0.9,
            # "optional leading sign" (doc/gama-local-input.texi): one sign
            "-+5-00-00": None, "+-5-00-00": None, "--5-00-00": None, "++5-00-00": None, "-5-00-00": -5 / 0.9,
            # gon2deg(x, 1, p) itself pads with blanks after the sign: that form must keep reading back
            "-  5-00-00": -5 / 0.9}
    inp = "".join("d2g %s\n" % (k.encode().hex() or "-") for k in lits)
    rc, out, err = vlib.sh([exe], inp=inp, timeout=60)
    for (k, want), ln in zip(lits.items(), out.split("\n")):
        got = float.fromhex(ln.split()[1]) if ln.startswith("ok") else None
        ctx.count(("d2g", k), nontrivial=True)
        if (want is None) != (got is None) or (want is not None and abs(got - want) > 1e-9):
            ctx.violation({"kind": "oracle:deg2gon", "string": k, "got": got, "expected": want}, "deg2gon(%r) = %s, expected %s" % (k, got, want))
    # dms2rad / rad2dms
    vals = [rng.uniform(0, 6.28) for _ in range(200)] + [0.0, 1.0, math.pi, 2 * math.pi - 1e-9]
    inp = "".join("rad2dms %s\n" % hx(v) for v in vals)
    rc, out, err = vlib.sh([exe], inp=inp, timeout=60)
    dms = [float.fromhex(l) for l in out.split("\n")[:-1]]
    inp = "".join("dms2rad %s\n" % hx(v) for v in dms)
    rc, out, err = vlib.sh([exe], inp=inp, timeout=60)
    back = [float.fromhex(l) for l in out.split("\n")[:-1]]
    bad = 0
    for v, dv, bv in zip(vals, dms, back):
        ctx.count(("dms", v), nontrivial=True)
        mmss = (dv - int(dv)) * 100
        if not (int(mmss + 1e-9) < 60) or abs((bv - v + math.pi) % (2 * math.pi) - math.pi) > 1e-9:
            bad += 1
            if bad <= 2:
                ctx.violation({"kind": "oracle:dms", "rad": v, "dms": dv, "back": bv}, "dms2rad(rad2dms(%.12f)) = %.12f (dms %.10f)" % (v, bv, dv))
    ctx.obligation(bad == 0, "oracle:dms round trip")
    # bearings
    pts = [(rng.uniform(-1e3, 1e3), rng.uniform(-1e3, 1e3), rng.uniform(-1e3, 1e3), rng.uniform(-1e3, 1e3)) for _ in range(300)]
    pts += [(0, 0, 1, 0), (0, 0, 0, 1), (0, 0, -1, 0), (0, 0, 0, -1), (5, 5, 5, 5), (1e6, 1e6, 1e6 + 1e-3, 1e6), (0, 0, 1, 1e-12), (0, 0, 1, -1e-12)]
    inp = "".join("bd %s %s %s %s\nbd %s %s %s %s\n" % (hx(ya), hx(xa), hx(yb), hx(xb), hx(yb), hx(xb), hx(ya), hx(xa)) for (ya, xa, yb, xb) in pts)
    rc, out, err = vlib.sh([exe], inp=inp, timeout=60)
    ls = out.split("\n")[:-1]
    bad = 0
    for i, (ya, xa, yb, xb) in enumerate(pts):
        b1, d1 = [float.fromhex(t) for t in ls[2 * i].split()]
        b2, d2 = [float.fromhex(t) for t in ls[2 * i + 1].split()]
        ctx.count(("bd", ya, xa, yb, xb), nontrivial=True)
        dx, dy = xb - xa, yb - ya
        why = None
        if math.hypot(dx, dy) < 1e-6:
            if (b1, d1) != (0.0, 0.0):
                why = "coincident points must give (0,0)"
        else:
            if not (0 <= b1 < 2 * math.pi):
                why = "bearing %.15g outside [0,2pi)" % b1
            elif abs(d1 - d2) > 1e-12 * max(1, d1):
                why = "distance not symmetric"
            elif abs(((b2 - b1 - math.pi) + math.pi) % (2 * math.pi) - math.pi) > 1e-12:
                why = "bearing not antisymmetric: %.15g vs %.15g" % (b1, b2)
            elif abs(d1 * math.cos(b1) - dx) > 1e-9 * max(1, d1) or abs(d1 * math.sin(b1) - dy) > 1e-9 * max(1, d1):
                why = "bearing/distance inconsistent with the coordinate differences"
        if why:
            bad += 1
            if bad <= 2:
                ctx.violation({"kind": "oracle:bearing", "points": [ya, xa, yb, xb], "ab": [b1, d1], "ba": [b2, d2], "oracle": why}, "bearing_distance: " + why)
    ctx.obligation(bad == 0, "oracle:bearing")
    ctx.sample({"ellipsoid_query": list(q[5][1:]), "gon2deg": [aq[10], strs[10].decode("latin-1")]})


def run(ctx):
    ctx.check_proofs(extra_files=["StringsRun", "EllRun"])
    k_literals(ctx)
    oracle_geo(ctx)
    return ctx.finish(rule="literals: exhaustive over a 9-character alphabet; ellipsoid: every ellipsoid of the table x latitudes incl. poles x longitudes incl. "
                           "+-180 x heights -10 km..2e7 m; angles: random and boundary gon values x 4 sign modes x 5 precisions; bearings: random pairs and axis-aligned "
                           "/ coincident ones; every query is a case")
