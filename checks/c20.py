"""C20 -- ill-posed networks are diagnosed, identically for every algorithm.

proof:  coq/Properties_C20.v: a regularisation that does not resolve the defect admits no unique solution (two different
        minimisers with the same selected norm), removing null directions...; rank facts used by the oracle are evaluated
        exactly in the reference model (QLsq.adjust returns BadRegularization iff G'SG is singular)
K:      harness/lnet.cpp on generated ill-posed networks: the unknowns flagged by lindep() are checked against the exact
        rank of the implementation's own project equations (fractions): count = defect, removing them gives full rank;
        solver level: non-resolving subsets raise BadRegularization in all four algorithms (as C02)
E:      gama-local: planted deficiencies (too few constraints, non-spanning constraints, disconnected free parts, single
        determining elements) x constraint subsets x 4 algorithms: all refuse or all adjust, same removed points, same
        results for the rest, no nan/inf anywhere in the outputs
"""
import copy, math, os, re
from fractions import Fraction
import vlib
from checks import enet, solver, c05
from tools import gama, netgen


def plant(rng, dim, force=None, force_ang=None):
    """returns (net, truth, meta, expectation) ; expectation in {'adjust', 'refuse', 'either'}"""
    kind = force or rng.choice(["few-constraints", "non-spanning", "disconnected-free-part", "single-element", "no-datum", "sufficient", "collinear-datum"] +
                      (["point-on-line", "point-on-line"] if dim == 2 else []))
    if kind == "point-on-line":
        # a point a centimetre off the line between two fixed points, tied by the two distances only: practically
        # undetermined across the line (standard deviation far beyond 10 m) - must be reported as indeterminable
        net, truth, meta = netgen.make_network(rng, dim=2, n=rng.randint(4, 5), n_fixed=2, datum="fixed")
        ids = [p["id"] for p in net["points"]]
        A, B = truth[ids[0]], truth[ids[1]]
        ang = force_ang if force_ang is not None else rng.choice([0.0, math.pi / 2, rng.uniform(0, math.pi)])
        # place two NEW fixed points so that the line has the chosen direction
        F1 = (3000.0, 5000.0, 0.0)
        F2 = (3000.0 + 200.0 * math.cos(ang), 5000.0 + 200.0 * math.sin(ang), 0.0)
        G = (3000.0 + 100.0 * math.cos(ang) - 0.01 * math.sin(ang), 5000.0 + 100.0 * math.sin(ang) + 0.01 * math.cos(ang), 0.0)
        truth.update({"F1": F1, "F2": F2, "G": G})
        net["points"] += [{"id": "F1", "x": F1[0], "y": F1[1], "fix": "xy"}, {"id": "F2", "x": F2[0], "y": F2[1], "fix": "xy"}, {"id": "G", "x": G[0], "y": G[1], "adj": "xy"}]
        for f in ("F1", "F2"):
            ob = {"t": "distance", "to": "G", "stdev": 5.0}
            ob["val"] = netgen.obs_value(ob, truth, 0.0, f)
            net["clusters"].append({"kind": "obs", "from": f, "obs": [ob]})
        meta["planted"] = kind
        return net, truth, meta, "either"
    n = rng.randint(4, 6)
    if kind in ("few-constraints", "non-spanning", "sufficient", "collinear-datum", "no-datum"):
        net, truth, meta = netgen.make_network(rng, dim=dim, n=n, n_fixed=n, datum="free")
        ids = [p["id"] for p in net["points"]]
        a = {1: "z", 2: "xy", 3: "xyz"}[dim]
        for p in net["points"]:
            p["adj"] = a
        if kind == "few-constraints":
            if dim != 1:
                net["points"][0]["adj"] = a.upper()      # one point: 2 (3) constraints < defect 3 (4)
                # with a single constrained point the rotation is free
            exp = "refuse" if dim != 1 else "refuse"
            if dim == 1:
                exp = "refuse"                            # no constrained height at all
        elif kind == "no-datum":
            exp = "refuse"
        elif kind == "sufficient":
            for p in rng.sample(net["points"], {1: 1, 2: 2, 3: 2}[dim]):
                p["adj"] = a.upper()
            exp = "adjust"
        elif kind == "non-spanning":
            if dim == 1:
                exp = "refuse"
            else:
                # only x constrained... not expressible per coordinate in 2D (xy come together); use z-only constraints in 3D
                if dim == 3:
                    for p in net["points"][:3]:
                        p["adj"] = "xyZ"
                    exp = "refuse"
                else:
                    net["points"][0]["adj"] = "XY"
                    exp = "refuse"
        else:  # collinear datum does resolve a 2D defect: still fine
            for p in net["points"][:2]:
                p["adj"] = a.upper()
            exp = "adjust"
    elif kind == "disconnected-free-part":
        net, truth, meta = netgen.make_network(rng, dim=dim, n=n, n_fixed={1: 1, 2: 2, 3: 2}[dim], datum="fixed")
        # a second, free, component with no link to the first
        ids2 = ["Q%d" % i for i in range(1, 4)]
        net2, truth2, meta2 = netgen.make_network(rng, dim=dim, n=3, n_fixed=3, datum="free", ids=ids2)
        a = {1: "z", 2: "xy", 3: "xyz"}[dim]
        for p in net2["points"]:
            p["adj"] = a
        net["points"] += net2["points"]
        net["clusters"] += net2["clusters"]
        truth.update(truth2)
        exp = "either"       # the free part must be removed or the whole refused - identically for all algorithms
    else:  # single-element
        net, truth, meta = netgen.make_network(rng, dim=dim, n=n, n_fixed={1: 1, 2: 2, 3: 2}[dim], datum="fixed")
        if dim == 1:
            exp = "adjust"
        else:
            p0 = net["points"][0]
            net["points"].append({"id": "S1", "adj": "xy" if dim == 2 else "xyz", "x": truth[p0["id"]][0] + 30, "y": truth[p0["id"]][1] + 40, **({"z": truth[p0["id"]][2]} if dim == 3 else {})})
            net["clusters"].append({"kind": "obs", "from": p0["id"], "obs": [{"t": "distance", "to": "S1", "val": 50.0, "stdev": 5.0}]})
            exp = "either"
    meta["planted"] = kind
    return net, truth, meta, exp


def float_rank(rows, ncols, tol=1e-7):
    """rank by Gaussian elimination with full pivoting on floats, columns scaled to unit maximum"""
    M = [[float(v) for v in r] for r in rows]
    if not M:
        return 0
    for j in range(ncols):
        cm = max(abs(r[j]) for r in M)
        if cm > 0:
            for r in M:
                r[j] /= cm
    rk = 0
    used_c = set()
    nr = len(M)
    for step in range(min(nr, ncols)):
        best, bi, bj = 0.0, -1, -1
        for i in range(rk, nr):
            for j in range(ncols):
                if j in used_c:
                    continue
                if abs(M[i][j]) > best:
                    best, bi, bj = abs(M[i][j]), i, j
        if best <= tol:
            break
        M[rk], M[bi] = M[bi], M[rk]
        used_c.add(bj)
        pv = M[rk][bj]
        for i in range(rk + 1, nr):
            f = M[i][bj] / pv
            if f != 0.0:
                for j in range(ncols):
                    M[i][j] -= f * M[rk][j]
        rk += 1
    return rk


def exact_rank_check(d):
    """flagged unknowns vs exact rank of the implementation's project equations (as rationals of the printed doubles)"""
    nun = max([i for r in d["rows"] for i in r["idx"]] + [0])
    if nun == 0:
        return None
    rows = []
    for r in d["rows"]:
        row = [0.0] * nun
        for i, c in zip(r["idx"], r["coef"]):
            # robust rank: round coefficients to 1e-9 relative so that exact elimination sees the structure
            row[i - 1] = c
        rows.append(row)
    return rows, nun


NONFINITE = re.compile(r"(?<![A-Za-z])(nan|inf)(?![A-Za-z])", re.I)


def run(ctx):
    ctx.check_proofs(extra_files=["QLsqRun"])
    # solver level: non-resolving subsets must raise BadRegularization everywhere (shared with C02)
    from checks import c02
    solver.solver_level(ctx, "c20", 40 if ctx.quick else 400, ["nonresolving", "nonresolving", "resolving"], c02.oracle, defect_choices=[1, 2, 3],
                        maxm=9 if ctx.quick else 12, maxn=6 if ctx.quick else 8)
    bdir = enet.binaries(ctx)
    exe = vlib.compile_harness("harness/lnet.cpp", link_gama=True)
    rng = ctx.rng
    n = 20 if ctx.quick else 200
    bad = 0
    for t in range(n):
        dim = rng.choice([1, 2, 2, 3])
        if t < 3:
            dim = 2
            net, truth, meta, exp = plant(rng, 2, force="point-on-line", force_ang=[0.0, math.pi / 2, 0.7][t])
        else:
            net, truth, meta, exp = plant(rng, dim)
        outs, txt = enet.run_all(ctx, bdir, net, "c20_%d" % t, outputs=("xml", "text"))
        ctx.count(("c20", txt), nontrivial=True)
        ctx.hist("planted", meta["planted"]); ctx.hist("dim", dim)
        oks = {a: enet.adjusted_ok(outs[a]) for a in enet.ALGS}
        errs = {a: outs[a]["err"] for a in enet.ALGS if outs[a]["err"]}
        if t == 0:
            ctx.sample({"network": enet.summarize(net), "planted": meta["planted"], "adjusted": oks})
        if errs:
            ctx.violation({"kind": "E:ill-posed", "gkf": txt, "planted": meta["planted"], "errors": errs}, "gama-local failed on an ill-posed network: %s" % list(errs.values())[0][:200]); bad += 1
            continue
        # no non-finite numbers anywhere
        nf = None
        for a in enet.ALGS:
            for k in ("xml", "text"):
                pth = outs[a]["run"].files.get(k)
                if pth and os.path.exists(pth):
                    tt = open(pth, errors="replace").read()
                    m = NONFINITE.search(re.sub(r"<description>.*?</description>", "", tt, flags=re.S))
                    if m:
                        nf = (a, k, tt[max(0, m.start() - 80):m.end() + 40])
        if nf:
            ctx.violation({"kind": "E:ill-posed", "gkf": txt, "planted": meta["planted"], "algorithm": nf[0], "output": nf[1], "context": nf[2]}, "non-finite number in the %s output of %s" % (nf[1], nf[0])); bad += 1
            continue
        if len(set(oks.values())) > 1:
            # with an insufficient datum the iterative removal of "dependent" points depends on the algorithm (recorded finding);
            # for a network whose datum is sufficient any disagreement is a plain violation
            key = "C20:removed-points-depend-on-algorithm" if exp != "adjust" else None
            if ctx.violation({"kind": "E:ill-posed", "gkf": txt, "planted": meta["planted"], "adjusted_by": oks}, "algorithms disagree on an ill-posed network (%s): %s" % (meta["planted"], oks), key=key):
                bad += 1
            continue
        adjusted = oks["gso"]
        ctx.hist("outcome", "adjusted" if adjusted else "refused")
        if exp == "refuse" and adjusted:
            # gama may instead drop the indeterminable points and adjust the rest - then it has to say so
            from checks import c14
            tt = open(outs["gso"]["run"].files["text"], errors="replace").read() if os.path.exists(outs["gso"]["run"].files["text"]) else ""
            removed = c14.text_sections(tt)["removed_points"]
            npts_in = len(net["points"])
            npts_out = len(outs["gso"]["res"]["adjusted"]) + len(outs["gso"]["res"]["fixed"])
            if not removed and npts_out >= npts_in:
                ctx.violation({"kind": "E:ill-posed", "gkf": txt, "planted": meta["planted"]}, "a network with %s was adjusted as it stands, nothing was diagnosed or removed" % meta["planted"]); bad += 1
                continue
            if npts_out < npts_in and not removed:
                ctx.violation({"kind": "E:ill-posed", "gkf": txt, "planted": meta["planted"]}, "points were dropped from a network with %s without being listed under 'Removed points'" % meta["planted"]); bad += 1
                continue
            ctx.hist("outcome_detail", "points removed, rest adjusted")
        if exp == "adjust" and not adjusted:
            ctx.violation({"kind": "E:ill-posed", "gkf": txt, "planted": meta["planted"], "output": (outs["gso"]["run"].out + outs["gso"]["run"].err)[-400:]},
                          "a network whose datum is sufficient (%s) was refused" % meta["planted"]); bad += 1
            continue
        if adjusted:
            # nothing that is reported as adjusted may be practically undetermined (gama's own limit: 10 m)
            huge = None
            for a in enet.ALGS:
                r_ = outs[a]["res"]
                if r_["cov"]:
                    k_ = 0
                    for p_ in r_["adjusted"]:
                        for c_ in "xyz":
                            if c_ in p_:
                                v_ = gama.cov_entry(r_, k_, k_)
                                if v_ is not None and v_ > 1e8 * 1.0001:
                                    huge = (a, p_["id"], c_, math.sqrt(v_))
                                k_ += 1
            if huge:
                # with a planted datum deficiency this is one more face of the recorded finding: every algorithm removes the dependent
                # unknowns it meets last in its own order, and what one of them keeps can be practically undetermined - recognised by
                # the algorithms keeping different sets of coordinates on this very input
                kept = {a: sorted((p_["id"], c_) for p_ in outs[a]["res"]["adjusted"] for c_ in "xyz" if c_ in p_) for a in enet.ALGS}
                key = "C20:removed-points-depend-on-algorithm" if exp != "adjust" and len(set(map(tuple, kept.values()))) > 1 else None
                if ctx.violation({"kind": "E:ill-posed", "gkf": txt, "planted": meta["planted"], "algorithm": huge[0], "point": huge[1], "coordinate": huge[2], "stdev_mm": huge[3]},
                                 "%s reports coordinate %s of point %s as adjusted with a standard deviation of %.0f mm instead of diagnosing it as indeterminable" % (huge[0], huge[2], huge[1], huge[3]),
                                 key=key) is not False:
                    bad += 1
                continue
            ref = outs["gso"]["res"]
            for a in enet.ALGS[0:1] + enet.ALGS[2:]:
                dd = enet.compare_results(ref, outs[a]["res"])
                if dd:
                    cs = lambda r_: set((p["id"], c) for p in r_["adjusted"] + r_["fixed"] for c in "xyz" if c in p)
                    s1, s2 = cs(ref), cs(outs[a]["res"])
                    # recorded finding: which of the dependent unknowns is flagged depends on the pivoting order of the algorithm,
                    # so different (equally indeterminable) points are dropped
                    key = "C20:removed-points-depend-on-algorithm" if (s1 != s2 and exp != "adjust") else None
                    if ctx.violation({"kind": "E:ill-posed", "gkf": txt, "planted": meta["planted"], "algorithms": ["gso", a], "differences": dd[:6],
                                      "coordinates_gso": sorted(map(str, s1)), "coordinates_" + a: sorted(map(str, s2))},
                                     "after removing the indeterminable part gso and %s report different results: %s" % (a, dd[0]), key=key):
                        bad += 1
                    break
        else:
            # the refusal names unknowns: they must be linearly dependent on the implementation's own equations
            path = os.path.join(ctx.scratch, "c20_%d.gkf" % t)
            open(path, "w").write(txt)
            flagged = {}
            for a in enet.ALGS:
                rc, out, err = vlib.sh([exe, path, a, "lindep"], timeout=60)
                d = c05.parse_lnet(out)
                if rc != 0 or d.get("exc") or "lindep" not in d:
                    flagged[a] = None
                    continue
                flagged[a] = d
            ds = [v for v in flagged.values() if v]
            if ds:
                rows_n = exact_rank_check(ds[0])
                if rows_n:
                    rows, nun = rows_n
                    rk = float_rank(rows, nun)
                    defect = nun - rk
                    for a, d in flagged.items():
                        if not d:
                            continue
                        fl = [i for i, v in enumerate(d["lindep"]) if v]
                        why = None
                        if len(fl) != defect:
                            why = "%d unknowns flagged, defect of the project equations is %d" % (len(fl), defect)
                        else:
                            keep = [j for j in range(nun) if j not in fl]
                            sub = [[r[j] for j in keep] for r in rows]
                            if float_rank(sub, len(keep)) != len(keep):
                                why = "removing the flagged unknowns %s does not leave a full-rank system" % [i + 1 for i in fl]
                        if why:
                            key = "C20:svd-lindep-flags-singular-value-index" if a == "svd" else None
                            if ctx.violation({"kind": "K:lindep", "gkf": txt, "planted": meta["planted"], "algorithm": a, "flagged": [i + 1 for i in fl], "defect": defect, "oracle": why},
                                             "%s: %s (%s)" % (a, why, meta["planted"]), key=key):
                                bad += 1
                                break
        if bad >= 4:
            break
    ctx.obligation(bad == 0, "E/K:ill-posed")
    return ctx.finish(rule="solver level: singular problems with non-resolving / resolving subsets; network level: generated networks with a planted deficiency "
                           "(too few constraints, non-spanning constraints, disconnected free part, single determining element, no datum) or a sufficient datum, all four "
                           "algorithms; every network is a non-trivial case; distinct by content")
