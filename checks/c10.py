"""C10 -- correlated observations are weighted by their full covariance matrix.

proof:  coq/Properties_C10.v: whitening equivalence (LsqSpec), the band copied by Cluster::activeCov loses nothing of the
        sub-matrix of the active observations, CovMat packed addressing = sum of the preceding row lengths
E:      gama-local on generated networks: (1) diagonal cov-mat == per-observation stdev; (2) a block-diagonal cluster ==
        the blocks as separate clusters; (3) a banded cluster with excluded observations == the explicit sub-matrix;
        (4) malformed matrices (indefinite, zero / negative variance in any position, dim != #observations, wrong element
        count) are refused with a diagnostic by every algorithm (also under ASan in the thorough tier)
"""
import copy, math
import vlib
from checks import enet
from tools import gama, netgen


def dense_from_band(c):
    n, b = c["dim"], c["band"]
    M = [[0.0] * n for _ in range(n)]
    k = 0
    for i in range(n):
        for j in range(i, min(n, i + b + 1)):
            M[i][j] = M[j][i] = c["vals"][k]
            k += 1
    return M


def band_from_dense(M):
    n = len(M)
    b = 0
    for i in range(n):
        for j in range(i, n):
            if M[i][j] != 0.0:
                b = max(b, j - i)
    vals = []
    for i in range(n):
        for j in range(i, min(n, i + b + 1)):
            vals.append(M[i][j])
    return {"dim": n, "band": b, "vals": vals}


def same(ctx, bdir, a, b_, name, what, algs):
    """both networks must give the same adjustment with every algorithm; returns number of violations"""
    o1, t1 = enet.run_all(ctx, bdir, a, name + "_a", algs=algs)
    o2, t2 = enet.run_all(ctx, bdir, b_, name + "_b", algs=algs)
    bad = 0
    for alg in algs:
        if o1[alg]["err"] or o2[alg]["err"]:
            ctx.violation({"kind": "E:" + what, "gkf": t1, "gkf_equivalent": t2, "algorithm": alg, "error": o1[alg]["err"] or o2[alg]["err"]},
                          "%s: gama-local failed (%s)" % (what, alg))
            return 1
        ok1, ok2 = enet.adjusted_ok(o1[alg]), enet.adjusted_ok(o2[alg])
        if ok1 != ok2:
            ctx.violation({"kind": "E:" + what, "gkf": t1, "gkf_equivalent": t2, "algorithm": alg}, "%s: only one of the two equivalent inputs is adjusted (%s)" % (what, alg))
            return 1
        if not ok1:
            continue
        dd = enet.compare_results(o1[alg]["res"], o2[alg]["res"], check_obs=False)
        r1 = sorted(round(o["adj"], 7) for o in o1[alg]["res"]["observations"] if isinstance(o.get("adj"), float))
        r2 = sorted(round(o["adj"], 7) for o in o2[alg]["res"]["observations"] if isinstance(o.get("adj"), float))
        if not dd and (len(r1) != len(r2) or any(abs(u - v) > 3e-6 for u, v in zip(r1, r2))):
            dd.append("adjusted observations differ")
        if dd:
            bad += 1
            ctx.violation({"kind": "E:" + what, "gkf": t1, "gkf_equivalent": t2, "algorithm": alg, "differences": dd[:6]}, "%s (%s): %s" % (what, alg, dd[0]))
            break
    return bad


def refused(ctx, bdir, net_or_text, name, what, algs, sanitized_dir=None):
    bad = 0
    for d in [bdir] + ([sanitized_dir] if sanitized_dir else []):
        outs, txt = enet.run_all(ctx, d, net_or_text, name, algs=algs, outputs=("xml", "text"))
        for alg in algs:
            o = outs[alg]
            if o["err"]:
                ctx.violation({"kind": "E:malformed", "what": what, "gkf": txt, "algorithm": alg, "error": o["err"]}, "malformed covariance (%s): %s" % (what, o["err"][:200]))
                return 1
            if enet.adjusted_ok(o):
                ctx.violation({"kind": "E:malformed", "what": what, "gkf": txt, "algorithm": alg}, "a covariance matrix that is %s was accepted and adjusted (%s)" % (what, alg))
                return 1
            msg = (o["run"].out + o["run"].err)
            res = o["res"]
            if (res is None or not res.get("error")) and len(msg.strip()) == 0:
                ctx.violation({"kind": "E:malformed", "what": what, "gkf": txt, "algorithm": alg, "rc": o["run"].rc}, "a covariance matrix that is %s was refused without any diagnostic (%s)" % (what, alg))
                return 1
    return bad


def k_band_cholesky(ctx):
    """K: the packed storage CovMat::cholDec leaves (D on the diagonal, the columns of L in the band) against the exact
    L D L' of the same banded matrix (coq/CholRun.v, judged in coqc); CholProofs.v proves that factorisation correct"""
    from fractions import Fraction
    from checks import solver
    exe = vlib.compile_harness("harness/matvec.cpp", sanitize=True)
    rng = ctx.rng
    cases, script = [], []
    for t in range(60 if ctx.quick else 600):
        n = rng.randint(1, 7)
        w = rng.randint(0, n - 1)
        # banded SPD with small dyadic entries: B B' for a lower band factor B
        B = [[0] * n for _ in range(n)]
        for i in range(n):
            B[i][i] = rng.choice([1, 2, 3])
            for k in range(1, w + 1):
                if i - k >= 0:
                    B[i][i - k] = rng.choice([-2, -1, 0, 1, 1, 2])
        sc = rng.choice([1, 1, 0.5, 0.25, 4])
        C = [[sum(B[i][k] * B[j][k] for k in range(n)) * sc for j in range(n)] for i in range(n)]
        vals = [C[i][j] for i in range(n) for j in range(i, min(n, i + w + 1))]
        cases.append((n, w, vals))
        script.append("covldl %d %d %s" % (n, w, " ".join(float(v).hex() for v in vals)))
        ctx.count(("ldl", n, w, tuple(vals)), nontrivial=w > 0)
        ctx.hist("chol_dim", n); ctx.hist("chol_band", w)
    rc, out, err = vlib.sh([exe], inp="\n".join(script) + "\n", timeout=300)
    lines = [l for l in out.split("\n") if l]
    if rc != 0 or len(lines) != len(cases):
        ctx.obligation(False, "K:band-cholesky harness")
        ctx.violation({"kind": "K:band-cholesky", "rc": rc, "stderr": err[-2000:], "case": cases[len(lines)] if len(lines) < len(cases) else None},
                      "matvec harness died in CovMat::cholDec (rc %d)" % rc)
        return
    terms = []
    for (n, w, vals), ln in zip(cases, lines):
        got = [float.fromhex(x) for x in ln.split()[3:]]
        terms.append("(%d%%nat, %d%%nat, [%s], [%s])" % (n, w, "; ".join(solver.qlit(v) for v in vals), "; ".join(solver.qlit(v) for v in got)))
    v = "From Coq Require Import List QArith NArith.\nFrom Gama Require Import CholRun.\nImport ListNotations.\nClose Scope Q_scope.\n" \
        "Definition cases := [\n%s\n].\n" % ";\n".join(terms) + 'Goal True. idtac "@@CHOL". Abort.\nEval vm_compute in bad_chol cases.\n'
    rc, cout = vlib.coq_run(v, ctx.scratch, name="cases_c10_chol", timeout=900)
    lst = vlib.parse_coq_list(cout, "@@CHOL")
    ctx.checker_cmds.append("coqc -Q coq Gama cases_c10_chol.v")
    ctx.obligation(rc == 0 and lst == [], "K:band-cholesky")
    if rc != 0 or lst is None:
        ctx.violation({"kind": "K:band-cholesky", "broken": "cases file did not evaluate", "tail": cout[-600:]}, "cases file failed", no_input=True)
        return
    for x in lst[:3]:
        n, w, vals = cases[int(x.replace("%N", ""))]
        ctx.violation({"kind": "K:band-cholesky", "dim": n, "band": w, "band_values": vals, "packed_after_cholDec": lines[int(x.replace("%N", ""))]},
                      "CovMat::cholDec does not leave the L D L' factor of a %d x %d matrix of band %d" % (n, n, w))


def run(ctx):
    ctx.check_proofs(extra_files=["Properties_C10_storage", "CholRun"])
    k_band_cholesky(ctx)
    bdir = enet.binaries(ctx)
    sdir = enet.binaries(ctx, sanitize=True) if not ctx.quick else None
    rng = ctx.rng
    n = 8 if ctx.quick else 60
    bad = 0
    algs_all = enet.ALGS
    for t in range(n):
        dim = rng.choice([1, 2, 2, 3])
        net, truth, meta = netgen.make_network(rng, dim=dim, n=rng.randint(4, 6), n_fixed={1: 1, 2: 2, 3: 2}[dim], extra=0.8)
        ids = [p["id"] for p in net["points"]]
        if dim == 3:
            netgen.add_vectors_cluster(rng, net, truth, [tuple(rng.sample(ids, 2)) for _ in range(2)])
        if dim != 1 and rng.random() < 0.5:
            netgen.add_coordinates_cluster(rng, net, truth, rng.sample(ids, 2), dim=dim)
        algs = algs_all if (t % 3 == 0 or not ctx.quick) else [rng.choice(algs_all)]
        # (1) diagonal cov-mat == stdevs
        n1 = copy.deepcopy(net)
        for c in n1["clusters"]:
            if not c.get("cov") and c["kind"] in ("obs", "height-differences"):
                sds = [ob.pop("stdev") for ob in c["obs"]]
                c["cov"] = {"dim": len(sds), "band": 0, "vals": [s * s for s in sds]}
        bad += same(ctx, bdir, net, n1, "c10d_%d" % t, "diagonal cov-mat vs standard deviations", algs)
        ctx.count(("c10-diag", t, gama.render_gkf(net)), nontrivial=True)
        # banded version of the network
        nb = copy.deepcopy(net)
        for c in nb["clusters"]:
            if c["kind"] in ("obs", "height-differences") and len(c["obs"]) >= 3:
                sds = [ob.pop("stdev") for ob in c["obs"]]
                c["cov"], _ = netgen.band_cov(rng, sds, rng.randint(1, len(sds) - 1))
            elif c["kind"] in ("vectors", "coordinates") and c["cov"]["dim"] >= 3:
                dimc = c["cov"]["dim"]
                c["cov"], _ = netgen.band_cov(rng, [math.sqrt(v) for v in c["cov"]["vals"][:dimc]] if c["cov"]["band"] == 0 else [5.0] * dimc, rng.randint(1, dimc - 1))
        ctx.hist("cluster_bands", [c["cov"]["band"] for c in nb["clusters"] if c.get("cov")])
        # (2) block diagonal cluster == separate clusters (height differences / obs cluster split in two)
        n2a, n2b = copy.deepcopy(nb), copy.deepcopy(nb)
        did = False
        for ci, c in enumerate(n2a["clusters"]):
            if c["kind"] in ("height-differences", "obs") and c.get("cov") and len(c["obs"]) >= 4:
                k = len(c["obs"]) // 2
                # a direction set must stay in one cluster (one orientation): only split when the directions are on one side
                if sum(1 for ob in c["obs"][:k] if ob["t"] == "direction") and sum(1 for ob in c["obs"][k:] if ob["t"] == "direction"):
                    continue
                M = dense_from_band(c["cov"])
                for i in range(len(M)):
                    for j in range(len(M)):
                        if (i < k) != (j < k):
                            M[i][j] = 0.0
                c["cov"] = band_from_dense(M)
                cb = n2b["clusters"][ci]
                A = [row[:k] for row in M[:k]]
                B = [row[k:] for row in M[k:]]
                c1 = {kk: vv for kk, vv in cb.items() if kk not in ("obs", "cov")}
                c2 = dict(c1)
                c1["obs"], c1["cov"] = cb["obs"][:k], band_from_dense(A)
                c2["obs"], c2["cov"] = cb["obs"][k:], band_from_dense(B)
                n2b["clusters"][ci:ci + 1] = [c1, c2]
                did = True
                break
        if did:
            bad += same(ctx, bdir, n2a, n2b, "c10s_%d" % t, "block-diagonal cluster vs separate clusters", algs)
            ctx.count(("c10-split", t), nontrivial=True)
        # (3) excluded observations use the sub-matrix
        n3a, n3b = copy.deepcopy(nb), copy.deepcopy(nb)
        did = False
        for ci, c in enumerate(n3a["clusters"]):
            if c["kind"] in ("height-differences", "obs") and c.get("cov") and len(c["obs"]) >= 3:
                cand = [i for i, ob in enumerate(c["obs"]) if ob["t"] in ("distance", "dh", "s-distance", "z-angle")]
                if not cand:
                    continue
                kx = rng.choice(cand)
                # the excluded observation goes to a point that does not exist in the point list
                c["obs"][kx] = dict(c["obs"][kx], to="NOWHERE")
                cb = n3b["clusters"][ci]
                M = dense_from_band(cb["cov"])
                M = [[M[i][j] for j in range(len(M)) if j != kx] for i in range(len(M)) if i != kx]
                cb["obs"] = [ob for i, ob in enumerate(cb["obs"]) if i != kx]
                cb["cov"] = band_from_dense(M)
                did = True
                ctx.hist("excluded_position", "first" if kx == 0 else ("last" if kx == len(c["obs"]) - 1 else "middle"))
                break
        if did:
            bad += same(ctx, bdir, n3a, n3b, "c10x_%d" % t, "cluster with an excluded observation vs explicit sub-matrix", algs)
            ctx.count(("c10-exclude", t), nontrivial=True)
        # (4) malformed matrices
        for what in ("indefinite", "zero variance", "negative variance", "indefinite in the last pivot", "of the wrong dimension", "short of elements", "long of elements"):
            n4 = copy.deepcopy(nb)
            cl = [c for c in n4["clusters"] if c.get("cov") and c["cov"]["dim"] >= 2]
            if not cl:
                continue
            c = rng.choice(cl)
            cv = c["cov"]
            dimc, b = cv["dim"], cv["band"]
            M = dense_from_band(cv)
            if what == "indefinite":
                if b == 0:
                    cv["band"] = b = 1
                    M = dense_from_band({"dim": dimc, "band": 0, "vals": [M[i][i] for i in range(dimc)]})
                i = rng.randrange(dimc - 1)
                M[i][i + 1] = M[i + 1][i] = 3.0 * math.sqrt(M[i][i] * M[i + 1][i + 1])
            elif what == "zero variance":
                i = rng.randrange(dimc)
                for j in range(dimc):
                    M[i][j] = M[j][i] = 0.0
            elif what == "negative variance":
                i = rng.randrange(dimc)
                M[i][i] = -M[i][i]
            elif what == "indefinite in the last pivot":
                if b == 0:
                    b = 1
                M[dimc - 1][dimc - 2] = M[dimc - 2][dimc - 1] = 1.5 * math.sqrt(M[dimc - 1][dimc - 1] * M[dimc - 2][dimc - 2])
            vals = []
            for i in range(dimc):
                for j in range(i, min(dimc, i + max(b, 1 if what.startswith("indefinite") else b) + 1)):
                    vals.append(M[i][j])
            bb = max(b, 1) if what.startswith("indefinite") else b
            c["cov"] = {"dim": dimc, "band": bb, "vals": vals}
            if what == "of the wrong dimension":
                k2 = dimc + rng.choice([-1, 1, 2])
                c["cov"] = {"dim": k2, "band": 0, "vals": [25.0] * k2}
            elif what == "short of elements":
                c["cov"]["vals"] = c["cov"]["vals"][:-1]
            elif what == "long of elements":
                c["cov"]["vals"] = c["cov"]["vals"] + [1.0]
            bad += refused(ctx, bdir, n4, "c10m_%d" % t, what, algs, sdir)
            ctx.count(("c10-malformed", t, what), nontrivial=True)
            ctx.hist("malformed", what)
        if t == 0:
            ctx.sample({"network": enet.summarize(nb)})
        if bad >= 4:
            break
    ctx.obligation(bad == 0, "E:covariance-weighting")
    return ctx.finish(rule="generated networks (obs / height-differences / coordinates / vectors clusters, band 0..dim-1): 3 equivalence relations and 7 kinds of malformed "
                           "matrices per network, all four algorithms on every third network (thorough: all, plus ASan build); each (network, relation) is a non-trivial case")
