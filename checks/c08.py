"""C08 -- choice of datum in a free network changes only the datum.

proof:  coq/Properties_C08.v (any two regularised solutions: same A x, residuals, v'Pv; they differ by a null-space
        element; orthogonality to the null space <=> minimal constrained corrections; A Q A' independent of T)
K:      solver level: one singular problem, two resolving subsets, 4 algorithms (harness/adj.cpp) judged against
        the exact reference in coqc (each run separately) and against each other (r, ssq, defect, A x)
E:      gama-local on generated free networks (levelling defect 1, 2D defect 3 or 4, 3D) x pairs of admissible
        constraint sets x 4 algorithms: identical residuals / ssq / dof / adjusted observations and their standard
        deviations / inter-point distances; corrections of the constrained coordinates orthogonal to the datum
        transformations (translations, rotation, scale when no distance is observed)
"""
import copy, math, itertools
import vlib
from checks import solver, enet
from tools import gama, netgen


def oracle(p, r, allres, qp, code):
    from checks import c01
    return c01.exact_oracle(p, r)


def set_constraints(net, ids, dim):
    n2 = copy.deepcopy(net)
    a = {1: "z", 2: "xy", 3: "xyz"}[dim]
    for p in n2["points"]:
        if "fix" in p:
            continue
        p["adj"] = a.upper() if p["id"] in ids else a
    return n2


def datum_conditions(res, dim, has_distance):
    """sums that must vanish for the corrections of the constrained coordinates; returns list of (name, value, scale)"""
    ap = {p["id"]: p for p in res["approximate"]}
    out = []
    pts = []
    for p in res["adjusted"]:
        c = p.get("constrained", set())
        if not c or p["id"] not in ap:
            continue
        pts.append((p, ap[p["id"]], c))
    if not pts:
        return out
    if dim != 1:
        cx = sum(a["x"] for _, a, c in pts if "x" in c) / max(1, sum(1 for _, a, c in pts if "x" in c))
        cy = sum(a["y"] for _, a, c in pts if "y" in c) / max(1, sum(1 for _, a, c in pts if "y" in c))
        dx = [(p["x"] - a["x"]) for p, a, c in pts if "x" in c]
        dy = [(p["y"] - a["y"]) for p, a, c in pts if "y" in c]
        ext = max([1.0] + [abs(a["x"] - cx) + abs(a["y"] - cy) for _, a, c in pts])
        norm = math.sqrt(sum(v * v for v in dx + dy)) + 1e-12
        out.append(("sum dx", sum(dx), norm))
        out.append(("sum dy", sum(dy), norm))
        rot = sum(-(a["y"] - cy) * (p["x"] - a["x"]) + (a["x"] - cx) * (p["y"] - a["y"]) for p, a, c in pts if "x" in c and "y" in c)
        out.append(("rotation", rot / ext, norm))
        if not has_distance:
            scl = sum((a["x"] - cx) * (p["x"] - a["x"]) + (a["y"] - cy) * (p["y"] - a["y"]) for p, a, c in pts if "x" in c and "y" in c)
            out.append(("scale", scl / ext, norm))
    if dim != 2:
        dz = [(p["z"] - a["z"]) for p, a, c in pts if "z" in c]
        if dz:
            out.append(("sum dz", sum(dz), math.sqrt(sum(v * v for v in dz)) + 1e-12))
    return out


def e_datum(ctx, n):
    bdir = enet.binaries(ctx)
    bad = 0
    for t in range(n):
        dim = ctx.rng.choice([1, 2, 2, 2, 3])
        npts = ctx.rng.randint(4, 7)
        kinds = None
        nodist = dim == 2 and ctx.rng.random() < 0.3
        if nodist:
            kinds = ["direction", "angle"]
        net, truth, meta = netgen.make_network(ctx.rng, dim=dim, n=npts, n_fixed=npts, datum="free", kinds=kinds, perturb=0.003)
        if nodist:
            # drop the distances of the determining skeleton: a direction/angle-only network has defect 4
            for c in net["clusters"]:
                c["obs"] = [ob for ob in c["obs"] if ob["t"] != "distance"]
            net["clusters"] = [c for c in net["clusters"] if c["obs"]]
        ids = [p["id"] for p in net["points"]]
        need = {1: 1, 2: 2, 3: 2}[dim]
        sets = []
        for _ in range(2):
            k = ctx.rng.randint(need, npts)
            sets.append(sorted(ctx.rng.sample(ids, k)))
        if sets[0] == sets[1]:
            sets[1] = ids
        has_distance = any(ob["t"] in ("distance", "s-distance") for c in net["clusters"] for ob in c["obs"])
        results = {}
        txts = {}
        for si, S in enumerate(sets):
            n2 = set_constraints(net, S, dim)
            alg = ctx.rng.choice(enet.ALGS) if ctx.quick else None
            outs, txt = enet.run_all(ctx, bdir, n2, "c08_%d_%d" % (t, si), algs=[alg] if alg else enet.ALGS)
            txts[si] = txt
            for a, o in outs.items():
                results[(si, a)] = o
        ctx.count(("c08e", txts[0], txts[1]), nontrivial=True)
        ctx.hist("dim", dim); ctx.hist("constraint_set_size", len(sets[0])); ctx.hist("distance_free", nodist)
        oks = [k for k, o in results.items() if enet.adjusted_ok(o)]
        errs = {str(k): o["err"] for k, o in results.items() if o["err"]}
        if errs:
            ctx.violation({"kind": "E:datum", "gkf": txts, "errors": errs}, "gama-local failed: %s" % list(errs.values())[0][:200]); bad += 1
            continue
        if len(oks) != len(results):
            # a constraint set that gama refuses (e.g. collinear / insufficient) is not admissible: skip, counted
            ctx.skipped("skipped_inadmissible", {"gkf": txts})
            continue
        if t == 0:
            ctx.sample({"free_network": enet.summarize(net), "constraint_sets": sets})
        keys = sorted(results)
        ref = results[keys[0]]["res"]
        dist0 = None
        for k in keys:
            r = results[k]["res"]
            dd = []
            for f in ("equations", "dof", "defect"):
                if r[f] != ref[f]:
                    dd.append("%s %s vs %s" % (f, r[f], ref[f]))
            # gama leaves its linearisation loop when linear and non-linear adjusted observations agree to 0.0005 mm in position
            # (TestLinearization, max_dif): each residual is then known to dv <= 0.0005 mm / sigma_pos, hence v'Pv to about
            # 2 sqrt(v'Pv m) dv (sigma_pos >= 1 mm for everything the generator produces).  Two datum choices stop at different
            # points of that loop (checked by hand on seeds 9 and 20260926: 0 vs 1 iteration, both converged to the criterion)
            stol = 3e-6 * max(1.0, ref["ssq"]) + 2 * math.sqrt(max(ref["ssq"], 0.0) * max(1, ref["equations"])) * 5e-4 * 2
            if abs(r["ssq"] - ref["ssq"]) > stol:
                dd.append("sum of squares %.8g vs %.8g" % (r["ssq"], ref["ssq"]))
            if len(r["observations"]) == len(ref["observations"]):
                for i, (o1, o2) in enumerate(zip(r["observations"], ref["observations"])):
                    if o1["tag"] in ("direction",):
                        # adjusted direction values depend on the orientation unknown only through the datum rotation: compare residual-free
                        # quantity: adj - obs is the residual and must agree
                        pass
                    v1 = o1["adj"] - o1["obs"]
                    v2 = o2["adj"] - o2["obs"]
                    v1 = (v1 + 200) % 400 - 200 if o1["tag"] in ("direction", "angle", "azimuth", "zenith-angle") else v1
                    v2 = (v2 + 200) % 400 - 200 if o2["tag"] in ("direction", "angle", "azimuth", "zenith-angle") else v2
                    # residuals of two datum choices agree to gama's linearisation stop criterion (0.0005 mm in position per
                    # observation, several observations interacting): 2e-6 m, 2e-6 gon
                    if abs(v1 - v2) > 2e-6:
                        dd.append("residual of observation %d (%s): %.9f vs %.9f" % (i, o1["tag"], v1, v2))
                        break
                    if isinstance(o1.get("stdev"), float) and abs(o1["stdev"] - o2["stdev"]) > 3e-4 * max(1.0, abs(o2["stdev"])):
                        dd.append("stdev of adjusted observation %d: %s vs %s" % (i, o1["stdev"], o2["stdev"]))
                        break
            else:
                dd.append("observation lists differ in length")
            am = gama.adjusted_map(r)
            if dim != 1 and has_distance:
                dist = {}
                for a, b in itertools.combinations(sorted(k2 for k2 in am if "x" in am[k2] and "y" in am[k2]), 2):
                    dist[(a, b)] = math.hypot(am[a]["x"] - am[b]["x"], am[a]["y"] - am[b]["y"])
                if dist0 is None:
                    dist0 = dist
                else:
                    for kk in dist:
                        if kk in dist0 and abs(dist[kk] - dist0[kk]) > 2e-6:
                            dd.append("distance %s-%s between adjusted points: %.7f vs %.7f" % (kk[0], kk[1], dist[kk], dist0[kk]))
                            break
            if (r["iterations"] or 0) <= 1:
                for name, val, norm in datum_conditions(r, dim, has_distance):
                    if abs(val) > 2e-5 * max(norm, 1e-4) + 3e-6:
                        dd.append("constrained corrections not orthogonal to the datum transformation '%s': %.3e (|dx| = %.3e)" % (name, val, norm))
                        break
            if dd:
                key = None
                if k[1] == "envelope" and r["defect"] < ref["defect"]:
                    # the recorded weakness of Envelope::cholDec (no pivoting, absolute tolerance): on THIS input envelope alone reports a
                    # smaller defect than an algorithm that agrees with the reference run
                    chk, _ = enet.run_all(ctx, bdir, txts[k[0]], "c08_%d_cls" % t, algs=["gso"])
                    if enet.adjusted_ok(chk["gso"]) and chk["gso"]["res"]["defect"] == ref["defect"]:
                        key = "C08:envelope-undercounts-defect"
                if ctx.violation({"kind": "E:datum", "gkf_set1": txts[0], "gkf_set2": txts[1], "run": list(k), "reference_run": list(keys[0]), "differences": dd[:8]},
                                 "datum change altered more than the datum (%s, constraints %s): %s" % (k[1], sets[k[0]], dd[0]), key=key) is not False:
                    bad += 1
                break
        if bad >= 3:
            break
    ctx.obligation(bad == 0, "E:datum-invariance")


def run(ctx):
    ctx.check_proofs(extra_files=["QLsqRun"])
    solver.solver_level(ctx, "c08", 40 if ctx.quick else 400, ["resolving", "resolving", "all"], oracle, defect_choices=[1, 1, 2, 3],
                        maxm=9 if ctx.quick else 12, maxn=6 if ctx.quick else 8)
    e_datum(ctx, 14 if ctx.quick else 120)
    return ctx.finish(rule="K: singular small-integer problems (defect 1..3) with random resolving subsets, 4 algorithms x 2 entry points vs exact reference; "
                           "E: generated free networks (1D/2D/3D, with and without distances) x 2 random admissible constraint sets x algorithms; "
                           "every case is non-trivial (defect >= 1); distinct by content")
