"""C12, end-to-end part: the adjustment XML of the rebuilt gama-local
  (R1) is well-formed for hostile point ids / descriptions and is read back by gama's own reader
       (harness/readback.cpp, LocalNetworkAdjustmentResults::read_xml, ASan+UBSan) exactly as an independent
       parse of the same file (python ElementTree) sees it: points, flags, indexes, orientations, covariance band,
       original indexes, every field of every observation -- nothing invented, nothing lost;
  (R2) is internally consistent: the adjusted value of every distance, height difference, vector component and
       observed coordinate equals the value computed from the adjusted coordinates printed in the same file
       (in the user's frame, also when the axes are declared inconsistent with the angles);
  (R3) carries the same adjusted coordinates as the text report of the same run;
  (R4) honours --cov-band: dim / band / number of elements as requested, entries equal to those of the full matrix;
  (R5) is read back identically when the same file is laid out with other line breaks (expat delivers text in pieces).
"""
import math, os, re
import xml.etree.ElementTree as ET
import vlib, gama, netgen
from checks import enet

HOSTILE_IDS = ["A&B", "x<y", "p>q", "it's", 'say"q"', "é1", "a;b", "&amp;", "<!--", "]]>", "P 1", "1e5", "-7"]
NS = gama.NS


def fl(h):
    return float.fromhex(h)


def unhex(h):
    return "" if h == "-" else bytes.fromhex(h).decode("utf-8", "replace")


def parse_readback(out):
    d = {"pts": {"fixed": [], "approximate": [], "adjusted": []}, "ori": [], "ell": [], "obs": [], "cov": None, "ind": [], "exc": None}
    for line in out.split("\n"):
        w = line.split(" ")
        if w[0] == "PT":
            d["pts"][w[1]].append({"id": unhex(w[2]), "hxy": w[3] == "1", "hz": w[4] == "1", "x": fl(w[5]), "y": fl(w[6]), "z": fl(w[7]),
                                   "cxy": w[8] == "1", "cz": w[9] == "1", "ind": [int(x) for x in w[10:13]]})
        elif w[0] == "ORI":
            d["ori"].append({"id": unhex(w[1]), "approx": fl(w[2]), "adj": fl(w[3]), "index": int(w[4])})
        elif w[0] == "ELL":
            d["ell"].append({"id": unhex(w[1]), "major": fl(w[2]), "minor": fl(w[3]), "alpha": fl(w[4])})
        elif w[0] == "COV":
            d["cov"] = {"dim": int(w[1]), "band": int(w[2]), "flt": [fl(x) for x in w[4:4 + int(w[3])]]}
        elif w[0] == "IND":
            d["ind"] = [int(x) for x in w[2:2 + int(w[1])]]
        elif w[0] == "OBS":
            d["obs"].append({"tag": unhex(w[1]), "from": unhex(w[2]), "to": unhex(w[3]), "left": unhex(w[4]), "right": unhex(w[5]),
                             "obs": fl(w[6]), "adj": fl(w[7]), "stdev": fl(w[8]), "qrr": fl(w[9]), "f": fl(w[10]), "std-residual": fl(w[11]),
                             "err-obs": unhex(w[12]), "err-adj": unhex(w[13]), "residual": fl(w[14]) if len(w) > 14 else None})
        elif w[0] == "GEN":
            d["description"] = unhex(w[1])
        elif w[0] == "SUM":
            d["sum"] = w[1:]
        elif w[0] == "exc":
            d["exc"] = line
    return d


def file_view(path):
    """independent parse of the adjustment XML (what is IN the file)"""
    root = ET.parse(path).getroot()
    co = root.find(NS + "coordinates")
    v = {"pts": {}, "obs": [], "ori": []}
    d = root.find(NS + "description")
    v["description"] = d.text or "" if d is not None else ""
    for lst in ("fixed", "approximate", "adjusted"):
        v["pts"][lst] = []
        e = co.find(NS + lst)
        for p in (e.findall(NS + "point") if e is not None else []):
            q = {"id": (p.find(NS + "id").text or "").strip()}
            for c in p:
                t = c.tag.replace(NS, "")
                if t in ("x", "y", "z", "X", "Y", "Z"):
                    q[t.lower()] = float(c.text)
                    if t.isupper():
                        q["c" + t.lower()] = True
            v["pts"][lst].append(q)
    e = co.find(NS + "orientation-shifts")
    for x in (e.findall(NS + "orientation") if e is not None else []):
        v["ori"].append({"id": x.find(NS + "id").text.strip(), "approx": gama.angle_or_float(x.find(NS + "approx").text), "adj": gama.angle_or_float(x.find(NS + "adj").text)})
    cm = co.find(NS + "cov-mat")
    v["cov"] = {"dim": int(cm.find(NS + "dim").text), "band": int(cm.find(NS + "band").text), "flt": [float(x.text) for x in cm.findall(NS + "flt")]} if cm is not None else None
    oi = co.find(NS + "original-index")
    v["ind"] = [int(x.text) for x in oi.findall(NS + "ind")] if oi is not None else []
    ob = root.find(NS + "observations")
    for x in (ob if ob is not None else []):
        q = {"tag": x.tag.replace(NS, "")}
        for c in x:
            q[c.tag.replace(NS, "")] = (c.text or "").strip()
        v["obs"].append(q)
    return v


def close(a, b, tol=1e-9):
    return abs(a - b) <= tol * max(1.0, abs(a), abs(b))


def compare_readback(rb, fv):
    dd = []
    if rb["exc"]:
        return ["gama's reader refuses the adjustment XML gama-local has just written: %s" % rb["exc"]]
    if rb.get("description", "").strip() != fv["description"].strip():
        dd.append("description read back as %r, the file has %r" % (rb.get("description", "")[:60], fv["description"][:60]))
    for lst in ("fixed", "approximate", "adjusted"):
        a, b = rb["pts"][lst], fv["pts"][lst]
        if [p["id"] for p in a] != [p["id"] for p in b]:
            dd.append("%s points read back as %s, the file has %s" % (lst, [p["id"] for p in a][:8], [p["id"] for p in b][:8]))
            continue
        for p, q in zip(a, b):
            if p["hxy"] != ("x" in q) or p["hz"] != ("z" in q):
                dd.append("%s point %s: has-xy/has-z flags %s/%s, the file has x:%s z:%s" % (lst, p["id"], p["hxy"], p["hz"], "x" in q, "z" in q))
            for c in "xyz":
                if c in q and not close(p[c], q[c], 1e-12):
                    dd.append("%s point %s %s read back %.6f, file %.6f" % (lst, p["id"], c, p[c], q[c]))
            if p["cxy"] != bool(q.get("cx")) or p["cz"] != bool(q.get("cz")):
                dd.append("%s point %s: constrained flags differ from the file" % (lst, p["id"]))
    if len(rb["ori"]) != len(fv["ori"]):
        dd.append("%d orientations read back, the file has %d" % (len(rb["ori"]), len(fv["ori"])))
    if (rb["cov"] or {}).get("dim") != (fv["cov"] or {}).get("dim") or (rb["cov"] or {}).get("band") != (fv["cov"] or {}).get("band"):
        dd.append("covariance dim/band read back %s/%s, file %s/%s" % ((rb["cov"] or {}).get("dim"), (rb["cov"] or {}).get("band"), (fv["cov"] or {}).get("dim"), (fv["cov"] or {}).get("band")))
    elif fv["cov"]:
        if len(rb["cov"]["flt"]) != len(fv["cov"]["flt"]):
            dd.append("covariance: %d elements read back, the file has %d" % (len(rb["cov"]["flt"]), len(fv["cov"]["flt"])))
        else:
            for k, (x, y) in enumerate(zip(rb["cov"]["flt"], fv["cov"]["flt"])):
                if not close(x, y, 1e-12):
                    dd.append("covariance element %d read back %r, file %r" % (k, x, y)); break
    rind = rb["ind"][1:] if rb["ind"][:1] == [-1] else rb["ind"]     # the reader keeps a dummy entry to index from 1
    if rind != fv["ind"]:
        dd.append("original-index list read back differs from the file")
    if len(rb["obs"]) != len(fv["obs"]):
        dd.append("%d observations read back, the file has %d" % (len(rb["obs"]), len(fv["obs"])))
    else:
        for k, (a, b) in enumerate(zip(rb["obs"], fv["obs"])):
            if a["tag"] != b["tag"]:
                dd.append("observation %d read back as <%s>, file <%s>" % (k + 1, a["tag"], b["tag"])); continue
            for key, fkey in (("from", "from"), ("to", "to"), ("left", "left"), ("right", "right")):
                want = b.get(fkey, b.get("id", "") if key == "from" and "from" not in b else "")
                if a[key] != want and not (key == "from" and a[key] == b.get("id", "")):
                    dd.append("observation %d <%s>: %s read back %r, file %r" % (k + 1, a["tag"], key, a[key], want))
            for key in ("obs", "adj", "stdev", "qrr", "f", "std-residual"):
                if key in b:
                    try:
                        want = gama.angle_or_float(b[key])
                    except ValueError:
                        continue
                    got = a[key]
                    if re.match(r"^-?\d+-\d+-", b[key]):       # sexagesimal in the file: the reader keeps degrees
                        want = want * 360.0 / 400.0
                    if not close(got, want, 1e-9) and not close(got, want * 400.0 / 360.0, 1e-9):
                        dd.append("observation %d <%s>: %s read back %r, file %r" % (k + 1, a["tag"], key, got, b[key]))
                elif a[key] != 0:
                    dd.append("observation %d <%s>: %s is absent in the file but read back as %r" % (k + 1, a["tag"], key, a[key]))
            # the reader's residual(): adjusted - observed in mm / cc, an angular difference taken on the circle
            if a.get("residual") is not None and "obs" in b and "adj" in b:
                try:
                    r_ = gama.angle_or_float(b["adj"]) - gama.angle_or_float(b["obs"])
                    if a["tag"] in ("direction", "angle", "zenith-angle", "azimuth"):
                        r_ = ((r_ + 200) % 400 - 200) * 1e4
                        if not re.match(r"^-?\d+-\d+-", b["obs"]) and abs(a["residual"] - r_) > 1e-3 + 1e-9 * abs(r_):
                            dd.append("observation %d <%s>: the reader's residual is %.3f, adjusted - observed = %.3f cc" % (k + 1, a["tag"], a["residual"], r_))
                except ValueError:
                    pass
            for key in ("err-obs", "err-adj"):
                if a[key] != b.get(key, ""):
                    dd.append("observation %d <%s>: <%s> read back %r, the file has %r" % (k + 1, a["tag"], key, a[key], b.get(key, "(absent)")))
    return dd


def internal_consistency(fv):
    """adjusted observations against the adjusted coordinates of the same file"""
    xyz = {}
    for lst in ("fixed", "adjusted"):
        for p in fv["pts"][lst]:
            q = xyz.setdefault(p["id"], {})
            for c in "xyz":
                if c in p:
                    q[c] = p[c]
    dd = []
    for k, o in enumerate(fv["obs"]):
        t = o["tag"]
        try:
            adj = float(o["adj"])
        except (KeyError, ValueError):
            continue
        a = xyz.get(o.get("from", o.get("id")), {})
        b = xyz.get(o.get("to"), {})
        want = None
        if t == "distance" and all(c in a and c in b for c in "xy"):
            want = math.hypot(b["x"] - a["x"], b["y"] - a["y"])
        elif t == "slope-distance" and all(c in a and c in b for c in "xyz"):
            if not o.get("from-dh") and not o.get("to-dh"):
                want = math.sqrt(sum((b[c] - a[c]) ** 2 for c in "xyz"))
        elif t == "height-diff" and "z" in a and "z" in b:
            want = b["z"] - a["z"]
        elif t in ("dx", "dy", "dz") and t[1] in a and t[1] in b:
            want = b[t[1]] - a[t[1]]
        elif t in ("coordinate-x", "coordinate-y", "coordinate-z"):
            c = t[-1]
            if c in a:
                want = a[c]
        if want is not None and abs(adj - want) > 2e-5:
            dd.append("observation %d <%s> %s -> %s: adjusted value %.5f, but the adjusted coordinates of the same file give %.5f" % (
                k + 1, t, o.get("from", o.get("id")), o.get("to", ""), adj, want))
    return dd


def text_coordinates(path):
    """adjusted coordinates from the text report: lines '  <n>  x|y|z   approx  corr  adjusted ...' under a point id"""
    res = {}
    cur = None
    sect = False
    for line in open(path, encoding="utf-8", errors="replace"):
        if line.startswith("Adjusted coordinates"):
            sect = True; continue
        if sect and (line.startswith("Adjusted orientation") or line.startswith("Mean errors") or line.startswith("Adjusted observations")
                     or line.startswith("Adjusted heights")):
            if not line.startswith("Adjusted heights"):
                sect = False
            continue
        if not sect:
            continue
        m = re.match(r"^\s*(\d+)?\s+([xyzXYZ])\s+(-?\d+\.\d+)\s+(-?\d+\.\d+)\s+(-?\d+\.\d+)", line)
        if m and cur is not None:
            res.setdefault(cur, {})[m.group(2).lower()] = float(m.group(5))
            continue
        w = line.split()
        # a point id on a line of its own (ids may contain single blanks: 'P 1'); rulers and headings are not ids
        if w and len(w) <= 3 and not all(set(t) <= set("=-*") for t in w) and line.startswith(" "):
            cur = " ".join(w)
    return res


def gen_network(rng):
    k = rng.random()
    ids = None
    if rng.random() < 0.5:
        n = rng.randint(4, 6)
        ids = rng.sample(HOSTILE_IDS, n)
    if k < 0.45:
        # ordinary 2D/3D network with directions and uncorrelated observations (err-obs / err-adj appear) ...
        dim = rng.choice([2, 3])
        net, truth, meta = netgen.make_network(rng, dim=dim, n=len(ids) if ids else rng.randint(4, 6), n_fixed=2, datum=rng.choice(["fixed", "free"]),
                                               ids=ids, noise=rng.choice([1.0, 3.0]), extra=0.8)
        pids = list(truth)
        # ... followed by correlated clusters, which never carry them
        if rng.random() < 0.8:
            netgen.add_coordinates_cluster(rng, net, truth, rng.sample(pids, 2), dim=dim if dim != 1 else 2, cov_band=rng.choice([None, 1, 2]))
        if rng.random() < 0.6:
            netgen.add_vectors_cluster(rng, net, truth, [tuple(rng.sample(pids, 2)) for _ in range(rng.randint(1, 2))], cov_band=rng.choice([None, 1, 3]))
        # turn one direction set so that a reading sits just below 400 gon: its adjusted value may land on the other side of 0
        sets = [c for c in net["clusters"] if c["kind"] == "obs" and not c.get("cov") and sum(1 for o in c["obs"] if o["t"] == "direction") >= 2]
        if sets and rng.random() < 0.6:
            c = rng.choice(sets)
            dirs = [o for o in c["obs"] if o["t"] == "direction" and "valstr" not in o]
            if dirs:
                shift = dirs[0]["val"] - (400.0 - rng.choice([0.0002, 0.0005, 0.00005]))
                for o in dirs:
                    o["val"] = (o["val"] - shift) % 400.0
        kind = "directions+clusters"
    else:
        # no angular observation: any declaration of axes / orientation is legitimate, including the inconsistent ones
        dim = 3
        net, truth, meta = netgen.make_network(rng, dim=3, n=len(ids) if ids else rng.randint(4, 6), n_fixed=rng.randint(1, 2), datum="fixed", ids=ids,
                                               kinds=["distance", "s-distance", "dh"], extra=0.9, noise=rng.choice([1.0, 3.0]))
        pids = list(truth)
        # make_network ties points by direction+distance: drop the angular ones, vectors and coordinates hold the network
        for c in net["clusters"]:
            c["obs"] = [o for o in c["obs"] if o["t"] not in ("direction", "angle", "z-angle", "azimuth")]
        net["clusters"] = [c for c in net["clusters"] if c["obs"]]
        for c in net["clusters"]:
            if c.get("cov") and c["cov"]["dim"] != len(c["obs"]):
                c.pop("cov")
                for o in c["obs"]:
                    o.setdefault("stdev", 5.0)
        pairs = [(pids[i], pids[i + 1]) for i in range(len(pids) - 1)] + [(pids[-1], pids[0])]
        netgen.add_vectors_cluster(rng, net, truth, pairs, cov_band=rng.choice([None, 1, 2]))
        netgen.add_coordinates_cluster(rng, net, truth, rng.sample(pids, 2), dim=3, cov_band=rng.choice([None, 1]))
        net.setdefault("attrs", {})["axes-xy"] = rng.choice(["ne", "sw", "es", "wn", "en", "nw", "se", "ws"])
        net["attrs"]["angles"] = rng.choice(["left-handed", "right-handed"])
        kind = "vectors/%s/%s" % (net["attrs"]["axes-xy"], net["attrs"]["angles"])
    if rng.random() < 0.5:
        net["description"] = rng.choice(["a < b & c > d", "quote \" and apostrophe '", "]]> <!-- -->", "&amp; &lt;", "příliš žluťoučký", "  spaces  "])
    return net, truth, kind


def run(ctx):
    bdir = vlib.build_repo(sanitize=True)
    rb_exe = vlib.compile_harness("harness/readback.cpp", link_gama=True, sanitize=True)
    rng = ctx.rng
    n = 12 if ctx.quick else 150
    bad = 0
    for t in range(n):
        net, truth, kind = gen_network(rng)
        txt = gama.render_gkf(net)
        band = rng.choice([None, None, 0, 1, 2, 5, -1])
        extra = ["--cov-band", str(band)] if band is not None else []
        rr = gama.run_gama_local(bdir, txt, ctx.scratch, "c12e_%d" % t, rng.choice(enet.ALGS), outputs=("xml", "text"), extra=extra)
        ctx.count(("c12e", txt, band), nontrivial=True)
        ctx.hist("E_network", kind.split("/")[0]); ctx.hist("E_cov_band", band)
        dd = []
        if "Sanitizer" in rr.err or "runtime error:" in rr.err or rr.rc < 0 or rr.rc == 124:
            dd.append("gama-local: %s" % rr.err[-400:])
        xmlp = rr.files["xml"]
        if not dd and (not os.path.exists(xmlp) or os.path.getsize(xmlp) == 0):
            ctx.hist("E_not_adjusted", 1)
            continue
        fv = None
        if not dd:
            try:
                fv = file_view(xmlp)
            except ET.ParseError as e:
                dd.append("the adjustment XML is not well-formed: %s" % e)
        if fv is not None and ET.parse(xmlp).getroot().find(NS + "error") is None and ET.parse(xmlp).getroot().find(NS + "coordinates") is not None:
            rc, out, err = vlib.sh([rb_exe, xmlp], timeout=120)
            if rc != 0:
                dd.append("gama's adjustment-results reader died (rc %d): %s" % (rc, err[-400:]))
            else:
                rb = parse_readback(out)
                dd += compare_readback(rb, fv)
                # (R5) the reader does not depend on the layout of the file: one tag per line, every text node on a line of its own
                flow = re.sub(rb">([^<>\n]+)<", rb">\n\1\n<", re.sub(rb">\s*<", b">\n<", open(xmlp, "rb").read()))
                fp = xmlp + ".reflow.xml"
                open(fp, "wb").write(flow)
                rc2, out2, err2 = vlib.sh([rb_exe, fp], timeout=120)
                os.remove(fp)
                if rc2 != 0:
                    dd.append("gama's adjustment-results reader died on the same file with other line breaks (rc %d): %s" % (rc2, err2[-300:]))
                elif [l for l in out2.split("\n") if not l.startswith("GEN ")] != [l for l in out.split("\n") if not l.startswith("GEN ")]:
                    # (the description is free text: white space around it is content, so the GEN record is left out)
                    k = next((i for i, (x, y) in enumerate(zip(out.split("\n"), out2.split("\n"))) if x != y), -1)
                    dd.append("the reader stores something else when the same XML has other line breaks: record %d: %s | %s" % (
                        k, out.split("\n")[k][:80] if k >= 0 else "", out2.split("\n")[k][:80] if k >= 0 else ""))
            dd += internal_consistency(fv)
            # (R3) text report
            try:
                tc = text_coordinates(rr.files["text"])
                adj = {p["id"]: p for p in fv["pts"]["adjusted"]}
                ncmp = 0
                for pid, q in tc.items():
                    for c, v in q.items():
                        if pid in adj and c in adj[pid]:
                            ncmp += 1
                            if abs(adj[pid][c] - v) > 6e-6:
                                dd.append("point %s %s: text report %.5f, XML %.5f" % (pid, c, v, adj[pid][c]))
                ctx.hist("E_text_coordinates_compared", min(ncmp, 1))
            except OSError:
                pass
            # (R4) cov-band
            if band is not None and fv["cov"]:
                dim = fv["cov"]["dim"]
                want_band = dim - 1 if (band == -1 or band > dim - 1) else band
                nel = sum(min(want_band, dim - 1 - r) + 1 for r in range(dim))
                if fv["cov"]["band"] != want_band or len(fv["cov"]["flt"]) != nel:
                    dd.append("--cov-band %d on dimension %d: band %d with %d elements written, expected band %d with %d" % (
                        band, dim, fv["cov"]["band"], len(fv["cov"]["flt"]), want_band, nel))
        if dd:
            bad += 1
            ctx.violation({"kind": "E:xml-readback", "gkf": txt, "cov_band": band, "network": kind, "differences": dd[:12]}, "adjustment XML: %s" % dd[0])
            if bad >= 3:
                break
        if t == 0:
            ctx.sample({"network": kind, "cov_band": band, "observations_in_file": len(fv["obs"]) if fv else None})
    ctx.obligation(bad == 0, "E:xml-readback")
