"""C01 -- every solver returns the weighted least-squares minimiser.

proof:  coq/Properties_C01.v  (normal equations => minimum, null-space orthogonality => minimum norm,
        whitening equivalence; over every real field, all dimensions)
K/C:    checks/solver.py: generated problems (banded/correlated covariance blocks, planted defects,
        regularisation subsets) through harness/adj.cpp (4 algorithms x 2 entry points) compared inside coqc
        with the exact rational reference coq/QLsq.v, whose own optimality is certified exactly per case
search: exact (fractions) evaluation of the optimality conditions on the implementation's numbers
"""
import math
from fractions import Fraction
import vlib
from checks import solver


def exact_oracle(p, r):
    """property oracle on the implementation's own output, exact arithmetic: returns a description of the
    violated condition or None"""
    raw = r.get("raw")
    if raw is None:
        return "harness crashed: " + r.get("crash", "")[:300]
    if raw["x"][0] != "ok" or raw["r"][0] != "ok":
        return "exception for a well-posed problem: " + " ".join(raw["x"][1])
    m, n = p["m"], p["n"]
    x = [Fraction(solver.fl(t)) for t in raw["x"][1]]
    rr = [Fraction(solver.fl(t)) for t in raw["r"][1]]
    if len(x) != n or len(rr) != m:
        return "wrong dimension of x or r"
    A = [[Fraction(v) for v in row] for row in p["A"]]
    b = [Fraction(v) for v in p["b"]]
    v = [sum(A[i][j] * x[j] for j in range(n)) - b[i] for i in range(m)]
    sc = max([1] + [abs(t) for t in v])
    tol = Fraction(1, 10 ** 7)
    homog = r["entry"] == "base" and r["alg"] != "envelope"   # residuals of the homogenised system
    if not homog and max(abs(v[i] - rr[i]) for i in range(m)) > tol * sc:
        return "residuals differ from A x - b"
    # P v  via solving C w = v block by block (exact)
    w = []
    r0 = 0
    for (dim, band, vals) in p["blocks"]:
        C = [[Fraction(0)] * dim for _ in range(dim)]
        k = 0
        for i in range(dim):
            for j in range(i, min(dim, i + band + 1)):
                C[i][j] = C[j][i] = Fraction(vals[k])
                k += 1
        aug = [C[i] + [v[r0 + i]] for i in range(dim)]
        for j in range(dim):
            pv = next(i for i in range(j, dim) if aug[i][j] != 0)
            aug[j], aug[pv] = aug[pv], aug[j]
            aug[j] = [t / aug[j][j] for t in aug[j]]
            for i in range(dim):
                if i != j and aug[i][j] != 0:
                    f = aug[i][j]
                    aug[i] = [a - f * c for a, c in zip(aug[i], aug[j])]
        w += [aug[i][dim] for i in range(dim)]
        r0 += dim
    g = [sum(A[i][j] * w[i] for i in range(m)) for j in range(n)]
    scale = max([1] + [abs(t) for row in A for t in row]) * max([1] + [abs(t) for t in w]) * m
    if max(abs(t) for t in g) > tol * scale:
        return "normal equations A'Pv = 0 violated: |A'Pv|max = %.3e" % float(max(abs(t) for t in g))
    ssq = Fraction(solver.fl(raw["ssq"][1][0]))
    vpv = sum(v[i] * w[i] for i in range(m))
    if abs(ssq - vpv) > tol * max(1, abs(vpv)):
        return "reported sum of squares %.12g differs from v'Pv %.12g" % (float(ssq), float(vpv))
    G = solver.null_basis(p["A"], n)
    d = int(raw["defect"][1][0])
    if d != len(G):
        return "reported defect %d, true defect %d" % (d, len(G))
    for gvec in G:
        s = sum(gvec[j] * x[j] for j in p["S"])
        if abs(s) > tol * max([1] + [abs(t) for t in x]) * max(abs(t) for t in gvec) * n:
            return "x is not orthogonal to the null space over the selected unknowns (not the minimum-norm minimiser)"
    return None


def run(ctx):
    ctx.check_proofs(extra_files=["QLsqRun"])
    exe = vlib.compile_harness("harness/adj.cpp", sanitize=not ctx.quick,
                               extra_src=["lib/gnu_gama/adj/adj.cpp", "lib/gnu_gama/adj/icgs.cpp", "lib/gnu_gama/adj/adj_input_data.cpp"])
    ncase = 120 if ctx.quick else 1500
    problems, qpairs = [], []
    for i in range(ncase):
        p = solver.gen_problem(ctx.rng, maxm=10 if ctx.quick else 13, maxn=6 if ctx.quick else 8,
                               subset=ctx.rng.choice(["none", "all", "resolving", "resolving"]))
        problems.append(p)
        qpairs.append(([], []))
        ctx.count(("lsq", p["A"], p["b"], p["blocks"], p["S"]), nontrivial=(p["defect"] > 0 or any(w > 0 for _, w, _ in p["blocks"])))
        ctx.hist("defect", p["defect"]); ctx.hist("n", p["n"]); ctx.hist("m", p["m"]); ctx.hist("subset", p["subset"])
        for (_, w, _) in p["blocks"]:
            ctx.hist("block_bandwidth", w)
    entries = [(e, a) for e in ("adj", "base") for a in solver.ALGS]
    results = solver.run_problems(exe, problems, entries, qpairs)
    bad = solver.judge_in_coq(ctx, problems, results, qpairs, "cases_c01")
    ctx.sample({"problem": {k: problems[0][k] for k in ("m", "n", "A", "b", "blocks", "S", "defect")},
                "impl_x_envelope": [solver.fl(t) for t in results[0][0]["raw"]["x"][1]] if "raw" in results[0][0] and results[0][0]["raw"]["x"][0] == "ok" else None})
    ctx.extra["algorithms_x_entry_points"] = ["%s/%s" % e for e in entries]
    ctx.extra["tolerance"] = "1e-8 * max(1, max|reference|), reference exact in Q"
    reported = 0
    for (pi, prs) in bad:
        if pi is None:
            ctx.violation({"kind": "C:QLsq", "broken": "coqc could not evaluate the cases file", "tail": prs}, "cases file failed", no_input=True)
            continue
        p = problems[pi]
        for (k, code) in prs:
            if reported >= 5:
                break
            reported += 1
            if k == 0:
                ctx.violation({"kind": "C:reference-certificate", "problem": p}, "reference model failed its own exact certificate (model defect)", no_input=True)
                continue
            r = results[pi][k - 1]
            why = exact_oracle(p, r)
            rep = {"kind": "K:adjust", "problem": p, "entry": r["entry"], "algorithm": r["alg"],
                   "disagreement": solver.CODES.get(code, code), "impl": {c: r["raw"][c] for c in ("x", "r", "ssq", "defect")} if "raw" in r else r.get("crash")}
            if why:
                rep["oracle"] = why
                ctx.violation(rep, "%s/%s: %s (m=%d n=%d defect=%d subset=%s)" % (r["entry"], r["alg"], why, p["m"], p["n"], p["defect"], p["subset"]))
            else:
                rep["broken"] = "correspondence K:adjust (QLsq.adjust vs %s/%s) on %s" % (r["entry"], r["alg"], solver.CODES.get(code, code))
                ctx.violation(rep, "model and implementation disagree on %s but the implementation's output satisfies the optimality conditions" % solver.CODES.get(code, code), no_input=True)
    return ctx.finish(
        rule="random small-integer adjustment problems (m<=%d, n<=%d, covariance blocks unit/diagonal/banded/full, planted defect 0..2, "
             "regularisation none/all/resolving subset), each run through 4 algorithms x {Adj, AdjBase} ; non-trivial = defect>0 or a correlated block; distinct by content"
             % ((10, 6) if ctx.quick else (13, 8)))
