"""C05 -- linearised observation equations equal the true Jacobian and misclosure.

proof:  coq/Properties_C05.v (Coquelicot): the closed forms stored by LocalLinearization are the partial derivatives
        of distance, bearing (both charts), slope distance and zenith angle; angular right-hand sides are reduced
        into [-200,200] gon modulo 400 gon by the two while loops; the half-open claim is refuted at -200 gon
K:      real GKFparser + LocalNetwork::project_equations (harness/lnet.cpp) on generated networks with all 13
        observation types, every quadrant, free/fixed/constrained mixes; each row (rhs, index roles, coefficients)
        compared inside coqc with the binary64 transliteration coq/LinRun.v
search: central differences of the observation functions (python, independent of the model) against the
        implementation's coefficients, and observed-minus-computed for the right-hand side
"""
import math
import vlib
from tools import gama, netgen

TY = {"direction": 1, "distance": 2, "angle": 3, "dh": 4, "s-distance": 5, "z-angle": 6, "azimuth": 7, "dx": 8, "dy": 9, "dz": 10,
      "x": 11, "y": 12, "z": 13}
ANG = {"direction", "angle", "z-angle", "azimuth"}


def fx(t):
    if t == "-":
        return 0.0
    try:
        return float.fromhex(t)
    except ValueError:
        return float(t.replace("-nan", "nan"))     # nan / inf as printed by the harness: judged like any other wrong number


def parse_lnet(out):
    d = {"points": {}, "obs": [], "rows": [], "unknowns": {}, "exc": None, "removed": [], "pass2": None}
    top = d
    lines_ = out.split("\n")
    for k_, l in enumerate(lines_):
        w = l.split()
        if not w:
            continue
        try:
            _parse_line(w, d, top)
        except (ValueError, IndexError):
            # a record cut short: the harness died while writing it (reported by the caller through its exit status)
            top["truncated"] = True
            if top["exc"] is None:
                top["exc"] = "output of the harness ends inside a record: %s" % l[:80]
            break
        if w[0] == "PASS":
            d = top["pass2"]
        elif w[0] in ("MINN", "DEFECT", "X", "R", "VWV", "LINDEP", "REMOVED", "EXC", "END"):
            d = top
    return top


def _parse_line(w, d, top):
    if True:
        if w[0] == "PASS":
            d = {"points": {}, "obs": [], "rows": [], "unknowns": {}, "exc": None, "removed": [], "xnorth": top.get("xnorth", 0.0)}
            top["pass2"] = d
            return
        if w[0] in ("MINN", "DEFECT", "X", "R", "VWV", "LINDEP", "REMOVED", "EXC", "END"):
            d = top
        if w[0] == "POINT":
            d["points"][w[1]] = {"x": fx(w[2]), "y": fx(w[3]), "z": fx(w[4]), "flags": w[5], "ix": int(w[6]), "iy": int(w[7]), "iz": int(w[8]),
                                 "has_xy": w[2] != "-", "has_z": w[4] != "-"}
        elif w[0] == "OBS":
            d["obs"].append({"t": w[2], "from": w[3], "to": w[4], "fs": w[5], "raw": fx(w[6]), "val": fx(w[7]), "sd": fx(w[8]),
                             "from_dh": fx(w[9]), "to_dh": fx(w[10]), "orient": fx(w[11]), "iori": int(w[12]), "w": fx(w[13])})
        elif w[0] == "ROW":
            n = int(w[4])
            d["rows"].append({"w": fx(w[2]), "rhs": fx(w[3]), "idx": [int(v) for v in w[5:5 + n]], "coef": [fx(v) for v in w[5 + n:5 + 2 * n]]})
        elif w[0] == "UNKNOWN":
            d["unknowns"][int(w[1])] = (w[2], w[3])
        elif w[0] == "CONSISTENT":
            d["consistent"] = w[1] == "1"
            d["xnorth"] = fx(w[3])
            d["m0"] = fx(w[5])
        elif w[0] == "EXC":
            d["exc"] = " ".join(w[1:])
        elif w[0] == "MINN":
            d["minx"] = [int(v) for v in w[2:]]
        elif w[0] == "DEFECT":
            d["defect"] = int(w[1])
        elif w[0] == "X":
            d["x"] = [fx(v) for v in w[1:]]
        elif w[0] == "R":
            d["r"] = [fx(v) for v in w[1:]]
        elif w[0] == "VWV":
            d["vwv"] = fx(w[1]); d["dof"] = int(w[3]); d["m0post"] = fx(w[5])
        elif w[0] == "LINDEP":
            d["lindep"] = [int(v) for v in w[1:] if v in ("0", "1")]
        elif w[0] == "REMOVED":
            d["removed"] = w[1:]



def roles_of(d, ob):
    """index -> role code for one observation"""
    m = {}
    if ob["iori"]:
        m[ob["iori"]] = 0
    pf = d["points"][ob["from"]]
    for k, r in (("ix", 1), ("iy", 2), ("iz", 3)):
        if pf[k]:
            m.setdefault(pf[k], r)
    if ob["t"] not in ("x", "y", "z"):
        pt = d["points"].get(ob["to"])
        if pt:
            for k, r in (("ix", 4), ("iy", 5), ("iz", 6)):
                if pt[k]:
                    m.setdefault(pt[k], r)
    if ob["t"] == "angle":
        pc = d["points"][ob["fs"]]
        for k, r in (("ix", 7), ("iy", 8)):
            if pc[k]:
                m.setdefault(pc[k], r)
    return m


def free_flags(p):
    f = p["flags"]      # fixed_xy free_xy constr_xy fixed_z free_z constr_z active_xy active_z
    return (f[1] == "1" or f[2] == "1", f[4] == "1" or f[5] == "1")


def obs_fn(t, A, B, C, orient, xnorth, face2=False):
    """observation function in internal units (rad / m) from coordinates; the generator's own statement"""
    if t in ("direction", "azimuth"):
        s = math.atan2(B[1] - A[1], B[0] - A[0])
        return s - (orient if t == "direction" else xnorth)
    if t == "distance":
        return math.hypot(B[0] - A[0], B[1] - A[1])
    if t == "angle":
        return (math.atan2(C[1] - A[1], C[0] - A[0]) - math.atan2(B[1] - A[1], B[0] - A[0]))
    if t in ("dh", "dz"):
        return B[2] - A[2]
    if t == "s-distance":
        return math.sqrt(sum((B[i] - A[i]) ** 2 for i in range(3)))
    if t == "z-angle":
        z = math.atan2(math.hypot(B[0] - A[0], B[1] - A[1]), B[2] - A[2])
        return 2 * math.pi - z if face2 else z      # a reading above 200 gon is a second-face reading: 400 gon - z
    if t == "dx":
        return B[0] - A[0]
    if t == "dy":
        return B[1] - A[1]
    if t in ("x", "y", "z"):
        return A["xyz".index(t)]
    raise ValueError(t)


def derivative_oracle(d, k):
    """central differences vs the implementation's row k; returns description of the failure or None"""
    ob, row = d["obs"][k], d["rows"][k]
    P = d["points"]
    A = [P[ob["from"]][c] for c in "xyz"]
    B = [P[ob["to"]][c] for c in "xyz"] if ob["to"] in P else [0, 0, 0]
    C = [P[ob["fs"]][c] for c in "xyz"] if ob["t"] == "angle" else [0, 0, 0]
    roles = roles_of(d, ob)
    unit = (200 / math.pi * 1e4) if ob["t"] in ANG else 1e3
    face2 = ob["t"] == "z-angle" and ob["val"] > math.pi
    f0 = obs_fn(ob["t"], A, B, C, ob["orient"], d["xnorth"], face2)
    for idx, cf in zip(row["idx"], row["coef"]):
        r = roles.get(idx)
        if r is None:
            return "coefficient placed at unknown %d which belongs to none of the observation's points" % idx
        if r == 0:
            num = -1.0
        else:
            h = 1e-4
            Ap, Bp, Cp, Am, Bm, Cm = A[:], B[:], C[:], A[:], B[:], C[:]
            tgt = {1: (Ap, Am, 0), 2: (Ap, Am, 1), 3: (Ap, Am, 2), 4: (Bp, Bm, 0), 5: (Bp, Bm, 1), 6: (Bp, Bm, 2), 7: (Cp, Cm, 0), 8: (Cp, Cm, 1)}[r]
            tgt[0][tgt[2]] += h
            tgt[1][tgt[2]] -= h
            df = obs_fn(ob["t"], Ap, Bp, Cp, ob["orient"], d["xnorth"], face2) - obs_fn(ob["t"], Am, Bm, Cm, ob["orient"], d["xnorth"], face2)
            if ob["t"] in ANG:
                df = (df + math.pi) % (2 * math.pi) - math.pi
            num = df / (2 * h) * unit / 1e3      # per mm
        if abs(num - cf) > 1e-5 * max(1.0, abs(num)):
            return "coefficient of %s w.r.t. role %d is %.9g, the derivative of the observation function is %.9g" % (ob["t"], r, cf, num)
    # every free coordinate the function depends on must have a coefficient: checked by the model comparison (count)
    mis = (ob["val"] - f0) * unit
    if ob["t"] in ANG and ob["t"] != "z-angle":
        mis = (mis + 200e4) % 400e4 - 200e4
        if abs(abs(mis) - 200e4) < 1e-3:
            return None
    if abs(mis - row["rhs"]) > 1e-3 + 1e-9 * abs(mis):
        return "right-hand side %.6f differs from observed - computed = %.6f (%s)" % (row["rhs"], mis, ob["t"])
    return None


def hexf(x):
    return vlib.hexfloat(x)


def coq_row(d, k):
    ob, row = d["obs"][k], d["rows"][k]
    P = d["points"]
    a = P[ob["from"]]
    b = P.get(ob["to"]) or {"x": 0.0, "y": 0.0, "z": 0.0, "flags": "00000000"}
    c = P.get(ob["fs"]) if ob["t"] == "angle" else None
    c = c or {"x": 0.0, "y": 0.0, "z": 0.0, "flags": "00000000"}
    roles = roles_of(d, ob)
    fa, fb, fc = free_flags(a), free_flags(b), free_flags(c)
    coefs = []
    for idx, cf in zip(row["idx"], row["coef"]):
        coefs.append("(%d%%nat, %s)" % (roles.get(idx, 99), hexf(cf)))
    b2 = lambda v: "true" if v else "false"
    return "mkrow %d %s %s %s %s %s %s %s %s %s %s %s %s %s %s %s %s %s [%s]" % (
        TY[ob["t"]], hexf(a["x"]), hexf(a["y"]), hexf(a["z"]), hexf(b["x"]), hexf(b["y"]), hexf(b["z"]), hexf(c["x"]), hexf(c["y"]),
        hexf(ob["val"]), hexf(ob["orient"]), hexf(d["xnorth"]), b2(fa[0]), b2(fa[1]), b2(fb[0]), b2(fb[1]), b2(fc[0]),
        hexf(row["rhs"]), "; ".join(coefs))


def gen_net(rng):
    dim = rng.choice([2, 2, 3, 3])
    n = rng.randint(4, 7)
    datum = rng.choice(["fixed", "fixed", "free"])
    kinds = ["direction", "distance", "angle", "angle"] + (["s-distance", "z-angle", "dh"] if dim == 3 else [])
    net, truth, meta = netgen.make_network(rng, dim=dim, n=n, n_fixed=rng.randint(2, 3), datum=datum, kinds=kinds, extra=1.2,
                                           perturb=rng.choice([0.0, 0.02, 0.3]), with_heights=rng.random() < 0.5)
    ids = [p["id"] for p in net["points"]]
    if dim == 3 and rng.random() < 0.6:
        # height-only benchmarks tied to the 3D points by levelled height differences
        hd = []
        for j in range(rng.randint(1, 2)):
            hid = "H%d" % (j + 1)
            z = 300.0 + rng.uniform(-20, 20)
            truth[hid] = (0.0, 0.0, z)
            net["points"].insert(rng.randrange(len(net["points"]) + 1), {"id": hid, "z": z + rng.uniform(-0.01, 0.01), "adj": "z"})
            for q in rng.sample(ids, 2):
                hd.append({"t": "dh", "from": q, "to": hid, "val": z - truth[q][2] + rng.gauss(0, 0.002), "stdev": 2.0})
        net["clusters"].append({"kind": "height-differences", "obs": hd})
    if rng.random() < 0.6:
        netgen.add_coordinates_cluster(rng, net, truth, rng.sample(ids, 2), dim=dim, cov_band=rng.choice([None, 1]))
    if dim == 3 and rng.random() < 0.6:
        prs = [tuple(rng.sample(ids, 2)) for _ in range(2)]
        netgen.add_vectors_cluster(rng, net, truth, prs, cov_band=rng.choice([None, 2]))
    if rng.random() < 0.6:
        netgen.add_azimuths(rng, net, truth, [tuple(rng.sample(ids, 2)) for _ in range(2)])
    # angles whose observed value and computed value straddle the 0/400 gon wrap: a new fixed point on the ray
    # station -> backsight, half a millimetre to the left or right of it
    if dim in (2, 3):
        for _ in range(rng.randint(1, 3)):
            st, bs = rng.sample(ids, 2)
            A, B = truth[st], truth[bs]
            k = rng.uniform(1.3, 2.0)
            off = rng.choice([-1, 1]) * rng.uniform(1e-4, 8e-4)
            L = math.hypot(B[0] - A[0], B[1] - A[1])
            nx, ny = -(B[1] - A[1]) / L, (B[0] - A[0]) / L
            C = (A[0] + k * (B[0] - A[0]) + off * nx, A[1] + k * (B[1] - A[1]) + off * ny, B[2])
            cid = "W%d" % (len(net["points"]) + 1)
            truth[cid] = C
            pt = {"id": cid, "x": C[0], "y": C[1], "fix": "xy"}
            if dim == 3:
                pt["z"] = C[2]; pt["fix"] = "xyz"
            net["points"].append(pt)
            ob = {"t": "angle", "bs": bs, "fs": cid, "stdev": 10.0}
            ob["val"] = netgen.obs_value(ob, truth, 0.0, st)
            if rng.random() < 0.5:
                ob["bs"], ob["fs"] = cid, bs
                ob["val"] = netgen.obs_value(ob, truth, 0.0, st)
            net["clusters"].append({"kind": "obs", "from": st, "obs": [ob]})
    # zenith angles read in the second face of the instrument: 400 gon - z
    for c in net["clusters"]:
        if c["kind"] == "obs" and not c.get("cov"):
            for ob in c["obs"]:
                if ob["t"] == "z-angle" and "valstr" not in ob and rng.random() < 0.35:
                    ob["val"] = 400.0 - ob["val"]
    # put some observed values near the wrap: turn a direction set so that a reading is ~0 / ~400 / ~200 gon
    for c in net["clusters"]:
        if c["kind"] == "obs" and rng.random() < 0.5:
            dirs = [ob for ob in c["obs"] if ob["t"] == "direction"]
            if dirs:
                sh = (rng.choice([0.0, 200.0, 399.9999, 0.0001]) - dirs[0]["val"]) % 400.0
                for ob in dirs:
                    ob["val"] = (ob["val"] + sh) % 400.0
    return net, truth, meta


def run(ctx):
    ctx.check_proofs(extra_files=["LinRun"])
    exe = vlib.compile_harness("harness/lnet.cpp", link_gama=True)
    nnet = 25 if ctx.quick else 250
    rows_v, meta_rows = [], []
    bad = 0
    for t in range(nnet):
        net, truth, meta = gen_net(ctx.rng)
        txt = gama.render_gkf(net)
        path = ctx.scratch + "/c05_%d.gkf" % t
        open(path, "w").write(txt)
        rc, out, err = vlib.sh([exe, path, "gso", "twice"], timeout=60)
        d = parse_lnet(out)
        d2 = d.get("pass2")
        if rc == 0 and not d["exc"] and d2 is not None:
            # index assignment: the unknowns used by the rows are exactly 1..n, one per free coordinate / orientation, in both passes
            for name, dd in (("first", d), ("second", d2)):
                used = sorted(set(i for r in dd["rows"] for i in r["idx"]))
                owners = {}
                for pid, p in dd["points"].items():
                    for kx in ("ix", "iy", "iz"):
                        if p[kx]:
                            owners.setdefault(p[kx], []).append((pid, kx))
                for ob in dd["obs"]:
                    if ob["iori"]:
                        owners.setdefault(ob["iori"], [])
                        if ("ori", ob["from"]) not in owners[ob["iori"]]:
                            owners[ob["iori"]].append(("ori", ob["from"]))
                dup = {i: o for i, o in owners.items() if len(o) > 1}
                if dup or (used and used != list(range(1, len(used) + 1))):
                    ctx.violation({"kind": "K:index-assignment", "gkf": txt, "pass": name, "shared_unknowns": {str(k): v for k, v in dup.items()}, "used": used},
                                  "index assignment is not a bijection in the %s build of the project equations: %s" % (name, dup or used))
                    bad += 1
                    break
            if len(d2["rows"]) != len(d["rows"]):
                ctx.violation({"kind": "K:rebuild", "gkf": txt}, "rebuilding the project equations changed the number of rows"); bad += 1
        if rc != 0 or d["exc"] or len(d["obs"]) != len(d["rows"]):
            ctx.violation({"kind": "K:linearization", "gkf": txt, "rc": rc, "exc": d["exc"], "stderr": err[-800:]},
                          "harness failed on a generated network: rc=%d %s" % (rc, d["exc"]))
            bad += 1
            continue
        if d2 is not None and len(d2["obs"]) == len(d2["rows"]):
            for k in range(len(d2["obs"])):
                rows_v.append(coq_row(d2, k))
                meta_rows.append((t, k, d2, txt))
        for k in range(len(d["obs"])):
            rows_v.append(coq_row(d, k))
            meta_rows.append((t, k, d, txt))
            ob = d["obs"][k]
            ctx.hist("observation_type", ob["t"])
            A, B = d["points"][ob["from"]], d["points"].get(ob["to"])
            if B and ob["t"] in ("direction", "distance", "azimuth", "angle"):
                ctx.hist("quadrant", (B["x"] >= A["x"], B["y"] >= A["y"]))
            ctx.count(("row", ob["t"], A["x"], A["y"], ob["val"], tuple(d["rows"][k]["idx"])), nontrivial=len(d["rows"][k]["idx"]) > 0)
    ctx.sample({"row": rows_v[0][:400] if rows_v else None})
    # judge inside Coq, in shards
    shard = 400
    badidx = []
    for s0 in range(0, len(rows_v), shard):
        v = "From Coq Require Import List Floats NArith.\nFrom Gama Require Import LinRun.\nImport ListNotations.\nLocal Open Scope float_scope.\n" \
            "Definition rows : list lrow := [\n%s\n].\n" % ";\n".join(rows_v[s0:s0 + shard]) + \
            'Goal True. idtac "@@ROWS". Abort.\nEval vm_compute in bad_rows rows.\n'
        rc, cout = vlib.coq_run(v, ctx.scratch, name="cases_c05_%d" % s0, timeout=900)
        lst = vlib.parse_coq_list(cout, "@@ROWS")
        ctx.checker_cmds.append("coqc -Q coq Gama cases_c05_%d.v" % s0)
        ok = rc == 0 and lst == []
        ctx.obligation(ok, "K:linearization shard %d" % s0)
        if rc != 0 or lst is None:
            ctx.log(cout[-1000:])
            ctx.violation({"kind": "K:linearization", "broken": "cases file did not evaluate", "tail": cout[-600:]}, "cases file failed", no_input=True)
        else:
            badidx += [s0 + int(x.replace("%N", "")) for x in lst]
    for i in badidx[:6]:
        t, k, d, txt = meta_rows[i]
        why = derivative_oracle(d, k)
        rep = {"kind": "K:linearization", "gkf": txt, "observation_index": k + 1, "observation": d["obs"][k], "row": d["rows"][k]}
        if why:
            rep["oracle"] = why
            ctx.violation(rep, why)
        else:
            rep["broken"] = "correspondence K:LocalLinearization (LinRun.model vs project_equations row)"
            ctx.violation(rep, "model and implementation disagree on the row of a %s observation, finite differences agree with the implementation" % d["obs"][k]["t"], no_input=True)
    return ctx.finish(rule="generated 2D/3D networks with directions, distances, angles, azimuths, slope distances, zenith angles (with and without "
                           "instrument/target heights), height differences, observed coordinates and vectors; fixed/free/constrained points; approximate "
                           "coordinates exact / perturbed 2 cm / 30 cm; direction sets turned to readings near 0/200/400 gon; one case = one row of the "
                           "project equations; non-trivial = at least one coefficient; distinct by content")
