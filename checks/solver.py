"""Shared solver-level correspondence (kinds K and C) for C01, C02, C03, C08, C20:
generated adjustment problems -> harness/adj.cpp (the four algorithms, both entry points)
-> cases file evaluated by coqc against the exact rational reference model coq/QLsq.v."""
import os, math, json
from fractions import Fraction
import vlib

ALGS = ["envelope", "gso", "svd", "cholesky"]


def frank(rows, ncols):
    """exact rank (fractions)"""
    M = [[Fraction(v) for v in r] for r in rows]
    rk = 0
    for j in range(ncols):
        p = None
        for i in range(rk, len(M)):
            if M[i][j] != 0:
                p = i
                break
        if p is None:
            continue
        M[rk], M[p] = M[p], M[rk]
        pv = M[rk][j]
        M[rk] = [v / pv for v in M[rk]]
        for i in range(len(M)):
            if i != rk and M[i][j] != 0:
                f = M[i][j]
                M[i] = [a - f * b for a, b in zip(M[i], M[rk])]
        rk += 1
    return rk


def null_basis(rows, ncols):
    M = [[Fraction(v) for v in r] for r in rows]
    piv = []
    rk = 0
    for j in range(ncols):
        p = None
        for i in range(rk, len(M)):
            if M[i][j] != 0:
                p = i
                break
        if p is None:
            continue
        M[rk], M[p] = M[p], M[rk]
        pv = M[rk][j]
        M[rk] = [v / pv for v in M[rk]]
        for i in range(len(M)):
            if i != rk and M[i][j] != 0:
                f = M[i][j]
                M[i] = [a - f * b for a, b in zip(M[i], M[rk])]
        piv.append(j)
        rk += 1
    free = [j for j in range(ncols) if j not in piv]
    G = []
    for f in free:
        g = [Fraction(0)] * ncols
        g[f] = Fraction(1)
        for k, pj in enumerate(piv):
            g[pj] = -M[k][f]
        G.append(g)
    return G


def resolves(G, S):
    if not G:
        return True
    M = [[sum(g1[j] * g2[j] for j in S) for g2 in G] for g1 in G]
    return frank(M, len(G)) == len(G)


def gen_problem(rng, maxm=11, maxn=6, defect=None, subset=None, covkind=None):
    """returns dict(m,n,A,b,blocks,S,mk,defect) with small-integer data; rank exact by construction"""
    while True:
        n = rng.randint(2, maxn)
        d = defect if defect is not None else rng.choice([0, 0, 0, 1, 1, 2])
        d = min(d, n - 1)
        m = rng.randint(n + 1, maxm)
        r = n - d
        if rng.random() < 0.15:
            # as many or fewer equations than unknowns (free networks without redundancy): defect >= n - m
            m = rng.randint(1, n)
            r = rng.randint(1, max(1, min(m, n - (defect or 0))))
            d = n - r
        base = [[rng.choice([-3, -2, -1, 0, 0, 1, 1, 2, 3]) for _ in range(r)] for _ in range(m)]
        # dependent columns: small integer combinations of the base columns, inserted at random positions
        cols = [[row[j] for row in base] for j in range(r)]
        for _ in range(d):
            co = [rng.choice([-2, -1, 0, 1, 1, 2]) for _ in range(r)]
            if all(c == 0 for c in co):
                co[rng.randrange(r)] = 1
            cols.append([sum(co[j] * base[i][j] for j in range(r)) for i in range(m)])
        rng.shuffle(cols)
        A = [[cols[j][i] for j in range(n)] for i in range(m)]
        if frank(A, n) != r:
            continue
        if any(all(v == 0 for v in row) for row in A):
            continue          # a zero row is legal but uninteresting; keep the design matrix without empty rows
        if any(all(A[i][j] == 0 for i in range(m)) for j in range(n)):
            continue
        break
    b = [rng.choice([-4, -3, -2, -1, 0, 1, 2, 3, 4]) / rng.choice([1, 1, 2]) for _ in range(m)]
    # covariance blocks
    blocks = []
    left = m
    while left > 0:
        dim = min(left, rng.choice([1, 1, 2, 3, 4, 5]))
        kind = covkind or rng.choice(["unit", "diag", "band", "band", "full"])
        if kind == "unit":
            w, vals = 0, [1.0] * dim
        elif kind == "diag":
            w, vals = 0, [float(rng.choice([1, 2, 4, 0.5, 0.25])) for _ in range(dim)]
        else:
            w = dim - 1 if kind == "full" else rng.randint(0, dim - 1)
            B = [[0] * dim for _ in range(dim)]
            for i in range(dim):
                B[i][i] = rng.choice([1, 2])
                for k in range(1, w + 1):
                    if i - k >= 0:
                        B[i][i - k] = rng.choice([-1, 0, 1, 1])
            C = [[sum(B[i][k] * B[j][k] for k in range(dim)) for j in range(dim)] for i in range(dim)]
            sc = rng.choice([1, 1, 0.5, 0.25])
            vals = []
            for i in range(dim):
                for j in range(i, min(dim, i + w + 1)):
                    vals.append(C[i][j] * sc)
        blocks.append((dim, w, vals))
        left -= dim
    G = null_basis(A, n)
    sk = subset or rng.choice(["none", "all", "resolving", "resolving"])
    if sk == "none":
        S, mk = list(range(n)), -1
    elif sk == "all":
        S, mk = list(range(n)), n
    elif sk == "resolving":
        for _ in range(50):
            k = rng.randint(max(1, len(G)), n)
            S = sorted(rng.sample(range(n), k))
            if resolves(G, S):
                break
        else:
            S = list(range(n))
        mk = len(S)
    else:  # "nonresolving": needs a defect
        S = None
        if G:
            for _ in range(200):
                k = rng.randint(1, n)
                S = sorted(rng.sample(range(n), k))
                if not resolves(G, S):
                    break
                S = None
        if S is None:
            S, sk = list(range(n)), "all"
        mk = len(S)
    return {"m": m, "n": n, "A": A, "b": b, "blocks": blocks, "S": S, "mk": mk, "defect": len(G), "subset": sk}


def hx(v):
    return float(v).hex()


def problem_script(p):
    o = ["P %d %d %d" % (p["m"], p["n"], len(p["blocks"]))]
    for r in p["A"]:
        o.append("A " + " ".join(hx(v) for v in r))
    o.append("b " + " ".join(hx(v) for v in p["b"]))
    for (d, w, v) in p["blocks"]:
        o.append("C %d %d " % (d, w) + " ".join(hx(x) for x in v))
    o.append("M %d " % p["mk"] + " ".join(str(i + 1) for i in (p["S"] if p["mk"] >= 0 else [])))
    o.append("END")
    return o


def qlit(x):
    """python float / int / Fraction -> Coq Q literal (exact)"""
    f = Fraction(x)
    return "(%d # %d)%%Q" % (f.numerator, f.denominator)


def parse_line(l):
    w = l.split()
    if not w:
        return ("crash",)
    if w[0] == "ok":
        return ("ok", w[1:])
    return ("exc", w[1:] if len(w) > 1 else [])


def fl(tok):
    return float.fromhex(tok)


def run_problems(exe, problems, entries, qpairs, timeout=600):
    """for each problem, for each (entry, alg): new; x; r; ssq; defect; qxx pairs; qbb pairs.
    returns list (per problem) of list (per entry/alg) of result dicts; a crash of the harness is
    reported as {"crash": stderr}"""
    res = []
    for pi, p in enumerate(problems):
        script = problem_script(p)
        plan = []
        for (entry, alg) in entries:
            script.append("new %s %s" % (entry, alg))
            cmds = ["x", "r", "ssq", "defect"] + ["qxx %d %d" % (i + 1, j + 1) for (i, j) in qpairs[pi][0]] + \
                   ["qbb %d %d" % (i + 1, j + 1) for (i, j) in qpairs[pi][1]]
            script += cmds
            plan.append((entry, alg, cmds))
        script.append("free")
        rc, out, err = vlib.sh([exe], inp="\n".join(script) + "\n", timeout=timeout)
        lines = out.split("\n")
        k = 1  # skip "ok problem"
        pres = []
        for (entry, alg, cmds) in plan:
            r = {"entry": entry, "alg": alg}
            k += 1  # ok new
            vals = []
            for c in cmds:
                vals.append(parse_line(lines[k]) if k < len(lines) else ("crash",))
                k += 1
            if any(v[0] == "crash" for v in vals):
                r["crash"] = err[-3000:] or ("rc=%d" % rc)
            else:
                r["raw"] = dict(zip(cmds, vals))
                r["cmds"] = cmds
            pres.append(r)
        res.append(pres)
    return res


def impl_term(p, r, qp):
    """Coq term of type impl_res for one result"""
    if "crash" in r:
        return None
    raw = r["raw"]
    if raw["x"][0] == "exc":
        kind = raw["x"][1]
        code = int(kind[1]) if kind and kind[0] == "matvec" and len(kind) > 1 and kind[1].lstrip("-").isdigit() else 99
        return "IExc %d" % code
    for c in r["cmds"]:
        if raw[c][0] != "ok":
            return "IExc 98"
    x = [fl(t) for t in raw["x"][1]]
    rr = [fl(t) for t in raw["r"][1]]
    if r["entry"] == "base" and r["alg"] != "envelope":
        rr = []      # the full solvers used directly return the residuals of the homogenised system
    if any(math.isnan(v) or math.isinf(v) for v in x + rr):
        return "IExc 97"
    ssq = fl(raw["ssq"][1][0])
    d = int(raw["defect"][1][0])
    qxx = ["(%d, %d, %s)" % (i, j, qlit(fl(raw["qxx %d %d" % (i + 1, j + 1)][1][0]))) for (i, j) in qp[0]]
    # the solver classes used directly answer q_bb for the homogenised system; only Adj::q_bb is in original units
    qbb = ["(%d, %d, %s)" % (i, j, qlit(fl(raw["qbb %d %d" % (i + 1, j + 1)][1][0]))) for (i, j) in qp[1]] if r["entry"] == "adj" else []
    return "IOk [%s] [%s] %s %d [%s] [%s]" % ("; ".join(qlit(v) for v in x), "; ".join(qlit(v) for v in rr), qlit(ssq), d,
                                              "; ".join(qxx), "; ".join(qbb))


def case_term(p, impls, tol="(1 # 100000000)%Q"):
    A = "[%s]" % "; ".join("[%s]" % "; ".join(qlit(v) for v in r) for r in p["A"])
    b = "[%s]" % "; ".join(qlit(v) for v in p["b"])
    bl = "[%s]" % "; ".join("(%d, %d, [%s])" % (d, w, "; ".join(qlit(v) for v in vals)) for (d, w, vals) in p["blocks"])
    S = "[%s]" % "; ".join(str(i) for i in p["S"])
    return "mkcase %d %d %s %s %s %s %s [%s]" % (p["m"], p["n"], A, b, bl, S, tol, "; ".join(impls))


CODES = {1: "unknowns x", 2: "residuals", 3: "sum of squares", 4: "defect", 5: "q_xx", 6: "q_bb", 7: "outcome (solved / exception kind)",
         9: "reference certificate"}


def judge_in_coq(ctx, problems, results, qpairs, name, shard=40):
    """writes cases files, runs coqc (shards in parallel), returns list of (problem index, [(k, code)])
    k = index (1-based) into the per-problem list of entry/alg results; None if coqc failed"""
    import concurrent.futures
    shards = []
    for s in range(0, len(problems), shard):
        terms = []
        for pi in range(s, min(len(problems), s + shard)):
            impls = []
            for r in results[pi]:
                t = impl_term(problems[pi], r, qpairs[pi])
                impls.append(t if t is not None else "IExc 96")
            terms.append(case_term(problems[pi], impls))
        v = "From Coq Require Import List QArith ZArith.\nFrom Gama Require Import QLsq QLsqRun.\nImport ListNotations.\nClose Scope Q_scope.\n" \
            "Definition cases : list lcase := [\n%s\n].\n" % ";\n".join(terms) + \
            'Goal True. idtac "@@JUDGE". Abort.\nEval vm_compute in judge_all 0 cases.\n'
        shards.append((s, v))

    def one(a):
        s, v = a
        rc, out = vlib.coq_run(v, ctx.scratch, name="%s_%d" % (name, s), timeout=1500)
        return s, rc, out
    bad = []
    ok_all = True
    with concurrent.futures.ThreadPoolExecutor(max_workers=min(vlib.NCPU, 12)) as ex:
        for s, rc, out in ex.map(one, shards):
            lst = vlib.parse_coq_list(out, "@@JUDGE")
            ctx.checker_cmds.append("coqc -Q coq Gama %s_%d.v" % (name, s))
            good = rc == 0 and lst == []
            ctx.obligation(good, "C/K shard %s_%d" % (name, s))
            if rc != 0 or lst is None:
                ok_all = False
                ctx.log("coqc failed on shard", s, out[-800:])
                bad.append((None, out[-800:]))
                continue
            for el in lst:
                # (k, [(a, b); ...])
                import re
                m = re.match(r"\(\s*(\d+),\s*\[(.*)\]\s*\)", el.replace("%nat", ""))
                if m is None:
                    ctx.log("unparsed judge element:", el[:300])
                    bad.append((None, el[:300]))
                    continue
                k = int(m.group(1))
                prs = [(int(a), int(b)) for a, b in re.findall(r"\((\d+),\s*(\d+)\)", m.group(2))]
                bad.append((s + k, prs))
    return bad


HARNESS_SRC = ["lib/gnu_gama/adj/adj.cpp", "lib/gnu_gama/adj/icgs.cpp", "lib/gnu_gama/adj/adj_input_data.cpp"]


def build_harness(ctx, sanitize=None):
    return vlib.compile_harness("harness/adj.cpp", sanitize=(not ctx.quick) if sanitize is None else sanitize, extra_src=HARNESS_SRC)


def solver_level(ctx, name, ncase, subset_choices, oracle, want_q="none", defect_choices=None, maxm=10, maxn=6, entries=None,
                 covkind=None):
    """generate problems, run the harness, judge inside Coq, search with `oracle` on disagreement.
    want_q: 'none' | 'all' (all pairs q_xx, sample of q_bb)"""
    exe = build_harness(ctx)
    problems, qpairs = [], []
    for i in range(ncase):
        p = gen_problem(ctx.rng, maxm=maxm, maxn=maxn, subset=ctx.rng.choice(subset_choices),
                        defect=(ctx.rng.choice(defect_choices) if defect_choices else None), covkind=covkind)
        problems.append(p)
        if want_q == "all" and p["subset"] != "nonresolving":
            qx = [(i, j) for i in range(p["n"]) for j in range(p["n"])]
            qb = [(i, j) for i in range(p["m"]) for j in range(p["m"])]
            ctx.rng.shuffle(qb)
            qb = [(i, i) for i in range(p["m"])] + qb[:p["m"]]
            qpairs.append((qx, qb))
        else:
            qpairs.append(([], []))
        ctx.count((name, p["A"], p["b"], p["blocks"], p["S"]), nontrivial=(p["defect"] > 0 or any(w > 0 for _, w, _ in p["blocks"])))
        ctx.hist("defect", p["defect"]); ctx.hist("n", p["n"]); ctx.hist("m", p["m"]); ctx.hist("subset", p["subset"])
        for (_, w, _) in p["blocks"]:
            ctx.hist("block_bandwidth", w)
    entries = entries or [(e, a) for e in ("adj", "base") for a in ALGS]
    results = run_problems(exe, problems, entries, qpairs)
    bad = judge_in_coq(ctx, problems, results, qpairs, "cases_" + name)
    ctx.sample({"problem": {k: problems[0][k] for k in ("m", "n", "A", "b", "blocks", "S", "defect", "subset")}})
    ctx.extra["algorithms_x_entry_points"] = ["%s/%s" % e for e in entries]
    ctx.extra["tolerance"] = "1e-8 * max(1, max|reference|), reference exact in Q"
    reported = 0
    for (pi, prs) in bad:
        if pi is None:
            ctx.violation({"kind": "C:QLsq", "broken": "coqc could not evaluate the cases file", "tail": prs}, "cases file failed", no_input=True)
            continue
        p = problems[pi]
        for (k, code) in prs:
            if reported >= 5:
                break
            reported += 1
            if k == 0:
                ctx.violation({"kind": "C:reference-certificate", "problem": p}, "reference model failed its own exact certificate (model defect)", no_input=True)
                continue
            r = results[pi][k - 1]
            why = oracle(p, r, results[pi], qpairs[pi], code)
            rep = {"kind": "K:adjust", "problem": p, "entry": r["entry"], "algorithm": r["alg"], "disagreement": CODES.get(code, code),
                   "impl": {c: r["raw"][c] for c in ("x", "r", "ssq", "defect")} if "raw" in r else r.get("crash")}
            if why:
                rep["oracle"] = why
                ctx.violation(rep, "%s/%s: %s (m=%d n=%d defect=%d subset=%s)" % (r["entry"], r["alg"], why, p["m"], p["n"], p["defect"], p["subset"]))
            else:
                rep["broken"] = "correspondence K:adjust (QLsq.adjust vs %s/%s) on %s" % (r["entry"], r["alg"], CODES.get(code, code))
                ctx.violation(rep, "model and implementation disagree on %s, the property oracle found no failing input" % CODES.get(code, code), no_input=True)
    return problems, results, qpairs


def outcome(r):
    if "crash" in r:
        return "crash"
    x = r["raw"]["x"]
    if x[0] == "ok":
        return "solved"
    return "exc:" + " ".join(x[1][:2])
