"""C14 -- exclusions are reported and equal to deleting the excluded items.

proof:  coq/Properties_C14.v: the positional-misclosure rule per observation type (exclusion <=> misclosure > tol-abs) on
        the model of the absolute-term test, and deleting rows = adjusting the selected sub-system (row selection
        theorem on LsqSpec)
E:      generated networks with injected defects: isolated points, single-direction stations, points with one
        determining element, observations to unusable points, blunders of 0.5 / 0.9 / 1.1 / 2 x tol-abs on every
        observation type and several standard deviations, passive clusters; 4 algorithms, several tol-abs:
        what is left out is listed (--text 'Removed points', 'Outlying absolute terms'; --xml counts) and the results
        equal those of the input with the excluded items deleted
"""
import copy, math, os, re
import vlib
from checks import enet
from tools import gama, netgen

R2G = 200 / math.pi


def positional(ob, truth, frm, err):
    """positional misclosure in mm of an error `err` (gon for angular, m for linear types) of observation ob"""
    t = ob["t"]
    A = truth[frm]
    if t in ("direction", "azimuth"):
        B = truth[ob["to"]]
        return abs(err) / R2G * math.hypot(B[0] - A[0], B[1] - A[1]) * 1000
    if t == "angle":
        B = truth[ob["bs"]]      # the implementation uses the first target of the angle
        return abs(err) / R2G * math.hypot(B[0] - A[0], B[1] - A[1]) * 1000
    if t == "z-angle":
        B = truth[ob["to"]]
        return abs(err) / R2G * math.sqrt(sum((B[i] - A[i]) ** 2 for i in range(3))) * 1000
    return abs(err) * 1000


def text_sections(t):
    out = {"removed_points": [], "outlying": []}
    m = re.search(r"Removed points.*?\n\*+\n(.*?)\n\n\n", t, re.S)
    if m:
        for l in m.group(1).split("\n"):
            w = l.split()
            if w:
                out["removed_points"].append(w[0])
    m = re.search(r"Outlying absolute terms.*?=\n\n(.*?)\n\n\n", t, re.S)
    if m:
        for l in m.group(1).split("\n"):
            w = l.split()
            if len(w) >= 3 and w[0].isdigit():
                out["outlying"].append((int(w[0]), w[1], w[2]))
    return out


def obs_key_list(res):
    return sorted((o["tag"], o.get("from") or o.get("id"), o.get("to") or o.get("left") or "", o.get("right") or "") for o in res["observations"])


TAG = {"direction": "direction", "distance": "distance", "angle": "angle", "s-distance": "slope-distance", "z-angle": "zenith-angle", "dh": "height-diff", "azimuth": "azimuth"}


def run(ctx):
    ctx.check_proofs(extra_files=["Properties_C14_rule"])
    bdir = enet.binaries(ctx)
    rng = ctx.rng
    n = 48 if ctx.quick else 300
    bad = 0
    for t in range(n):
        dim = rng.choice([2, 2, 3, 3, 1])
        tol_abs = rng.choice([1000.0, 1000.0, 200.0, 50.0])
        kinds = {1: ["dh"], 2: ["direction", "distance", "angle"], 3: ["direction", "distance", "angle", "s-distance", "z-angle", "dh"]}[dim]
        net, truth, meta = netgen.make_network(rng, dim=dim, n=rng.randint(4, 6), n_fixed={1: 1, 2: 2, 3: 2}[dim], noise=0.2, kinds=kinds, extra=1.2, approx="perturbed", perturb=0.0)
        net["params"]["tol-abs"] = tol_abs
        for p in net["points"]:             # approximate coordinates = truth: the absolute term is the injected error (plus small noise)
            x, y, z = truth[p["id"]]
            for c, v in (("x", x), ("y", y), ("z", z)):
                if c in p:
                    p[c] = v
        defect = rng.choice(["blunder", "blunder", "blunder", "isolated-point", "single-direction", "unusable-target", "one-element"] +
                            (["steep-zenith", "steep-zenith", "sdist-to-2d-point"] if dim == 3 else []))
        expect_deleted = copy.deepcopy(net)
        expect_removed_points = []
        expect_outlier = None
        what = defect
        if defect == "blunder":
            cands = [(ci, oi) for ci, c in enumerate(net["clusters"]) if not c.get("cov") for oi, ob in enumerate(c["obs"]) if ob["t"] in TAG]
            ci, oi = rng.choice(cands)
            c = net["clusters"][ci]
            ob = c["obs"][oi]
            frm = ob.get("from", c.get("from"))
            f = rng.choice([0.5, 0.9, 1.1, 2.0, 10.0])
            ob["stdev"] = rng.choice([ob["stdev"], 2.0, 25.0, net["params"]["sigma-apr"]])
            ang = ob["t"] in ("direction", "angle", "z-angle", "azimuth")
            unit = positional(ob, truth, frm, 1.0)          # mm per unit error
            err = f * tol_abs / unit * rng.choice([-1, 1])
            if ang and abs(err) > 150:
                err = math.copysign(150.0, err); f = abs(err) * unit / tol_abs
            # exact value (noise removed) + error, so that the misclosure is f * tol-abs up to the rounding of the input
            exact = netgen.obs_value(ob, truth, meta["orient"].get(frm, 0.0), frm)
            ob["val"] = (exact + err) % 400.0 if ang and ob["t"] != "z-angle" else exact + err
            if ob["t"] == "direction":
                # the orientation of the set is estimated by a median: keep at least three good directions so that the blunder shows in this one
                ndir = sum(1 for o2 in c["obs"] if o2["t"] == "direction")
                if ndir < 4:
                    continue
            excluded = f > 1.0
            what = "blunder %.1f x tol-abs on %s (stdev %.3g)" % (f, ob["t"], ob["stdev"])
            expect_deleted = copy.deepcopy(net)
            if excluded:
                expect_outlier = (TAG[ob["t"]], frm, ob.get("to") or ob.get("bs"))
                del expect_deleted["clusters"][ci]["obs"][oi]
                expect_deleted["clusters"] = [cc for cc in expect_deleted["clusters"] if cc["obs"]]
            ctx.hist("blunder_factor", f); ctx.hist("blunder_type", ob["t"])
        elif defect == "steep-zenith":
            # a fixed target almost vertically above a station: horizontal distance << slope distance
            ids = [p["id"] for p in net["points"]]
            a = rng.choice(ids)
            A = truth[a]
            truth["TOP"] = (A[0] + rng.uniform(1.0, 3.0), A[1] + rng.uniform(1.0, 3.0), A[2] + rng.uniform(60, 120))
            net["points"].append({"id": "TOP", "x": truth["TOP"][0], "y": truth["TOP"][1], "z": truth["TOP"][2], "fix": "xyz"})
            f = rng.choice([0.9, 1.1, 1.3])
            ob = {"t": "z-angle", "to": "TOP", "stdev": net["params"]["sigma-apr"]}
            unit = positional(ob, truth, a, 1.0)
            err = f * tol_abs / unit * rng.choice([-1, 1])
            ob["val"] = netgen.obs_value(ob, truth, 0.0, a) + err
            sd = {"t": "s-distance", "to": "TOP", "stdev": 5.0}
            sd["val"] = netgen.obs_value(sd, truth, 0.0, a)
            net["clusters"].append({"kind": "obs", "from": a, "obs": [sd, ob]})
            what = "blunder %.1f x tol-abs on z-angle (steep sight)" % f
            expect_deleted = copy.deepcopy(net)
            if f > 1.0:
                expect_outlier = ("zenith-angle", a, "TOP")
                expect_deleted["clusters"][-1]["obs"] = [sd]
            defect = "blunder"
            ctx.hist("blunder_factor", f); ctx.hist("blunder_type", "z-angle-steep")
        elif defect == "sdist-to-2d-point":
            # a point with plane coordinates only: slope distances to it cannot be used and must be left out
            ids = [p["id"] for p in net["points"]]
            a, b = rng.sample(ids, 2)
            Q = (truth[a][0] + 70.0, truth[a][1] + 45.0, 0.0)
            truth["Q2"] = Q
            net["points"].append({"id": "Q2", "x": Q[0], "y": Q[1], "adj": "xy"})
            obs_a = []
            for st in (a, b):
                d = {"t": "distance", "to": "Q2", "stdev": 5.0}
                d["val"] = netgen.obs_value(d, truth, 0.0, st) + rng.gauss(0, 0.002)
                net["clusters"].append({"kind": "obs", "from": st, "obs": [d]})
            c = {"t": "distance", "to": "Q2", "stdev": 5.0}
            ids2 = [i for i in ids if i not in (a, b)]
            if ids2:
                cst = rng.choice(ids2)
                c["val"] = netgen.obs_value(c, truth, 0.0, cst) + rng.gauss(0, 0.002)
                net["clusters"].append({"kind": "obs", "from": cst, "obs": [c]})
            expect_deleted = copy.deepcopy(net)
            sdq = {"t": "s-distance", "to": "Q2", "stdev": 5.0}
            sdq["val"] = netgen.obs_value(sdq, truth, 0.0, a) + 0.004      # consistent with a target height 0: nothing else would reveal it
            net["clusters"].append({"kind": "obs", "from": a, "obs": [sdq]})
            what = "slope distance to a point without height"
        elif defect == "isolated-point":
            net["points"].append({"id": "ISO", "adj": "xy" if dim == 2 else ("z" if dim == 1 else "xyz")})
            expect_removed_points = ["ISO"]
        elif defect == "unusable-target" and dim != 1:
            net["points"].append({"id": "ISO", "adj": "xy" if dim == 2 else ("z" if dim == 1 else "xyz")})
            c = next(cc for cc in net["clusters"] if not cc.get("cov"))
            if c["kind"] == "obs":
                c["obs"].append({"t": "distance", "to": "ISO", "val": 77.7, "stdev": 5.0})
            else:
                c["obs"].append({"t": "dh", "from": c["obs"][0]["from"], "to": "ISO", "val": 1.234, "stdev": 2.0})
            expect_removed_points = ["ISO"]
        elif defect == "single-direction" and dim != 1:
            ids = [p["id"] for p in net["points"]]
            a, b = rng.sample(ids, 2)
            ob = {"t": "direction", "to": b, "stdev": 10.0, "val": 123.4567}
            d2 = {"t": "distance", "to": b, "stdev": 5.0}
            d2["val"] = netgen.obs_value(d2, truth, 0.0, a) + rng.gauss(0, 0.001)
            net["clusters"].append({"kind": "obs", "from": a, "obs": [ob, d2]})
            expect_deleted = copy.deepcopy(net)
            expect_deleted["clusters"][-1]["obs"] = [d2]
        elif defect == "one-element" and dim == 2:
            # a new point tied by a single distance: cannot be determined, must be removed with a reason
            ids = [p["id"] for p in net["points"]]
            a = rng.choice(ids)
            net["points"].append({"id": "ONE", "adj": "xy", "x": truth[a][0] + 40.0, "y": truth[a][1] + 30.0})
            net["clusters"].append({"kind": "obs", "from": a, "obs": [{"t": "distance", "to": "ONE", "val": 50.0, "stdev": 5.0}]})
            expect_removed_points = ["ONE"]
        else:
            continue
        if defect in ("isolated-point", "unusable-target", "one-element"):
            expect_deleted = copy.deepcopy(net)
            expect_deleted["points"] = [p for p in expect_deleted["points"] if p["id"] not in expect_removed_points]
            for c in expect_deleted["clusters"]:
                c["obs"] = [ob for ob in c["obs"] if ob.get("to") not in expect_removed_points and ob.get("from") not in expect_removed_points]
            expect_deleted["clusters"] = [c for c in expect_deleted["clusters"] if c["obs"]]
        algs = enet.ALGS if (t % 4 == 0 or not ctx.quick) else [rng.choice(enet.ALGS)]
        o1, txt1 = enet.run_all(ctx, bdir, net, "c14_%d" % t, algs=algs, outputs=("xml", "text"))
        o2, txt2 = enet.run_all(ctx, bdir, expect_deleted, "c14d_%d" % t, algs=algs, outputs=("xml", "text"))
        ctx.count(("c14", txt1), nontrivial=True)
        ctx.hist("defect", defect)
        if t == 0:
            ctx.sample({"network": enet.summarize(net), "defect": what})
        for a in algs:
            if o1[a]["err"] or o2[a]["err"]:
                ctx.violation({"kind": "E:exclusion", "gkf": txt1, "what": what, "error": o1[a]["err"] or o2[a]["err"]}, "gama-local failed (%s): %s" % (what, (o1[a]["err"] or o2[a]["err"])[:150])); bad += 1
                break
            ok1, ok2 = enet.adjusted_ok(o1[a]), enet.adjusted_ok(o2[a])
            if ok1 != ok2:
                ctx.violation({"kind": "E:exclusion", "gkf": txt1, "gkf_deleted": txt2, "what": what, "algorithm": a}, "%s: input %s adjusted but the input with the excluded items deleted %s" % (what, "is" if ok1 else "is not", "is" if ok2 else "is not")); bad += 1
                break
            if not ok1:
                continue
            r1, r2 = o1[a]["res"], o2[a]["res"]
            dd = []
            k1, k2 = obs_key_list(r1), obs_key_list(r2)
            if k1 != k2:
                only1 = [k for k in k1 if k not in k2]
                only2 = [k for k in k2 if k not in k1]
                if defect == "blunder":
                    f_ = float(what.split()[1])
                    dd.append("exclusion does not follow the rule 'positional misclosure > tol-abs': %s; observations only in the full run: %s, only in the reduced run: %s" % (what, only1, only2))
                else:
                    dd.append("observations taking part differ: only with the defect %s, only with it deleted %s" % (only1, only2))
            else:
                dd += enet.compare_results(r1, r2)[:4]
            ttxt = open(o1[a]["run"].files["text"], errors="replace").read() if os.path.exists(o1[a]["run"].files["text"]) else ""
            sec = text_sections(ttxt)
            for pid in expect_removed_points:
                if pid not in sec["removed_points"] and not any(pid == q["id"] for q in r1["adjusted"]):
                    if pid == "ISO" and "ISO" not in ttxt:
                        dd.append("point %s left out of the adjustment is not mentioned in the text output" % pid)
                    elif pid == "ONE":
                        dd.append("point %s (one determining element) was left out without being listed under 'Removed points'" % pid)
            if expect_outlier and not dd:
                if not any((ft[1], ft[2]) == (expect_outlier[1], expect_outlier[2]) for ft in sec["outlying"]):
                    dd.append("the excluded %s %s->%s is not listed under 'Outlying absolute terms'" % expect_outlier)
            if dd:
                key = None
                m_ = re.match(r"blunder ([0-9.]+) x tol-abs on (direction|angle|z-angle|azimuth) \(stdev ([0-9.e+-]+)\)", what)
                if m_ and k1 != k2:
                    f_, sd_ = float(m_.group(1)), float(m_.group(3))
                    scaled = f_ * net["params"]["sigma-apr"] / sd_
                    impl_excluded = len(k1) < sum(len(c["obs"]) for c in net["clusters"])
                    # the recorded finding: the threshold is applied to the weight-scaled absolute term
                    # (at scaled = 1 the weight-scaled threshold is met exactly: either decision is that of the recorded rule)
                    if abs(sd_ - net["params"]["sigma-apr"]) > 1e-9 and (abs(scaled - 1.0) <= 0.02 or impl_excluded == (scaled > 1.0)):
                        key = "C14:abs-term-weight-scaled"
                if ctx.violation({"kind": "E:exclusion", "gkf": txt1, "gkf_deleted": txt2, "what": what, "algorithm": a, "tol_abs": tol_abs, "differences": dd[:6]},
                                 "%s (%s, tol-abs %g): %s" % (what, a, tol_abs, dd[0]), key=key):
                    bad += 1
                break
        if bad >= 4:
            break
    ctx.obligation(bad == 0, "E:exclusions")
    return ctx.finish(rule="generated networks (1D/2D/3D) with approximate coordinates at the truth and one injected defect each: blunders of 0.5/0.9/1.1/2/10 x tol-abs "
                           "(tol-abs 50/200/1000 mm) on a random observation with a random standard deviation, isolated points, single-direction stations, unusable targets, "
                           "points with one determining element; every network is a non-trivial case; distinct by content")
