"""C04 -- solver answers do not depend on the order or history of queries.

proof:  coq/Properties_C04.v: the move-to-front cache refines an association list (buffers stay a permutation,
        a hit returns the buffer bound to the key, a miss evicts only the least recently used key) and a memo
        cache filled by a function of (mode, key) that is flushed whenever the mode changes answers every
        finite sequence of queries like a fresh computation; without the flush it does not (refuted variant)
K:      random and exhaustive short histories of API calls on the real solver objects (harness/adj.cpp,
        4 algorithms, regular and singular sparse problems with elements outside the envelope), each answer
        compared with a fresh object asked only that question; MoveToFront<3> itself against the Coq model
"""
import itertools
import vlib
from checks import solver

ALGS = solver.ALGS


def chain_problem(rng, singular, n=None):
    n = n or rng.randint(5, 8)
    rows = []
    for i in range(n - 1):
        r = [0] * n
        r[i], r[i + 1] = -1, 1
        rows.append(r)
    for _ in range(rng.randint(2, 5)):
        i = rng.randrange(n - 1)
        j = min(n - 1, i + rng.choice([1, 1, 2]))
        if i == j:
            continue
        r = [0] * n
        r[i], r[j] = -rng.choice([1, 2]), rng.choice([1, 2])
        if r[i] != -r[j]:
            if singular:
                r[j] = -r[i]
        rows.append(r)
    if not singular:
        r = [0] * n
        r[rng.randrange(n)] = 1
        rows.append(r)
        r = [0] * n
        r[rng.randrange(n)] = 2
        rows.append(r)
    rng.shuffle(rows)
    m = len(rows)
    b = [rng.choice([-3, -2, -1, 0, 1, 2, 3]) / 2 for _ in range(m)]
    blocks = [(1, 0, [float(rng.choice([1, 1, 2, 0.5]))]) for _ in range(m)]
    p = {"m": m, "n": n, "A": rows, "b": b, "blocks": blocks, "S": list(range(n)), "mk": -1, "defect": 0, "subset": "none"}
    p["defect"] = len(solver.null_basis(rows, n))
    return p


def gen_history(rng, p, length, allow_minx):
    n, m = p["n"], p["m"]
    ops = []
    for _ in range(length):
        k = rng.choice(["x", "r", "ssq", "defect", "qxx", "qxx", "qxx", "qbb", "q0xx", "q0xx", "lindep", "reset"] + (["minx", "minxall"] if allow_minx else []))
        if k in ("qxx", "q0xx"):
            i, j = rng.choice([(1, n), (n, 1), (1, 1), (rng.randint(1, n), rng.randint(1, n)), (2, n - 1), (rng.randint(1, n), rng.randint(1, n))])
            ops.append("%s %d %d" % (k, i, j))
        elif k == "qbb":
            ops.append("qbb %d %d" % (rng.randint(1, m), rng.randint(1, m)))
        elif k == "lindep":
            ops.append("lindep %d" % rng.randint(1, n))
        elif k == "minx":
            kk = rng.randint(max(1, p["defect"]), n)
            S = sorted(rng.sample(range(1, n + 1), kk))
            G = solver.null_basis(p["A"], n)
            if not solver.resolves(G, [s - 1 for s in S]):
                S = list(range(1, n + 1))
            ops.append("minx %d %s" % (len(S), " ".join(map(str, S))))
        else:
            ops.append(k)
    return ops


QUERY = ("x", "r", "ssq", "defect", "qxx", "qbb", "q0xx", "lindep")


def fresh_scripts(alg, ops):
    """for each query op: the script of a fresh object asked only that question (with the regularisation
    in force at that moment)"""
    out = []
    mode = None
    for op in ops:
        w = op.split()[0]
        if w in ("minx", "minxall"):
            mode = op
        elif w in QUERY:
            out.append(["new base %s" % alg] + ([mode] if mode else []) + [op])
    return out


def vals(tok):
    if tok[0] != "ok":
        return ("exc",) + tuple(tok[1][:2])
    r = []
    for t in tok[1]:
        try:
            r.append(float.fromhex(t) if "p" in t else float(t))
        except ValueError:
            r.append(t)
    return tuple(r)


def same(a, b, tol=1e-9):
    if len(a) != len(b):
        return False
    if a and a[0] == "exc":
        return a == b
    sc = max([1.0] + [abs(v) for v in a if isinstance(v, float)])
    return all((abs(u - v) <= tol * sc) if isinstance(u, float) and isinstance(v, float) else u == v for u, v in zip(a, b))


def run_history(exe, p, alg, ops):
    script = solver.problem_script(p) + ["new base %s" % alg] + ops
    fr = fresh_scripts(alg, ops)
    for f in fr:
        script += f
    script.append("free")
    rc, out, err = vlib.sh([exe], inp="\n".join(script) + "\n", timeout=120)
    lines = out.split("\n")
    k = 2  # ok problem, ok new
    hist = []
    for op in ops:
        hist.append(solver.parse_line(lines[k]) if k < len(lines) else ("crash",))
        k += 1
    fresh = []
    for f in fr:
        k += len(f) - 1
        fresh.append(solver.parse_line(lines[k]) if k < len(lines) else ("crash",))
        k += 1
    return hist, fresh, rc, err


def k_histories(ctx):
    exe = solver.build_harness(ctx, sanitize=True)
    nprob = 6 if ctx.quick else 40
    nhist = 10 if ctx.quick else 40
    bad = 0
    for pi in range(nprob):
        p = chain_problem(ctx.rng, singular=(pi % 2 == 1))
        for alg in ALGS:
            hs = [gen_history(ctx.rng, p, ctx.rng.choice([3, 6, 12, 20]), allow_minx=True) for _ in range(nhist)]
            # directed scenarios: regularisation mode changed before / after the decomposition exists, cofactors outside the
            # envelope before and after a reset
            n_ = p["n"]
            sub = "minx %d %s" % (n_ - 1, " ".join(str(i) for i in range(1, n_)))
            sub2 = "minx %d %s" % (n_ - 1, " ".join(str(i) for i in range(2, n_ + 1)))      # another subset, not a superset of the first
            sub3 = "minx 2 1 %d" % n_
            hs += [[sub, "x", "minxall", "qxx 1 %d" % n_, "x", "qxx 2 2"],
                   ["minxall", "x", sub, "qxx 1 %d" % n_, "x"],
                   [sub, "defect", "minxall", "x", "q0xx 1 %d" % n_],
                   ["qxx 1 %d" % n_, "qxx %d 1" % n_, "qxx 2 %d" % n_, "reset", "qxx 1 %d" % n_, "qxx 2 %d" % n_],
                   ["x", "minxall", "x", sub, "x", "minxall", "qxx 1 1"],
                   [sub, "x", sub2, "x", "qxx 1 1", sub3, "x", "qxx 2 2"],
                   [sub3, "qxx 1 %d" % n_, "reset", sub2, "x", "qxx 1 %d" % n_]]
            if pi < 2:
                # exhaustive short histories over a small alphabet
                n = p["n"]
                alpha = ["x", "qxx 1 %d" % n, "qxx 2 2", "q0xx %d 1" % n, "qbb 1 2", "defect", "minx %d %s" % (n - 1, " ".join(str(i) for i in range(1, n))), "minxall", "reset"]
                hs += [list(t) for t in itertools.product(alpha, repeat=2)]
                if not ctx.quick:
                    hs += [list(t) for t in itertools.product(alpha, repeat=3)]
            for ops in hs:
                hist, fresh, rc, err = run_history(exe, p, alg, ops)
                ctx.count(("hist", alg, p["A"], tuple(ops)), nontrivial=len(ops) >= 2)
                for op in ops:
                    ctx.hist("op", op.split()[0])
                ctx.hist("algorithm", alg)
                qi = 0
                failure = None
                if any(h[0] == "crash" for h in hist) or any(f[0] == "crash" for f in fresh):
                    failure = {"what": "the harness died (sanitizer report or crash)", "stderr": err[-1500:], "rc": rc}
                else:
                    for op, h in zip(ops, hist):
                        if op.split()[0] in QUERY:
                            f = fresh[qi]
                            qi += 1
                            if not same(vals(h), vals(f)):
                                failure = {"what": "answer to '%s' after this history differs from a fresh object" % op,
                                           "history_answer": vals(h), "fresh_answer": vals(f)}
                                break
                if failure:
                    key = classify(alg, ops, failure)
                    rep = {"kind": "K:history", "problem": p, "algorithm": alg, "history": ops, **failure}
                    if ctx.violation(rep, "%s: %s; history=%s" % (alg, failure["what"], ops), key=key):
                        bad += 1
                if bad >= 4:
                    break
            if bad >= 4:
                break
        if bad >= 4:
            break
    ctx.sample({"algorithm": "envelope", "history": gen_history(ctx.rng, p, 8, True), "problem_n": p["n"], "problem_defect": p["defect"]})
    ctx.obligation(bad == 0, "K:history-vs-fresh")


def k_switch(ctx):
    """one solver object used for several DIFFERENT problems in a row (what LocalNetwork does with its solver after
    update_points / update_observations): every answer equals that of a fresh object on the current problem"""
    exe = solver.build_harness(ctx, sanitize=True)
    rng = ctx.rng
    bad = 0
    nseq = 6 if ctx.quick else 60
    for si in range(nseq):
        n = rng.randint(5, 8)
        same_n = rng.random() < 0.7
        probs = [chain_problem(rng, singular=rng.random() < 0.5, n=n if same_n else None) for _ in range(rng.choice([2, 2, 3]))]
        if si % 3 == 0:
            probs[0] = chain_problem(rng, singular=True, n=n); probs[1] = chain_problem(rng, singular=False, n=n)     # dependent column disappears
        if si % 3 == 1:
            probs[0] = chain_problem(rng, singular=False, n=n); probs[1] = chain_problem(rng, singular=False, n=n)    # regular -> regular, same size
        for alg in ALGS:
            script = []
            expect = []      # (line index of the history answer, line index of the fresh answer, op, problem index)
            line = 0
            hist_q = []
            for k, p in enumerate(probs):
                script += solver.problem_script(p); line += 1
                if k == 0:
                    script.append("new base %s" % alg); line += 1
                else:
                    script.append("reset"); line += 1
                nn, mm = p["n"], p["m"]
                ops = ["x", "defect", "qxx 1 %d" % nn, "qxx %d 1" % nn, "qxx 2 %d" % (nn - 1), "q0xx 1 %d" % nn, "qbb 1 %d" % mm, "ssq", "r"] + \
                      ["lindep %d" % i for i in range(1, nn + 1)] + ["qxx %d %d" % (rng.randint(1, nn), rng.randint(1, nn)) for _ in range(3)]
                rng.shuffle(ops)
                for op in ops:
                    script.append(op); hist_q.append((line, op, k)); line += 1
            fresh_q = []
            for (hl, op, k) in hist_q:
                script += solver.problem_script(probs[k]) + ["new base %s" % alg, op]
                fresh_q.append(line + 2); line += 3
            script.append("free")
            rc, out, err = vlib.sh([exe], inp="\n".join(script) + "\n", timeout=300)
            lines = out.split("\n")
            ctx.count(("switch", alg, tuple(tuple(map(tuple, p["A"])) for p in probs)), nontrivial=True)
            ctx.hist("switch_algorithm", alg)
            failure = None
            if rc != 0 or len(lines) < line:
                failure = {"what": "the harness died (sanitizer report or crash) while one solver object was reused for another problem", "stderr": err[-1500:], "rc": rc}
            else:
                for (hl, op, k), fl_ in zip(hist_q, fresh_q):
                    h, f = solver.parse_line(lines[hl]), solver.parse_line(lines[fl_])
                    if not same(vals(h), vals(f)):
                        failure = {"what": "answer to '%s' on problem %d of the sequence differs from a fresh object on that problem" % (op, k + 1),
                                   "history_answer": vals(h), "fresh_answer": vals(f)}
                        break
            if failure:
                bad += 1
                ctx.violation({"kind": "K:solver-reuse", "problems": probs, "algorithm": alg, "script": script[:400], **failure},
                              "%s reused across problems: %s (defects %s)" % (alg, failure["what"], [p["defect"] for p in probs]))
            if bad >= 3:
                break
        if bad >= 3:
            break
    ctx.obligation(bad == 0, "K:solver-reuse")


def k_rawsvd(ctx):
    """class SVD (lib/matvec/svd.h) used directly: histories of min_x(subset) / min_x() / solve / q_xx against fresh objects"""
    exe = solver.build_harness(ctx, sanitize=True)
    rng = ctx.rng
    bad = 0
    for pi in range(6 if ctx.quick else 40):
        p = chain_problem(rng, singular=(pi % 3 != 2))
        n = p["n"]
        G = solver.null_basis(p["A"], n)
        subs = []
        for _ in range(3):
            S = sorted(rng.sample(range(1, n + 1), rng.randint(max(1, p["defect"]), n)))
            if solver.resolves(G, [s_ - 1 for s_ in S]):
                subs.append("minx %d %s" % (len(S), " ".join(map(str, S))))
        if not subs:
            subs = ["minxall"]
        hs = []
        for s1 in subs:
            hs += [[s1, "x", "minxall", "x", "qxx 1 %d" % n], ["x", s1, "x", "qxx 2 2", "minxall", "qxx 2 2", "x"], [s1, "qxx 1 1", "minxall", "qxx 1 1"],
                   ["minxall", "x", s1, "x"], [s1, "defect", "minxall", "x"]]
        for ops in hs:
            script = solver.problem_script(p) + ["new rawsvd"] + ops
            qs = []
            mode = None
            for op in ops:
                if op.split()[0] in ("minx", "minxall"):
                    mode = op
                else:
                    qs.append((mode, op))
            for mode, op in qs:
                script += ["new rawsvd"] + ([mode] if mode else []) + [op]
            rc, out, err = vlib.sh([exe], inp="\n".join(script) + "\n", timeout=120)
            lines = out.split("\n")
            ctx.count(("rawsvd", tuple(map(tuple, p["A"])), tuple(ops)), nontrivial=True)
            failure = None
            k = 2
            hist = []
            for op in ops:
                hist.append(solver.parse_line(lines[k]) if k < len(lines) else ("crash",)); k += 1
            ha = [h for h, op in zip(hist, ops) if op.split()[0] not in ("minx", "minxall")]
            fa = []
            for mode, op in qs:
                k += 1 + (1 if mode else 0)
                fa.append(solver.parse_line(lines[k]) if k < len(lines) else ("crash",)); k += 1
            if rc != 0 or any(h[0] == "crash" for h in hist + fa):
                failure = {"what": "the harness died (sanitizer report or crash)", "stderr": err[-1500:], "rc": rc}
            else:
                for (mode, op), h, f in zip(qs, ha, fa):
                    if not same(vals(h), vals(f), 1e-8):
                        failure = {"what": "class SVD: answer to '%s' (regularisation %s) after this history differs from a fresh object" % (op, mode or "default"),
                                   "history_answer": vals(h), "fresh_answer": vals(f)}
                        break
            if failure:
                bad += 1
                ctx.violation({"kind": "K:svd-history", "problem": p, "history": ops, **failure}, "%s; history=%s" % (failure["what"], ops))
            if bad >= 3:
                break
        if bad >= 3:
            break
    ctx.obligation(bad == 0, "K:svd-class-history")


def classify(alg, ops, failure):
    """stable keys of recorded findings (KNOWN_FINDINGS.txt); None = not a known one"""
    return None


def k_mtf(ctx):
    """MoveToFront<3,int,int> against the Coq model: random and exhaustive key sequences"""
    exe = vlib.compile_harness("harness/mtf.cpp")
    seqs = [list(t) for L in range(0, 6 if ctx.quick else 7) for t in itertools.product([1, 2, 3, 4], repeat=L)]
    for _ in range(200 if ctx.quick else 2000):
        seqs.append([ctx.rng.randint(1, 6) for _ in range(ctx.rng.randint(5, 30))])
    inp = "\n".join(" ".join(map(str, s)) if s else "-" for s in seqs) + "\n"
    rc, out, err = vlib.sh([exe], inp=inp, timeout=120)
    lines = out.split("\n")[:-1]
    if rc != 0 or len(lines) != len(seqs):
        ctx.violation({"kind": "K:mtf", "stderr": err[-1000:]}, "mtf harness failed", no_input=True)
        return
    terms = []
    for s, l in zip(seqs, lines):
        res = l.split()
        pairs = ["(%s, %s)" % (res[2 * i], "true" if res[2 * i + 1] == "1" else "false") for i in range(len(s))]
        terms.append("([%s], [%s])" % ("; ".join(map(str, s)), "; ".join(pairs)))
    shard = 1500
    okall = True
    badidx = []
    for s0 in range(0, len(terms), shard):
        v = "From Coq Require Import List Bool Arith.\nFrom Gama Require Import CacheModel.\nImport ListNotations.\n" \
            "Definition cases : list (list nat * list (nat * bool)) := [\n%s\n].\n" % ";\n".join(terms[s0:s0 + shard]) + \
            'Goal True. idtac "@@MTF". Abort.\nEval vm_compute in mtf_mismatches 0 cases.\n'
        rc, cout = vlib.coq_run(v, ctx.scratch, name="cases_c04_mtf_%d" % s0, timeout=900)
        lst = vlib.parse_coq_list(cout, "@@MTF")
        ctx.checker_cmds.append("coqc -Q coq Gama cases_c04_mtf_%d.v" % s0)
        ok = rc == 0 and lst == []
        ctx.obligation(ok, "K:MoveToFront shard %d" % s0)
        if not ok:
            okall = False
            badidx += [s0 + int(x) for x in (lst or [])]
            if lst is None:
                ctx.log(cout[-800:])
    for s in seqs:
        ctx.count(("mtf", tuple(s)), nontrivial=len(set(s)) >= 2)
    ctx.hist("mtf_sequences", len(seqs))
    if not okall:
        # property oracle on the implementation: a hit must return the slot last handed out for that key and
        # two live keys never share a slot
        for i in badidx[:50]:
            s, l = seqs[i], lines[i].split()
            bound = {}
            order = []
            for t, k in enumerate(s):
                slot, hit = int(l[2 * t]), l[2 * t + 1] == "1"
                wrong = None
                if hit and bound.get(k) != slot:
                    wrong = "hit on key %d returned slot %d, it was bound to %s" % (k, slot, bound.get(k))
                if not hit and k in bound and len(bound) <= 3 and k in order[-3:]:
                    wrong = "key %d was among the 3 most recently used keys but missed" % k
                if wrong:
                    ctx.violation({"kind": "K:mtf", "keys": s, "impl": lines[i], "oracle": wrong}, "MoveToFront: " + wrong)
                    return
                for kk in [q for q, v in bound.items() if v == slot and q != k]:
                    del bound[kk]
                bound[k] = slot
                if k in order:
                    order.remove(k)
                order.append(k)
        ctx.violation({"kind": "K:mtf", "broken": "correspondence K:MoveToFront (CacheModel.mtf_get vs MoveToFront<3>::get)",
                       "cases": [{"keys": seqs[i], "impl": lines[i]} for i in badidx[:5]]},
                      "MoveToFront model and implementation disagree", no_input=True)


def run(ctx):
    ctx.check_proofs(extra_files=["CacheModel"])
    k_mtf(ctx)
    k_histories(ctx)
    k_switch(ctx)
    k_rawsvd(ctx)
    return ctx.finish(rule="K(reuse): one solver object reset to 2-3 different problems in a row (singular -> regular, regular -> regular of the same size, "
                           "different sizes), every query compared with a fresh object; K(scenarios): regularisation changed before / after the decomposition, "
                           "cofactors outside the envelope around a reset; K(mtf): all key sequences of length<=5 over 4 keys + random longer ones; K(history): random histories (length 3..20) and all "
                           "histories of length 2 (3 thorough) over a 9-op alphabet, on sparse chain problems (regular / defect>=1, elements outside the "
                           "envelope), 4 algorithms, under ASan+UBSan; non-trivial = at least two ops / two distinct keys; distinct by content")
