"""C04 -- solver answers do not depend on the order or history of queries.

proof:  coq/Properties_C04.v: the move-to-front cache refines an association list (buffers stay a permutation,
        a hit returns the buffer bound to the key, a miss evicts only the least recently used key) and a memo
        cache filled by a function of (mode, key) that is flushed whenever the mode changes answers every
        finite sequence of queries like a fresh computation; without the flush it does not (refuted variant)
K:      random and exhaustive short histories of API calls on the real solver objects (harness/adj.cpp,
        4 algorithms, regular and singular sparse problems with elements outside the envelope), each answer
        compared with a fresh object asked only that question; MoveToFront<3> itself against the Coq model
"""
import itertools
import vlib
from checks import solver

ALGS = solver.ALGS


def chain_problem(rng, singular):
    n = rng.randint(5, 8)
    rows = []
    for i in range(n - 1):
        r = [0] * n
        r[i], r[i + 1] = -1, 1
        rows.append(r)
    for _ in range(rng.randint(2, 5)):
        i = rng.randrange(n - 1)
        j = min(n - 1, i + rng.choice([1, 1, 2]))
        if i == j:
            continue
        r = [0] * n
        r[i], r[j] = -rng.choice([1, 2]), rng.choice([1, 2])
        if r[i] != -r[j]:
            if singular:
                r[j] = -r[i]
        rows.append(r)
    if not singular:
        r = [0] * n
        r[rng.randrange(n)] = 1
        rows.append(r)
        r = [0] * n
        r[rng.randrange(n)] = 2
        rows.append(r)
    rng.shuffle(rows)
    m = len(rows)
    b = [rng.choice([-3, -2, -1, 0, 1, 2, 3]) / 2 for _ in range(m)]
    blocks = [(1, 0, [float(rng.choice([1, 1, 2, 0.5]))]) for _ in range(m)]
    p = {"m": m, "n": n, "A": rows, "b": b, "blocks": blocks, "S": list(range(n)), "mk": -1, "defect": 0, "subset": "none"}
    p["defect"] = len(solver.null_basis(rows, n))
    return p


def gen_history(rng, p, length, allow_minx):
    n, m = p["n"], p["m"]
    ops = []
    for _ in range(length):
        k = rng.choice(["x", "r", "ssq", "defect", "qxx", "qxx", "qxx", "qbb", "q0xx", "q0xx", "lindep", "reset"] + (["minx", "minxall"] if allow_minx else []))
        if k in ("qxx", "q0xx"):
            i, j = rng.choice([(1, n), (n, 1), (1, 1), (rng.randint(1, n), rng.randint(1, n)), (2, n - 1), (rng.randint(1, n), rng.randint(1, n))])
            ops.append("%s %d %d" % (k, i, j))
        elif k == "qbb":
            ops.append("qbb %d %d" % (rng.randint(1, m), rng.randint(1, m)))
        elif k == "lindep":
            ops.append("lindep %d" % rng.randint(1, n))
        elif k == "minx":
            kk = rng.randint(max(1, p["defect"]), n)
            S = sorted(rng.sample(range(1, n + 1), kk))
            G = solver.null_basis(p["A"], n)
            if not solver.resolves(G, [s - 1 for s in S]):
                S = list(range(1, n + 1))
            ops.append("minx %d %s" % (len(S), " ".join(map(str, S))))
        else:
            ops.append(k)
    return ops


QUERY = ("x", "r", "ssq", "defect", "qxx", "qbb", "q0xx", "lindep")


def fresh_scripts(alg, ops):
    """for each query op: the script of a fresh object asked only that question (with the regularisation
    in force at that moment)"""
    out = []
    mode = None
    for op in ops:
        w = op.split()[0]
        if w in ("minx", "minxall"):
            mode = op
        elif w in QUERY:
            out.append(["new base %s" % alg] + ([mode] if mode else []) + [op])
    return out


def vals(tok):
    if tok[0] != "ok":
        return ("exc",) + tuple(tok[1][:2])
    r = []
    for t in tok[1]:
        try:
            r.append(float.fromhex(t) if "p" in t else float(t))
        except ValueError:
            r.append(t)
    return tuple(r)


def same(a, b, tol=1e-9):
    if len(a) != len(b):
        return False
    if a and a[0] == "exc":
        return a == b
    sc = max([1.0] + [abs(v) for v in a if isinstance(v, float)])
    return all((abs(u - v) <= tol * sc) if isinstance(u, float) and isinstance(v, float) else u == v for u, v in zip(a, b))


def run_history(exe, p, alg, ops):
    script = solver.problem_script(p) + ["new base %s" % alg] + ops
    fr = fresh_scripts(alg, ops)
    for f in fr:
        script += f
    script.append("free")
    rc, out, err = vlib.sh([exe], inp="\n".join(script) + "\n", timeout=120)
    lines = out.split("\n")
    k = 2  # ok problem, ok new
    hist = []
    for op in ops:
        hist.append(solver.parse_line(lines[k]) if k < len(lines) else ("crash",))
        k += 1
    fresh = []
    for f in fr:
        k += len(f) - 1
        fresh.append(solver.parse_line(lines[k]) if k < len(lines) else ("crash",))
        k += 1
    return hist, fresh, rc, err


def k_histories(ctx):
    exe = solver.build_harness(ctx, sanitize=True)
    nprob = 6 if ctx.quick else 40
    nhist = 10 if ctx.quick else 40
    bad = 0
    for pi in range(nprob):
        p = chain_problem(ctx.rng, singular=(pi % 2 == 1))
        for alg in ALGS:
            hs = [gen_history(ctx.rng, p, ctx.rng.choice([3, 6, 12, 20]), allow_minx=True) for _ in range(nhist)]
            if pi < 2:
                # exhaustive short histories over a small alphabet
                n = p["n"]
                alpha = ["x", "qxx 1 %d" % n, "qxx 2 2", "q0xx %d 1" % n, "qbb 1 2", "defect", "minx %d %s" % (n - 1, " ".join(str(i) for i in range(1, n))), "minxall", "reset"]
                hs += [list(t) for t in itertools.product(alpha, repeat=2)]
                if not ctx.quick:
                    hs += [list(t) for t in itertools.product(alpha, repeat=3)]
            for ops in hs:
                hist, fresh, rc, err = run_history(exe, p, alg, ops)
                ctx.count(("hist", alg, p["A"], tuple(ops)), nontrivial=len(ops) >= 2)
                for op in ops:
                    ctx.hist("op", op.split()[0])
                ctx.hist("algorithm", alg)
                qi = 0
                failure = None
                if any(h[0] == "crash" for h in hist) or any(f[0] == "crash" for f in fresh):
                    failure = {"what": "the harness died (sanitizer report or crash)", "stderr": err[-1500:], "rc": rc}
                else:
                    for op, h in zip(ops, hist):
                        if op.split()[0] in QUERY:
                            f = fresh[qi]
                            qi += 1
                            if not same(vals(h), vals(f)):
                                failure = {"what": "answer to '%s' after this history differs from a fresh object" % op,
                                           "history_answer": vals(h), "fresh_answer": vals(f)}
                                break
                if failure:
                    key = classify(alg, ops, failure)
                    rep = {"kind": "K:history", "problem": p, "algorithm": alg, "history": ops, **failure}
                    if ctx.violation(rep, "%s: %s; history=%s" % (alg, failure["what"], ops), key=key):
                        bad += 1
                if bad >= 4:
                    break
            if bad >= 4:
                break
        if bad >= 4:
            break
    ctx.sample({"algorithm": "envelope", "history": gen_history(ctx.rng, p, 8, True), "problem_n": p["n"], "problem_defect": p["defect"]})
    ctx.obligation(bad == 0, "K:history-vs-fresh")


def classify(alg, ops, failure):
    """stable keys of recorded findings (KNOWN_FINDINGS.txt); None = not a known one"""
    return None


def k_mtf(ctx):
    """MoveToFront<3,int,int> against the Coq model: random and exhaustive key sequences"""
    exe = vlib.compile_harness("harness/mtf.cpp")
    seqs = [list(t) for L in range(0, 6 if ctx.quick else 7) for t in itertools.product([1, 2, 3, 4], repeat=L)]
    for _ in range(200 if ctx.quick else 2000):
        seqs.append([ctx.rng.randint(1, 6) for _ in range(ctx.rng.randint(5, 30))])
    inp = "\n".join(" ".join(map(str, s)) if s else "-" for s in seqs) + "\n"
    rc, out, err = vlib.sh([exe], inp=inp, timeout=120)
    lines = out.split("\n")[:-1]
    if rc != 0 or len(lines) != len(seqs):
        ctx.violation({"kind": "K:mtf", "stderr": err[-1000:]}, "mtf harness failed", no_input=True)
        return
    terms = []
    for s, l in zip(seqs, lines):
        res = l.split()
        pairs = ["(%s, %s)" % (res[2 * i], "true" if res[2 * i + 1] == "1" else "false") for i in range(len(s))]
        terms.append("([%s], [%s])" % ("; ".join(map(str, s)), "; ".join(pairs)))
    shard = 1500
    okall = True
    badidx = []
    for s0 in range(0, len(terms), shard):
        v = "From Coq Require Import List Bool Arith.\nFrom Gama Require Import CacheModel.\nImport ListNotations.\n" \
            "Definition cases : list (list nat * list (nat * bool)) := [\n%s\n].\n" % ";\n".join(terms[s0:s0 + shard]) + \
            'Goal True. idtac "@@MTF". Abort.\nEval vm_compute in mtf_mismatches 0 cases.\n'
        rc, cout = vlib.coq_run(v, ctx.scratch, name="cases_c04_mtf_%d" % s0, timeout=900)
        lst = vlib.parse_coq_list(cout, "@@MTF")
        ctx.checker_cmds.append("coqc -Q coq Gama cases_c04_mtf_%d.v" % s0)
        ok = rc == 0 and lst == []
        ctx.obligation(ok, "K:MoveToFront shard %d" % s0)
        if not ok:
            okall = False
            badidx += [s0 + int(x) for x in (lst or [])]
            if lst is None:
                ctx.log(cout[-800:])
    for s in seqs:
        ctx.count(("mtf", tuple(s)), nontrivial=len(set(s)) >= 2)
    ctx.hist("mtf_sequences", len(seqs))
    if not okall:
        # property oracle on the implementation: a hit must return the slot last handed out for that key and
        # two live keys never share a slot
        for i in badidx[:50]:
            s, l = seqs[i], lines[i].split()
            bound = {}
            order = []
            for t, k in enumerate(s):
                slot, hit = int(l[2 * t]), l[2 * t + 1] == "1"
                wrong = None
                if hit and bound.get(k) != slot:
                    wrong = "hit on key %d returned slot %d, it was bound to %s" % (k, slot, bound.get(k))
                if not hit and k in bound and len(bound) <= 3 and k in order[-3:]:
                    wrong = "key %d was among the 3 most recently used keys but missed" % k
                if wrong:
                    ctx.violation({"kind": "K:mtf", "keys": s, "impl": lines[i], "oracle": wrong}, "MoveToFront: " + wrong)
                    return
                for kk in [q for q, v in bound.items() if v == slot and q != k]:
                    del bound[kk]
                bound[k] = slot
                if k in order:
                    order.remove(k)
                order.append(k)
        ctx.violation({"kind": "K:mtf", "broken": "correspondence K:MoveToFront (CacheModel.mtf_get vs MoveToFront<3>::get)",
                       "cases": [{"keys": seqs[i], "impl": lines[i]} for i in badidx[:5]]},
                      "MoveToFront model and implementation disagree", no_input=True)


def run(ctx):
    ctx.check_proofs(extra_files=["CacheModel"])
    k_mtf(ctx)
    k_histories(ctx)
    return ctx.finish(rule="K(mtf): all key sequences of length<=5 over 4 keys + random longer ones; K(history): random histories (length 3..20) and all "
                           "histories of length 2 (3 thorough) over a 9-op alphabet, on sparse chain problems (regular / defect>=1, elements outside the "
                           "envelope), 4 algorithms, under ASan+UBSan; non-trivial = at least two ops / two distinct keys; distinct by content")
