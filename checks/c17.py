"""C17 -- statistical critical values invert the distributions they belong to.

proof:  coq/Properties_C17.v (Reals): Student N=1,2 and Chi-square n=1,2 closed forms are the exact quantiles; exact
        antisymmetry of Normal/Student; monotonicity of the N=2 closed form
cert:   per sample, kernel-checked by Interval's integral tactic on the implementation's own returned double:
        | int_0^x phi - (1/2 - alpha) | <= eps for Normal;  the Student t_N and chi-square_n densities likewise
K:      Normal, NormalDistribution, Student, Chi_square(n<=2) vs the binary64 transliteration coq/StatRun.v in coqc
oracle: (search) independent high-precision evaluation with python's mpmath-free series (math.erfc, incomplete
        gamma / beta by continued fractions), monotonicity, symmetry, finiteness, NormalDistribution(Normal(a)) = 1-a
"""
import math, concurrent.futures
from fractions import Fraction
import vlib


def hx(v):
    return float(v).hex()


# ---- independent reference distribution functions (double precision, python math) ----
def gammainc_upper_reg(a, x):
    """Q(a,x) by series / continued fraction (Numerical Recipes style)"""
    if x <= 0:
        return 1.0
    gln = math.lgamma(a)
    if x < a + 1:
        ap, s, d = a, 1.0 / a, 1.0 / a
        for _ in range(10000):
            ap += 1
            d *= x / ap
            s += d
            if abs(d) < abs(s) * 1e-17:
                break
        return 1.0 - s * math.exp(-x + a * math.log(x) - gln)
    b = x + 1 - a
    c = 1e300
    d = 1.0 / b
    h = d
    for i in range(1, 10000):
        an = -i * (i - a)
        b += 2
        d = an * d + b
        d = 1e-300 if abs(d) < 1e-300 else d
        c = b + an / c
        c = 1e-300 if abs(c) < 1e-300 else c
        d = 1.0 / d
        de = d * c
        h *= de
        if abs(de - 1.0) < 1e-16:
            break
    return math.exp(-x + a * math.log(x) - gln) * h


def betainc_reg(a, b, x):
    if x <= 0:
        return 0.0
    if x >= 1:
        return 1.0
    bt = math.exp(math.lgamma(a + b) - math.lgamma(a) - math.lgamma(b) + a * math.log(x) + b * math.log(1 - x))

    def cf(a, b, x):
        qab, qap, qam = a + b, a + 1, a - 1
        c, d = 1.0, 1 - qab * x / qap
        d = 1e-300 if abs(d) < 1e-300 else d
        d = 1 / d
        h = d
        for m in range(1, 10000):
            m2 = 2 * m
            aa = m * (b - m) * x / ((qam + m2) * (a + m2))
            d = 1 + aa * d; d = 1e-300 if abs(d) < 1e-300 else d
            c = 1 + aa / c; c = 1e-300 if abs(c) < 1e-300 else c
            d = 1 / d; h *= d * c
            aa = -(a + m) * (qab + m) * x / ((a + m2) * (qap + m2))
            d = 1 + aa * d; d = 1e-300 if abs(d) < 1e-300 else d
            c = 1 + aa / c; c = 1e-300 if abs(c) < 1e-300 else c
            d = 1 / d
            de = d * c
            h *= de
            if abs(de - 1) < 1e-16:
                break
        return h
    if x < (a + 1) / (a + b + 2):
        return bt * cf(a, b, x) / a
    return 1 - bt * cf(b, a, 1 - x) / b


def norm_sf(x):
    return 0.5 * math.erfc(x / math.sqrt(2))


def student_sf(t, n):
    x = n / (n + t * t)
    p = 0.5 * betainc_reg(n / 2.0, 0.5, x)
    return p if t >= 0 else 1 - p


def chi2_sf(x, n):
    return gammainc_upper_reg(n / 2.0, x / 2.0) if x > 0 else 1.0


def true_quantile(sf, p, lo, hi):
    for _ in range(200):
        mid = 0.5 * (lo + hi)
        if sf(mid) > p:
            lo = mid
        else:
            hi = mid
    return 0.5 * (lo + hi)


def q(x):
    f = Fraction(x)
    return "(%d / %d)" % (f.numerator, f.denominator)


def cert_normal(alpha, x, eps):
    return "Goal Rabs (RInt (fun t => exp (- (t * t) / 2) / sqrt (2 * PI)) 0 %s - (1/2 - %s)) <= %s.\nProof. integral with (i_fuel 400, i_prec 70, i_degree 18). Qed.\n" % (q(x), q(alpha), q(eps))


def cert_student(alpha, n, t, eps):
    # density c_n (1 + t^2/n)^(-(n+1)/2); for odd n+1 the power is an integer k: (n+1)/2 = k ; for even n uses sqrt
    c = math.gamma((n + 1) / 2.0) / (math.sqrt(n * math.pi) * math.gamma(n / 2.0))
    if n % 2 == 1:
        k = (n + 1) // 2
        dens = "/ ((1 + u * u / %d) ^ %d)" % (n, k)
    else:
        k = n // 2
        dens = "/ ((1 + u * u / %d) ^ %d * sqrt (1 + u * u / %d))" % (n, k, n)
    # normalising constant bracketed by rationals: the certificate bounds |c * I - (1/2 - alpha)| using c as exact rational of the double
    return "Goal Rabs (%s * RInt (fun u => 1 %s) 0 %s - (1/2 - %s)) <= %s.\nProof. integral with (i_fuel 400, i_prec 70, i_degree 18). Qed.\n" % (
        q(c), dens, q(t), q(alpha), q(eps))


def run_certs(ctx, certs):
    """each certificate is its own coqc run (parallel); returns list of failed certificate descriptions"""
    hdr = "From Coq Require Import Reals.\nFrom Coquelicot Require Import Coquelicot.\nFrom Interval Require Import Tactic.\nLocal Open Scope R_scope.\n"

    def one(a):
        i, (desc, body) = a
        rc, out = vlib.coq_run(hdr + body, ctx.scratch, name="cert_c17_%d" % i, timeout=300)
        return desc, rc, out
    failed = []
    with concurrent.futures.ThreadPoolExecutor(max_workers=vlib.NCPU) as ex:
        for desc, rc, out in ex.map(one, list(enumerate(certs))):
            ctx.obligation(rc == 0, "certificate " + desc)
            if rc != 0:
                failed.append((desc, out[-300:]))
    ctx.checker_cmds.append("coqc cert_c17_<k>.v  (%d Interval certificates)" % len(certs))
    ctx.axioms.update(["ClassicalDedekindReals.sig_forall_dec", "ClassicalDedekindReals.sig_not_dec", "FunctionalExtensionality.functional_extensionality_dep",
                       "Classical_Prop.classic (Coquelicot/Interval)", "FloatAxioms.* / Uint63.* primitive specifications (Interval)"])
    return failed


def run(ctx):
    ctx.assumptions += [
        "Interval's integral tactic (Coq-Interval) evaluates with primitive floats and integers inside the kernel; the universal accuracy of the approximations is certified at the sampled arguments only",
    ]
    ctx.check_proofs(extra_files=["StatRun"])
    exe = vlib.compile_harness("harness/stat.cpp", extra_src=["lib/gnu_gama/statan.cpp"])
    rng = ctx.rng
    # ---- grids ----
    alphas = [0.0005, 0.001, 0.0025, 0.005, 0.01, 0.025, 0.05, 0.1, 0.2, 0.3, 0.4, 0.45, 0.499, 0.5, 0.501, 0.6, 0.75, 0.9, 0.95, 0.975, 0.99, 0.995, 0.999, 0.9995]
    alphas += [rng.uniform(0.0005, 0.9995) for _ in range(60 if ctx.quick else 600)]
    tiny = [10.0 ** -k for k in range(4, 13)] + [1 - 10.0 ** -k for k in range(4, 13)]
    dofs = list(range(1, 31)) + [40, 50, 60, 80, 100, 120, 200, 500, 1000, 5000, 100000]
    if not ctx.quick:
        dofs = list(range(1, 201)) + [250, 300, 400, 500, 750, 1000, 2000, 5000, 10 ** 5, 10 ** 6]
    xs = [-40, -38.5, -20, -10, -8, -6, -5, -4, -3.5, -3, -2.81, -2.6, -2.5, -2.4, -2.32, -2.31, -2, -1, -0.5, -1e-3, 0.0, 1e-3, 0.5, 1, 2, 3, 3.49, 3.5, 3.51, 4, 5, 6, 8, 10, 20, 38.5, 40]
    xs += [rng.uniform(-9, 9) for _ in range(80 if ctx.quick else 2000)]
    xs += [-2.81 + i * 0.01 for i in range(60)]
    queries = []
    for a in alphas + tiny:
        queries.append(("normal", a, 0))
    for x in xs:
        queries.append(("nd", x, 0))
    for n in dofs:
        for a in (alphas[:24] if ctx.quick else alphas[:24] + alphas[24:64]) + tiny[:3] + tiny[9:12]:
            queries.append(("student", a, n))
            queries.append(("chi2", a, n))
    inp = "".join("%s %s%s\n" % (k, hx(a), (" %d" % n) if k in ("student", "chi2") else "") for k, a, n in queries)
    rc, out, err = vlib.sh([exe], inp=inp, timeout=300)
    lines = out.split("\n")[:-1]
    if rc != 0 or len(lines) != len(queries):
        ctx.violation({"kind": "K:statan", "stderr": err[-800:]}, "stat harness failed", no_input=True)
        return ctx.finish("harness failed")
    vals = []
    for (k, a, n), l in zip(queries, lines):
        w = l.split()
        vals.append(float.fromhex(w[0]))
        ctx.count((k, a, n), nontrivial=True)
        ctx.hist("function", k)
    # ---- property oracle on the implementation (always evaluated: it IS the statement of C17) ----
    viol = []
    byk = {}
    for (k, a, n), v in zip(queries, vals):
        byk.setdefault((k, n), []).append((a, v))
        if math.isnan(v) or math.isinf(v):
            viol.append((k, a, n, v, "non-finite value"))
            continue
        in_acc = 0.0005 <= a <= 0.9995
        if k == "normal":
            if in_acc:
                ref = true_quantile(norm_sf, a, -40, 40)
                if abs(v - ref) > 1e-6 * max(1e-3, abs(ref)) + 1e-9:
                    viol.append((k, a, n, v, "Normal differs from the true quantile %.12g" % ref))
            # NormalDistribution is the inverse of Normal
        elif k == "nd":
            ref = 1 - norm_sf(a)
            if abs(v - ref) > 1e-12 + 1e-9 * ref:
                viol.append((k, a, n, v, "NormalDistribution(x) differs from Phi(x) = %.15g" % ref))
        elif k == "student" and in_acc:
            # (the oracle's own survival function loses ~1e-5 in t for very many degrees of freedom; 0.5 is exact by symmetry)
            ref = 0.0 if a == 0.5 else true_quantile(lambda t: student_sf(t, n), a, -1e7, 1e7)
            if abs(v - ref) > 5e-4 * max(1e-2, abs(ref)) + (2e-5 if n > 10000 else 0.0):
                viol.append((k, a, n, v, "Student differs from the true quantile %.9g" % ref))
        elif k == "chi2" and in_acc:
            ref = true_quantile(lambda t: chi2_sf(t, n), a, 0, 50 * n + 1000)
            if abs(v - ref) > 5e-3 * max(1e-6, abs(ref)):
                viol.append((k, a, n, v, "Chi_square differs from the true quantile %.9g" % ref))
    for (k, n), lst in byk.items():
        lst.sort()
        for (a1, v1), (a2, v2) in zip(lst, lst[1:]):
            if a1 == a2:
                continue
            if k in ("normal", "student", "chi2") and v2 > v1 + 1e-12 * max(1, abs(v1)):
                viol.append((k, a2, n, v2, "not monotone: value at %.6g is %.12g, at %.6g is %.12g" % (a1, v1, a2, v2)))
            if k == "nd" and v2 < v1 - 1e-14:      # a few ulps at 1.0 are rounding, not a defect
                viol.append((k, a2, n, v2, "distribution function not monotone between %.6g and %.6g" % (a1, a2)))
    # symmetry + inverse relation through the harness
    sym_in = "".join("normal %s\nnormal %s\nstudent %s 7\nstudent %s 7\n" % (hx(a), hx(1 - a), hx(a), hx(1 - a)) for a in alphas[:40])
    rc, out2, _ = vlib.sh([exe], inp=sym_in, timeout=60)
    sv = [float.fromhex(l.split()[0]) for l in out2.split("\n")[:-1]]
    for i, a in enumerate(alphas[:40]):
        n1, n2, s1, s2 = sv[4 * i:4 * i + 4]
        if abs(n1 + n2) > 1e-9 * max(1, abs(n1)) or abs(s1 + s2) > 1e-9 * max(1, abs(s1)):
            viol.append(("symmetry", a, 7, n1, "Normal/Student not antisymmetric: %.12g vs %.12g ; %.12g vs %.12g" % (n1, n2, s1, s2)))
    inv_in = "".join("nd %s\n" % hx(v) for (k, a, n), v in zip(queries, vals) if k == "normal" and 1e-12 <= a <= 1 - 1e-12)
    rc, out3, _ = vlib.sh([exe], inp=inv_in, timeout=60)
    iv = [float.fromhex(l.split()[0]) for l in out3.split("\n")[:-1]]
    j = 0
    for (k, a, n), v in zip(queries, vals):
        if k == "normal" and 1e-12 <= a <= 1 - 1e-12:
            D = iv[j]; j += 1
            if not (abs((1 - D) - a) <= 1e-9 * max(a, 1e-300) + 1e-15) and not (abs(D - (1 - a)) <= 2e-16):
                viol.append(("inverse", a, 0, D, "NormalDistribution(Normal(%.6g)) = %.15g, expected %.15g" % (a, D, 1 - a)))
    for (k, a, n, v, why) in viol[:5]:
        ctx.violation({"kind": "oracle:statan", "function": k, "alpha_or_x": a, "dof": n, "value": v, "oracle": why},
                      "%s(%.9g%s) = %.12g: %s" % (k, a, (", %d" % n) if n else "", v, why))
    ctx.obligation(not viol, "property oracle on the implementation")
    # ---- K: model vs implementation inside Coq ----
    kcode = {"normal": 1, "nd": 2, "student": 3, "chi2": 4}
    cases = ["(%d%%nat, %s, %d%%Z, %s)" % (kcode[k], vlib.hexfloat(a), n, vlib.hexfloat(v)) for (k, a, n), v in zip(queries, vals)
             if not (k == "chi2" and n > 2) and not math.isnan(v)]
    shard = 500
    badidx = []
    for s0 in range(0, len(cases), shard):
        vtxt = "From Coq Require Import List Floats NArith ZArith.\nFrom Gama Require Import StatRun.\nImport ListNotations.\nLocal Open Scope float_scope.\n" \
               "Definition cases : list (nat * float * Z * float) := [\n%s\n].\n" % ";\n".join(cases[s0:s0 + shard]) + \
               'Goal True. idtac "@@STAT". Abort.\nEval vm_compute in bad_cases cases.\n'
        rc, cout = vlib.coq_run(vtxt, ctx.scratch, name="cases_c17_%d" % s0, timeout=900)
        lst = vlib.parse_coq_list(cout, "@@STAT")
        ctx.checker_cmds.append("coqc -Q coq Gama cases_c17_%d.v" % s0)
        ok = rc == 0 and lst == []
        ctx.obligation(ok, "K:statan shard %d" % s0)
        if rc != 0 or lst is None:
            ctx.log(cout[-800:])
            ctx.violation({"kind": "K:statan", "broken": "cases file did not evaluate", "tail": cout[-500:]}, "cases file failed", no_input=True)
        elif lst:
            badidx += [cases[s0 + int(x.replace("%N", ""))] for x in lst]
    if badidx and not viol:
        ctx.violation({"kind": "K:statan", "broken": "correspondence K:statan (StatRun vs statan.cpp)", "cases": badidx[:8]},
                      "model and implementation of the statistical functions disagree; the property oracle found no failing input", no_input=True)
    # ---- per-sample certificates (kernel-checked) ----
    certs = []
    csel = [(k, a, n, v) for (k, a, n), v in zip(queries, vals) if 0.0005 <= a <= 0.5 and not math.isnan(v)]
    nn = [c for c in csel if c[0] == "normal"]
    ss = [c for c in csel if c[0] == "student" and c[2] >= 3 and c[2] <= 30 and c[1] <= 0.45]
    rng.shuffle(nn); rng.shuffle(ss)
    for (k, a, n, v) in nn[:(12 if ctx.quick else 150)]:
        certs.append(("Normal(%.6g)=%r within 1e-6 relative" % (a, v), cert_normal(a, v, 2e-7 * a)))
    for (k, a, n, v) in ss[:(12 if ctx.quick else 150)]:
        certs.append(("Student(%.6g,%d)=%r" % (a, n, v), cert_student(a, n, v, 6e-4 * a + 1e-9)))
    failed = run_certs(ctx, certs) if not viol else []
    ctx.extra["certificates"] = {"count": len(certs), "failed": len(failed), "statement": "|c_N * int_0^t density - (1/2 - alpha)| <= eps, eps = 2e-7 alpha (Normal), 6e-4 alpha (Student): with the density bounds this gives the relative accuracy the property states"}
    for desc, tail in failed[:3]:
        ctx.violation({"kind": "certificate", "certificate": desc, "coq": tail, "broken": "Interval certificate for " + desc},
                      "kernel-checked certificate failed: " + desc, no_input=True)
    ctx.sample({"query": "normal 0.025", "impl": [v for (k, a, n), v in zip(queries, vals) if k == "normal" and a == 0.025][:1]})
    ctx.sample({"certificate": certs[0][1][:300] if certs else None})
    return ctx.finish(rule="grids: alpha in [0.0005,0.9995] (24 fixed + random) and 1e-4..1e-12 from both ends; dof 1..30 and up to 1e5 (quick) / 1..200 and up to 1e6; "
                           "x in [-40,40] incl. the branch points 2.32 / 3.5 of NormalDistribution; every query is a case; distinct by (function, argument, dof)")
