"""End-to-end (kind E) relations on the rebuilt gama-local, shared by C02, C06-C10, C12-C14, C20.
Every relation evaluated here is one that a theorem of the Coq development predicts for the model."""
import copy, math, os
import vlib
from tools import gama, netgen

ALGS = ["envelope", "gso", "svd", "cholesky"]


def binaries(ctx, sanitize=False):
    return vlib.build_repo(sanitize=sanitize)


def varied_network(rng, kind=None):
    kind = kind or rng.choice(["lev-fixed", "lev-free", "2d-fixed", "2d-fixed", "2d-free", "3d-fixed", "3d-free", "2d-cov", "lev-cov"])
    dim = {"lev": 1, "2d": 2, "3d": 3}[kind.split("-")[0]]
    mode = kind.split("-")[1]
    n = rng.randint(4, 7)
    if mode == "free":
        nd = {1: rng.randint(1, 3), 2: rng.randint(2, 4), 3: rng.randint(2, 4)}[dim]
        net, truth, meta = netgen.make_network(rng, dim=dim, n=n, n_fixed=nd, datum="free")
    else:
        nf = {1: rng.randint(1, 2), 2: rng.randint(2, 3), 3: rng.randint(2, 3)}[dim]
        net, truth, meta = netgen.make_network(rng, dim=dim, n=n, n_fixed=nf, datum="fixed")
    if mode == "cov":
        add_covariances(rng, net)
    meta["kind"] = kind
    return net, truth, meta


def add_covariances(rng, net):
    """replace the stdevs of some clusters by a banded covariance matrix with the same variances"""
    for c in net["clusters"]:
        if len(c["obs"]) >= 2 and not c.get("cov") and all("stdev" in ob for ob in c["obs"]) and rng.random() < 0.8:
            sds = [ob["stdev"] for ob in c["obs"]]
            cov, _ = netgen.band_cov(rng, sds, rng.randint(1, len(sds) - 1))
            c["cov"] = cov
            for ob in c["obs"]:
                ob.pop("stdev", None)


def run_all(ctx, bdir, net, name, algs=ALGS, outputs=("xml",), extra=()):
    txt = gama.render_gkf(net) if isinstance(net, dict) else net
    out = {}
    for a in algs:
        rr = gama.run_gama_local(bdir, txt, ctx.scratch, name, a, outputs=outputs, extra=extra)
        res = None
        err = None
        if rr.rc in (98, 99) or "Sanitizer" in rr.err or "runtime error:" in rr.err:
            err = "sanitizer: " + rr.err[-1500:]
        elif rr.rc < 0 or rr.rc == 124:
            err = "crash/timeout rc=%d %s" % (rr.rc, rr.err[-500:])
        elif "xml" in rr.files and os.path.exists(rr.files["xml"]) and os.path.getsize(rr.files["xml"]) > 0:
            try:
                res = gama.parse_adjustment_xml(rr.files["xml"])
            except Exception as e:       # not well-formed
                err = "xml output not parseable: %s" % e
        out[a] = {"run": rr, "res": res, "err": err}
    return out, txt


def adjusted_ok(o):
    return o["res"] is not None and o["res"].get("error") is None


def compare_results(a, b, ctol=2e-6, rtol=2e-6, check_cov=True, check_obs=True, covtol=2e-5):
    """differences between two parsed adjustment results (same input); returns list of strings"""
    d = []
    for k in ("equations", "unknowns", "dof", "defect", "connected", "coord_summary", "obs_summary"):
        if a[k] != b[k]:
            d.append("%s: %s vs %s" % (k, a[k], b[k]))
    if d:
        return d
    if abs(a["ssq"] - b["ssq"]) > rtol * max(1.0, abs(a["ssq"])) + 1e-9:
        d.append("sum of squares %.8g vs %.8g" % (a["ssq"], b["ssq"]))
    ma, mb = gama.adjusted_map(a), gama.adjusted_map(b)
    if set(ma) != set(mb):
        d.append("adjusted point sets differ: %s vs %s" % (sorted(ma), sorted(mb)))
        return d
    for pid in ma:
        for c in "xyz":
            if (c in ma[pid]) != (c in mb[pid]):
                d.append("point %s coordinate %s present in one result only" % (pid, c))
            elif c in ma[pid] and abs(ma[pid][c] - mb[pid][c]) > ctol:
                d.append("point %s %s: %.7f vs %.7f" % (pid, c, ma[pid][c], mb[pid][c]))
    s1, s2 = a["stdev"], b["stdev"]
    for k in ("apriori", "aposteriori", "confidence_scale"):
        if s1[k] is not None and s2[k] is not None and abs(s1[k] - s2[k]) > rtol * max(1.0, abs(s1[k])):
            d.append("stdev %s: %s vs %s" % (k, s1[k], s2[k]))
    if check_cov and a["cov"] and b["cov"]:
        if (a["cov"]["dim"], a["cov"]["band"]) != (b["cov"]["dim"], b["cov"]["band"]) or a["index"] != b["index"]:
            d.append("cov-mat layout differs")
        else:
            sc = max([1e-12] + [abs(v) for v in a["cov"]["flt"]])
            for i, (u, v) in enumerate(zip(a["cov"]["flt"], b["cov"]["flt"])):
                if abs(u - v) > covtol * sc:
                    d.append("cov-mat element %d: %.8g vs %.8g" % (i, u, v))
                    break
    if check_obs:
        if len(a["observations"]) != len(b["observations"]):
            d.append("number of listed observations differs")
        else:
            for i, (o1, o2) in enumerate(zip(a["observations"], b["observations"])):
                if (o1["tag"], o1.get("from"), o1.get("to"), o1.get("id")) != (o2["tag"], o2.get("from"), o2.get("to"), o2.get("id")):
                    d.append("observation %d differs in type/ends" % i)
                    break
                for k, t in (("adj", 2e-6), ("stdev", 2e-4), ("qrr", 2e-3), ("f", 0.2), ("std-residual", 2e-2)):
                    if k in o1 and k in o2 and isinstance(o1[k], float) and isinstance(o2[k], float):
                        if abs(o1[k] - o2[k]) > t * max(1.0, abs(o1[k])) and not (k == "adj" and abs(abs(o1[k] - o2[k]) - 400) < 1e-5):
                            d.append("observation %d (%s %s->%s) %s: %s vs %s" % (i, o1["tag"], o1.get("from"), o1.get("to"), k, o1[k], o2[k]))
                            break
    return d


def summarize(net):
    return {"points": len(net["points"]), "clusters": [(c["kind"], len(c["obs"]), (c.get("cov") or {}).get("band")) for c in net["clusters"]]}


def algorithms_agree(ctx, n):
    """C02 (E): for generated networks all four algorithms report the same adjustment, or all refuse"""
    bdir = binaries(ctx)
    bad = 0
    for i in range(n):
        kind = None
        ill = ctx.rng.random() < 0.25
        net, truth, meta = varied_network(ctx.rng, kind)
        if ill:
            make_ill_posed(ctx.rng, net, meta)
        outs, txt = run_all(ctx, bdir, net, "c02_%d" % i)
        ctx.count(("c02e", txt), nontrivial=True)
        ctx.hist("network_kind", meta["kind"] + ("+ill" if ill else ""))
        oks = {a: adjusted_ok(outs[a]) for a in ALGS}
        errs = {a: outs[a]["err"] for a in ALGS if outs[a]["err"]}
        if i == 0:
            ctx.sample({"network": summarize(net), "kind": meta["kind"], "adjusted": oks})
        if errs:
            bad += 1
            ctx.violation({"kind": "E:algorithms", "gkf": txt, "errors": errs}, "gama-local failed: %s" % errs)
            continue
        if len(set(oks.values())) > 1:
            # recorded finding (shared with C20): on a planted datum problem the algorithms remove different points; one of them may be
            # left with nothing to adjust while the others go on with a part of the network
            key = None
            nadj = sum(len((p.get("adj") or "")) for p in net["points"]) if isinstance(net, dict) else None      # coordinates to be adjusted

            def ncoord(res):
                cs = res["coord_summary"]
                return sum(3 * cs[k]["xyz"] + 2 * cs[k]["xy"] + cs[k]["z"] for k in ("adjusted",))      # (constrained ones are counted among them)
            if ill and nadj is not None and any(oks[a] and ncoord(outs[a]["res"]) < nadj for a in ALGS):
                key = "%s:removed-points-depend-on-algorithm" % ctx.pid
            if ctx.violation({"kind": "E:algorithms-refusal", "gkf": txt, "adjusted_by": oks,
                              "messages": {a: (outs[a]["run"].out + outs[a]["run"].err)[-300:] for a in ALGS}},
                             "algorithms disagree on whether the network can be adjusted: %s" % oks, key=key):
                bad += 1
            continue
        ctx.hist("outcome", "adjusted" if oks["gso"] else "refused")
        if not oks["gso"]:
            continue
        ref = outs["gso"]["res"]
        for a in ALGS:
            if a == "gso":
                continue
            dd = compare_results(ref, outs[a]["res"])
            if dd:
                # recorded finding (shared with C20): on a network whose datum is insufficient every algorithm removes the points of the
                # dependent unknowns it meets last in its own pivoting / ordering; recognised by different sets of removed points
                key = None
                if ill and dd[0].startswith(("equations:", "unknowns:", "coord_summary:", "adjusted point sets differ")):
                    rem = {}
                    for x in ("gso", a):
                        t = outs[x]["run"].out + outs[x]["run"].err
                        rem[x] = (outs[x]["res"]["equations"], outs[x]["res"]["unknowns"])
                    if rem["gso"] != rem[a]:
                        key = "%s:removed-points-depend-on-algorithm" % ctx.pid
                if ctx.violation({"kind": "E:algorithms", "gkf": txt, "algorithms": ["gso", a], "differences": dd[:10]},
                                 "gso and %s give different adjustments: %s" % (a, dd[0]), key=key):
                    bad += 1
                break
        if bad >= 3:
            break
    ctx.obligation(bad == 0, "E:algorithms-agree")


def make_ill_posed(rng, net, meta):
    """plants a datum problem: too few constrained coordinates / a point with a single determining element /
    a hanging point with one direction only"""
    how = rng.choice(["few-constraints", "single-element", "no-datum"])
    meta["kind"] += ":" + how
    if how == "few-constraints" and meta["datum"] == "free":
        # keep only one constrained point
        first = True
        for p in net["points"]:
            a = p.get("adj")
            if a and a.isupper():
                if first:
                    first = False
                else:
                    p["adj"] = a.lower()
    elif how == "no-datum":
        for p in net["points"]:
            if "fix" in p:
                a = p.pop("fix")
                p["adj"] = a
    else:
        # new point observed by a single distance (2D/3D) or nothing that fixes it
        pid = "Q9"
        dim = meta["dim"]
        if dim == 1:
            net["points"].append({"id": pid, "adj": "z", "z": 300.0})
            # not connected to anything: no observation -> point is removed; make a second point pair connected only to each other
            net["points"].append({"id": "Q8", "adj": "z", "z": 301.0})
            net["clusters"].append({"kind": "height-differences", "obs": [{"t": "dh", "from": "Q9", "to": "Q8", "val": 1.0, "stdev": 2.0}]})
        else:
            p0 = net["points"][0]
            q = {"id": pid, "adj": "xy" if dim == 2 else "xyz", "x": p0.get("x", 1000.0) + 50.0, "y": p0.get("y", 2000.0) + 60.0}
            if dim == 3:
                q["z"] = p0.get("z", 300.0)
            net["points"].append(q)
            for c in net["clusters"]:
                if c["kind"] == "obs" and c.get("from") == p0["id"]:
                    c["obs"].append({"t": "distance", "to": pid, "val": math.hypot(50.0, 60.0), "stdev": 5.0})
                    break
            else:
                net["clusters"].append({"kind": "obs", "from": p0["id"], "obs": [{"t": "distance", "to": pid, "val": math.hypot(50.0, 60.0), "stdev": 5.0}]})
