"""C07 -- equivalent descriptions of the same survey give the same adjustment.

proof:  coq/Properties_C07.v (row / column / unit transformations of the linearised problem leave the minimisers and
        v'Pv unchanged or transform them as prescribed) + PointID ordering facts are exercised end to end
E:      metamorphic runs of gama-local on generated noisy networks: translation (up to national-grid magnitudes),
        turning the zero of a direction set (incl. values near 0/200/400 gon), permutations of points / clusters /
        observations, renaming of points (numeric <-> string ids, non-ASCII), degrees instead of gons, swapping the ends of
        distances, mirrored axes (ne <-> nw with y -> -y) and right-handed angles (values -> 400 - value)
"""
import copy, math
import vlib
from checks import enet
from tools import gama, netgen


def t_translate(rng, net):
    n = copy.deepcopy(net)
    dx, dy, dz = (rng.choice([1.0, 1e3, 1e5, 5e6]) * rng.uniform(-1, 1) for _ in range(3))
    dx, dy, dz = round(dx, 3), round(dy, 3), round(dz, 3)
    for p in n["points"]:
        if "x" in p:
            p["x"] += dx; p["y"] += dy
        if "z" in p:
            p["z"] += dz
    for c in n["clusters"]:
        if c["kind"] == "coordinates":
            for ob in c["obs"]:
                if "x" in ob:
                    ob["x"] += dx; ob["y"] += dy
                if "z" in ob:
                    ob["z"] += dz
    return n, {"shift": (dx, dy, dz)}


def t_rotate(rng, net):
    n = copy.deepcopy(net)
    for c in n["clusters"]:
        if c["kind"] == "obs":
            dirs = [ob for ob in c["obs"] if ob["t"] == "direction"]
            if not dirs:
                continue
            how = rng.choice(["random", "zero", "200", "400-", "0+"])
            if how == "random":
                sh = rng.uniform(0, 400)
            else:
                tgt = {"zero": 0.0, "200": 200.0, "400-": 399.99995, "0+": 0.00005}[how]
                sh = (tgt - rng.choice(dirs)["val"]) % 400.0
            for ob in dirs:
                ob["val"] = (ob["val"] + sh) % 400.0
    return n, {}


def t_permute(rng, net):
    n = copy.deepcopy(net)
    rng.shuffle(n["points"])
    rng.shuffle(n["clusters"])
    for c in n["clusters"]:
        if not c.get("cov"):
            rng.shuffle(c["obs"])
    return n, {}


def t_rename(rng, net):
    n = copy.deepcopy(net)
    ids = [p["id"] for p in n["points"]]
    style = rng.choice(["numeric", "alpha", "unicode", "mixed"])
    pool = {"numeric": [str(rng.randint(1, 99999)) for _ in range(50)],
            "alpha": ["st_%c%d" % (rng.choice("ABCxyz"), i) for i in range(50)],
            "unicode": ["bód-č%d" % i for i in range(50)] + ["ж%d" % i for i in range(20)],
            "mixed": [str(rng.randint(1, 999)) for _ in range(25)] + ["P.%d" % i for i in range(25)] + ["007", "+7", "0"]}[style]
    pool = list(dict.fromkeys(pool))
    rng.shuffle(pool)
    mp = {old: pool[i] for i, old in enumerate(ids)}
    for p in n["points"]:
        p["id"] = mp[p["id"]]
    for c in n["clusters"]:
        if "from" in c:
            c["from"] = mp[c["from"]]
        for ob in c["obs"]:
            for k in ("from", "to", "bs", "fs", "id"):
                if k in ob:
                    ob[k] = mp[ob[k]]
    return n, {"map": mp}


def dms(g, prec=7):
    deg = g * 0.9
    d = int(deg)
    m = int((deg - d) * 60)
    s = ((deg - d) * 60 - m) * 60
    st = "%.*f" % (prec, s)
    if float(st) >= 60:
        s = 0.0; m += 1
        if m == 60:
            m = 0; d += 1
        st = "%.*f" % (prec, s)
    return "%d-%02d-%s" % (d, m, st)


def t_degrees(rng, net):
    n = copy.deepcopy(net)
    for c in n["clusters"]:
        if c["kind"] != "obs" or c.get("cov"):
            continue
        for ob in c["obs"]:
            if ob["t"] in ("direction", "angle", "z-angle", "azimuth"):
                ob["valstr"] = dms(ob["val"])
                ob["stdev"] = ob["stdev"] * 0.324
    return n, {}


def t_swap_distance(rng, net):
    n = copy.deepcopy(net)
    new = []
    for c in n["clusters"]:
        if c["kind"] != "obs" or c.get("cov"):
            continue
        keep = []
        for ob in c["obs"]:
            if ob["t"] == "distance" and rng.random() < 0.6:
                new.append({"kind": "obs", "from": ob["to"], "obs": [dict(ob, to=c["from"])]})
            else:
                keep.append(ob)
        c["obs"] = keep
    n["clusters"] = [c for c in n["clusters"] if c["obs"]] + new
    return n, {}


def t_mirror(rng, net):
    n = copy.deepcopy(net)
    n["attrs"]["axes-xy"] = {"ne": "nw", "sw": "se", "es": "en", "wn": "ws"}[n["attrs"].get("axes-xy", "ne")]
    for p in n["points"]:
        if "y" in p:
            p["y"] = -p["y"]
    for c in n["clusters"]:
        for ob in c["obs"]:
            if c["kind"] == "coordinates" and "y" in ob:
                ob["y"] = -ob["y"]
            if c["kind"] == "vectors":
                ob["dy"] = -ob["dy"]
        if c.get("cov") and c["cov"]["band"] > 0 and c["kind"] in ("coordinates", "vectors"):
            # covariances between y and the other components change sign
            dimc = c["cov"]["dim"]
            comp = []
            if c["kind"] == "vectors":
                comp = ["x", "y", "z"] * (dimc // 3)
            else:
                for ob in c["obs"]:
                    comp += [k for k in ("x", "y", "z") if k in ob]
            k = 0
            for i in range(dimc):
                for j in range(i, min(dimc, i + c["cov"]["band"] + 1)):
                    if (comp[i] == "y") != (comp[j] == "y"):
                        c["cov"]["vals"][k] = -c["cov"]["vals"][k]
                    k += 1
    return n, {"mirror_y": True}


def t_handed(rng, net):
    n = copy.deepcopy(net)
    n["attrs"]["angles"] = "right-handed"
    for c in n["clusters"]:
        neg = []
        for ob in c["obs"]:
            neg.append(ob["t"] in ("direction", "angle"))
            if ob["t"] in ("direction", "angle"):
                ob["val"] = (400.0 - ob["val"]) % 400.0
        if c["kind"] == "obs" and c.get("cov") and c["cov"]["band"] > 0:
            # an observable whose sign is reversed has the opposite covariance with the others
            dimc = c["cov"]["dim"]
            k = 0
            for i in range(dimc):
                for j in range(i, min(dimc, i + c["cov"]["band"] + 1)):
                    if neg[i] != neg[j]:
                        c["cov"]["vals"][k] = -c["cov"]["vals"][k]
                    k += 1
    return n, {"angles_negated": True}


def t_axes_rotation(rng, net):
    """other left-handed axis namings describe the same numbers (no azimuths in the network)"""
    n = copy.deepcopy(net)
    n["attrs"]["axes-xy"] = rng.choice(["sw", "es", "wn"])
    return n, {}


TRANSFORMS = [("translate", t_translate), ("rotate-circle", t_rotate), ("permute", t_permute), ("rename", t_rename), ("degrees", t_degrees),
              ("swap-distance", t_swap_distance), ("mirror-axes", t_mirror), ("right-handed-angles", t_handed), ("axes-naming", t_axes_rotation)]


def compare(r1, r2, info, name):
    """r2 is the result for the transformed input; returns differences after undoing the transformation"""
    dd = []
    for k in ("equations", "unknowns", "dof", "defect"):
        if r1[k] != r2[k]:
            dd.append("%s: %s vs %s" % (k, r1[k], r2[k]))
    if dd:
        return dd
    if abs(r1["ssq"] - r2["ssq"]) > 5e-6 * max(1.0, r1["ssq"]) + 1e-7:
        dd.append("sum of squares %.8g vs %.8g" % (r1["ssq"], r2["ssq"]))
    mp = info.get("map")
    m1 = gama.adjusted_map(r1)
    m2 = gama.adjusted_map(r2)
    sh = info.get("shift", (0, 0, 0))
    for pid, p in m1.items():
        q = m2.get(mp[pid] if mp else pid)
        if q is None:
            dd.append("point %s missing in the transformed result" % pid)
            continue
        for i, c in enumerate("xyz"):
            if c in p:
                v = q.get(c)
                if v is None:
                    dd.append("coordinate %s of %s missing" % (c, pid)); continue
                v -= sh[i]
                if c == "y" and info.get("mirror_y"):
                    v = -v
                tol = 4e-6 if max(abs(s) for s in sh) < 1e4 else 3e-5
                if abs(v - p[c]) > tol:
                    dd.append("point %s %s: %.7f vs %.7f (transformed back)" % (pid, c, p[c], v))
    for k in ("aposteriori",):
        if abs(r1["stdev"][k] - r2["stdev"][k]) > 5e-6 * max(1.0, r1["stdev"][k]):
            dd.append("m0 %s vs %s" % (r1["stdev"][k], r2["stdev"][k]))
    # ellipses (semi-axes) per point
    e1 = {e["id"]: e for e in r1["ellipses"]}
    e2 = {e["id"]: e for e in r2["ellipses"]}
    for pid, e in e1.items():
        f = e2.get(mp[pid] if mp else pid)
        if f and (abs(e["major"] - f["major"]) > 2e-5 * max(1, e["major"]) or abs(e["minor"] - f["minor"]) > 2e-5 * max(1, e["major"])):
            dd.append("error ellipse of %s: %.6g/%.6g vs %.6g/%.6g" % (pid, e["major"], e["minor"], f["major"], f["minor"]))
    # residuals as a multiset per observation type (orders / ends may change)
    def resid(r):
        out = {}
        for o in r["observations"]:
            if isinstance(o.get("adj"), float) and isinstance(o.get("obs"), float):
                v = o["adj"] - o["obs"]
                ang = o["tag"] in ("direction", "angle", "azimuth", "zenith-angle")
                if ang:
                    v = (v + 200) % 400 - 200
                # the sign convention of the printed values of y-type and angular observations follows the (mirrored)
                # frame of the description: compare magnitudes there
                if (info.get("angles_negated") or info.get("mirror_y")) and (ang or o["tag"] in ("coordinate-y", "dy")):
                    v = abs(v)
                out.setdefault(o["tag"], []).append(v)
        return {k: sorted(v) for k, v in out.items()}
    a, b = resid(r1), resid(r2)
    if info.get("angles_negated") or info.get("mirror_y"):
        a = {k: sorted(abs(v) for v in vs) if (k in ("direction", "angle", "azimuth", "zenith-angle", "coordinate-y", "dy")) else vs for k, vs in a.items()}
        b = {k: sorted(abs(v) for v in vs) if (k in ("direction", "angle", "azimuth", "zenith-angle", "coordinate-y", "dy")) else vs for k, vs in b.items()}
    if set(a) != set(b):
        dd.append("observation types differ: %s vs %s" % (sorted(a), sorted(b)))
    else:
        for k in a:
            if len(a[k]) != len(b[k]):
                dd.append("number of %s observations differs" % k)
            else:
                lim = 4e-7 if k in ("direction", "angle", "azimuth", "zenith-angle") else 4e-6
                for u, v in zip(a[k], b[k]):
                    if abs(u - v) > lim:
                        dd.append("residuals of %s observations differ: %.3e vs %.3e" % (k, u, v))
                        break
    return dd


def run(ctx):
    ctx.check_proofs()
    bdir = enet.binaries(ctx)
    n = 10 if ctx.quick else 80
    bad = 0
    for t in range(n):
        kind = ctx.rng.choice(["2d-fixed", "2d-fixed", "2d-free", "3d-fixed", "3d-free", "lev-fixed", "2d-cov"])
        net, truth, meta = enet.varied_network(ctx.rng, kind)
        ids = [p["id"] for p in net["points"]]
        if meta["dim"] == 3 and ctx.rng.random() < 0.5:
            netgen.add_vectors_cluster(ctx.rng, net, truth, [tuple(ctx.rng.sample(ids, 2)) for _ in range(2)], cov_band=ctx.rng.choice([None, 2]))
        if meta["dim"] != 1 and ctx.rng.random() < 0.4:
            netgen.add_coordinates_cluster(ctx.rng, net, truth, ctx.rng.sample(ids, 2), dim=meta["dim"], cov_band=ctx.rng.choice([None, 1]))
        alg = ctx.rng.choice(enet.ALGS)
        o1, txt1 = enet.run_all(ctx, bdir, net, "c07_%d_base" % t, algs=[alg])
        if not enet.adjusted_ok(o1[alg]):
            ctx.skipped("skipped_base_not_adjusted", {"gkf": txt1})
            continue
        if t == 0:
            ctx.sample({"network": enet.summarize(net), "transformations": [n_ for n_, _ in TRANSFORMS]})
        for name, fn in TRANSFORMS:
            if meta["dim"] == 1 and name in ("rotate-circle", "degrees", "swap-distance", "mirror-axes", "right-handed-angles", "axes-naming"):
                continue
            net2, info = fn(ctx.rng, net)
            o2, txt2 = enet.run_all(ctx, bdir, net2, "c07_%d_%s" % (t, name), algs=[alg])
            ctx.count(("c07", name, txt1), nontrivial=True)
            ctx.hist("transformation", name)
            if o2[alg]["err"] or not enet.adjusted_ok(o2[alg]):
                ctx.violation({"kind": "E:equivalent", "transformation": name, "gkf": txt1, "gkf_transformed": txt2, "algorithm": alg,
                               "output": (o2[alg]["err"] or (o2[alg]["run"].out + o2[alg]["run"].err)[-500:])},
                              "the %s re-expression of an adjustable network is not adjusted" % name)
                bad += 1
                continue
            dd = compare(o1[alg]["res"], o2[alg]["res"], info, name)
            if dd:
                bad += 1
                ctx.violation({"kind": "E:equivalent", "transformation": name, "gkf": txt1, "gkf_transformed": txt2, "algorithm": alg, "differences": dd[:8]},
                              "%s changed the adjustment (%s): %s" % (name, alg, dd[0]))
            if bad >= 4:
                break
        if bad >= 4:
            break
    ctx.obligation(bad == 0, "E:equivalent-descriptions")
    return ctx.finish(rule="generated noisy networks (1D/2D/3D, fixed / free datum, correlated clusters, vectors, observed coordinates) x 9 re-expressions, one random "
                           "algorithm per network; each (network, transformation) pair is a non-trivial case; distinct by content")
