"""Directed cases: minimised inputs on which gama once broke a property (found by my own generators, by the sub-agents
that wrote the seeded changes, or by the code-review agents), kept as a corpus that runs FIRST in the check of the property
(corpus/directed/cases.json + the input files next to it).  Each case states the relation the property demands:

  truth            gama-local adjusts the file: every listed point is returned at its true coordinates, all `nobs` observations
                   take part (error-free data: C06)
  same             several descriptions of one survey: same adjusted points, coordinates and number of equations (C07, C14)
  clean            a command line of gama-local / gama-g3 under ASan+UBSan: no signal, no sanitizer report, no time-out (C11)
  accepted         the input is adjusted (documented grammar: C11)
  refused_located  the input is refused and the diagnostic names a line >= `line` (C11)
  g3               gama-g3 adjusts the file with the expected statistics and returns the true coordinates (C19)
  g3_same          several g3 descriptions of one network: same statistics and coordinates

A directed case is a test, not a proof: it pins one input.  The generators of the checks were extended where that was cheap;
these cases make sure that exactly what was repaired is reported again if it returns."""
import json, os, re, shutil, subprocess
import xml.etree.ElementTree as ET
import vlib
from checks import enet
from tools import gama

DIR = os.path.join(vlib.VERIF, "corpus", "directed")
SAN = re.compile(r"AddressSanitizer|runtime error:|LeakSanitizer|UndefinedBehaviorSanitizer|SUMMARY: ")
ENV = dict(os.environ, ASAN_OPTIONS="detect_leaks=0:abort_on_error=0:exitcode=99", UBSAN_OPTIONS="print_stacktrace=1:halt_on_error=1:exitcode=98")


def load(pid):
    p = os.path.join(DIR, "cases.json")
    if not os.path.exists(p):
        return []
    return [c for c in json.load(open(p)) if c["property"] == pid]


def _run(cmd, cwd):
    try:
        p = subprocess.run(cmd, capture_output=True, timeout=120, env=ENV, cwd=cwd, stdin=subprocess.DEVNULL)
        return p.returncode, p.stdout.decode("latin-1"), p.stderr.decode("latin-1")
    except subprocess.TimeoutExpired:
        return 124, "", "timeout"


def _unsafe(rc, out, err):
    if rc == 124:
        return "does not terminate (120 s)"
    if rc < 0:
        return "killed by signal %d" % -rc
    m = SAN.search(err) or SAN.search(out)
    if m:
        t = err if SAN.search(err) else out
        return "sanitizer report: " + t[m.start():m.start() + 300].replace("\n", " | ")
    return None


def _local(ctx, bdir, case, f, alg):
    txt = open(os.path.join(DIR, f), encoding="utf-8", errors="surrogateescape").read()
    outs, _ = enet.run_all(ctx, bdir, txt, "dir_%s_%s" % (case["id"], re.sub(r"\W", "_", f)), algs=[alg], outputs=("xml", "text"), extra=case.get("args", []))
    return outs[alg], txt


def _g3(bdir, scratch, case, f, alg):
    from checks import c19
    txt = open(os.path.join(DIR, f)).read()
    r = c19.run_g3(bdir, txt, scratch, "dir_%s_%s" % (case["id"], re.sub(r"\W", "_", f)), alg)
    return r, txt


def run(ctx, pid, bdir=None):
    """runs the directed cases of property pid; returns the number of violated cases"""
    cases = load(pid)
    if not cases:
        return 0
    bdir = vlib.build_repo(sanitize=True)
    bad = 0
    for case in cases:
        kind = case["kind"]
        why = None
        replay = {"kind": "directed:" + kind, "case": case["id"], "files": case.get("files"), "what": case.get("what"), "origin": case.get("origin")}
        ctx.count(("directed", case["id"]), nontrivial=True)
        ctx.hist("directed_cases", kind)
        algs = case.get("algs", ["envelope", "gso"])
        try:
            if kind == "truth":
                f = case["files"][0]
                for a in algs:
                    o, txt = _local(ctx, bdir, case, f, a)
                    replay["gkf"] = txt
                    if o["err"]:
                        why = "%s: %s" % (a, o["err"][:300]); break
                    if not enet.adjusted_ok(o):
                        why = "%s: the error-free network is not adjusted: %s" % (a, (o["run"].out + o["run"].err).strip()[-200:]); break
                    am = gama.adjusted_map(o["res"])
                    for pidn, xyz in case["truth"].items():
                        for c, v in zip("xyz", xyz):
                            if v is None:
                                continue
                            if pidn not in am or c not in am[pidn]:
                                why = "%s: point %s has no adjusted %s" % (a, pidn, c); break
                            if abs(am[pidn][c] - v) > case.get("ctol", 1e-4):
                                why = "%s: point %s %s adjusted %.6f, true %.6f" % (a, pidn, c, am[pidn][c], v); break
                        if why:
                            break
                    if not why and "nobs" in case and o["res"]["equations"] != case["nobs"]:
                        why = "%s: %d of %d error-free observations take part" % (a, o["res"]["equations"], case["nobs"])
                    if why:
                        break
            elif kind == "same":
                for a in algs:
                    ref = None
                    for f in case["files"]:
                        o, txt = _local(ctx, bdir, case, f, a)
                        if o["err"]:
                            why = "%s %s: %s" % (f, a, o["err"][:300]); break
                        if not enet.adjusted_ok(o):
                            why = "%s (%s) is not adjusted although %s is: %s" % (f, a, case["files"][0], (o["run"].out + o["run"].err).strip()[-160:]) if ref else \
                                  "%s (%s) is not adjusted: %s" % (f, a, (o["run"].out + o["run"].err).strip()[-160:])
                            replay["gkf"] = txt
                            break
                        cur = (gama.adjusted_map(o["res"]), o["res"]["equations"], o["res"])
                        if ref is None:
                            ref = cur
                            continue
                        if case.get("full"):
                            dd = enet.compare_results(ref[2], cur[2], ctol=case.get("ctol", 1e-4), rtol=case.get("ctol", 1e-4))
                            if dd:
                                why = "%s (%s) differs from %s: %s" % (f, a, case["files"][0], dd[0]); replay["gkf"] = txt; break
                        if cur[1] != ref[1] and not case.get("ignore_equations"):
                            why = "%s (%s): %d equations, %s: %d" % (f, a, cur[1], case["files"][0], ref[1]); replay["gkf"] = txt; break
                        if set(cur[0]) != set(ref[0]):
                            why = "%s (%s): adjusted points %s, %s: %s" % (f, a, sorted(cur[0]), case["files"][0], sorted(ref[0])); replay["gkf"] = txt; break
                        for pidn in ref[0]:
                            for c in ref[0][pidn]:
                                if c in "xyz" and abs(cur[0][pidn].get(c, 1e99) - ref[0][pidn][c]) > case.get("ctol", 1e-4):
                                    why = "%s (%s): point %s %s = %.6f, %s: %.6f" % (f, a, pidn, c, cur[0][pidn].get(c, float("nan")), case["files"][0], ref[0][pidn][c])
                                    replay["gkf"] = txt
                                    break
                            if why:
                                break
                        if why:
                            break
                    if why:
                        break
            elif kind in ("clean", "accepted", "refused_located"):
                tool = case.get("tool", "gama-local")
                args = []
                for x in case["args"]:
                    if x.startswith("@"):
                        dst = os.path.join(ctx.scratch, "dir_" + case["id"] + "_" + x[1:])
                        shutil.copyfile(os.path.join(DIR, x[1:]), dst)
                        replay.setdefault("input", open(dst, encoding="latin-1").read())
                        args.append(dst)
                    elif x.startswith("%"):
                        args.append(os.path.join(ctx.scratch, "dir_" + case["id"] + "_" + x[1:]))
                    else:
                        args.append(x)
                rc, out, err = _run([os.path.join(bdir, tool)] + args, ctx.scratch)
                replay["cmd"] = tool + " " + " ".join(case["args"])
                replay["rc"] = rc
                replay["stderr"] = err[-1500:]
                why = _unsafe(rc, out, err)
                if why is None and (case.get("require") or case.get("forbid")):
                    txt_ = out
                    for a_ in args:
                        if a_.endswith(".txt") and os.path.exists(a_):
                            txt_ += open(a_, encoding="latin-1").read()
                    for rx in case.get("require", []):
                        if not re.search(rx, txt_, re.S):
                            why = "the output does not contain /%s/" % rx
                    for rx in case.get("forbid", []):
                        if re.search(rx, txt_, re.S):
                            why = "the output contains /%s/" % rx
                xp = [a for a in args if a.endswith(".xmlout")]
                if why is None and kind != "clean":
                    txt = out + err
                    er = None
                    if xp and os.path.exists(xp[0]) and os.path.getsize(xp[0]) > 0:
                        try:
                            root = ET.parse(xp[0]).getroot()
                        except ET.ParseError as e:
                            why = "the XML written is not well-formed: %s" % e
                            root = None
                        if root is not None:
                            er = root.find("{http://www.gnu.org/software/gama/gama-local-adjustment}error")
                    if why is None and kind == "accepted":
                        if er is not None or (not xp and rc != 0) or "error on reading" in txt:
                            d = " / ".join((x.text or "") for x in er.iter() if x.text and x.text.strip()) if er is not None else txt.strip()[-200:]
                            why = "a document of the documented grammar is refused: %s" % d[:300]
                    if why is None and kind == "refused_located":
                        if er is None and not (rc != 0 or "error on reading" in txt):
                            why = "accepted, must be refused (%s)" % case.get("what", "")
                        else:
                            if er is not None:
                                ln = er.find("{http://www.gnu.org/software/gama/gama-local-adjustment}lineNumber")
                                line = int(ln.text) if ln is not None and (ln.text or "").strip().isdigit() else None
                            else:
                                m = re.search(r"line\D{0,20}(\d+)", txt)
                                line = int(m.group(1)) if m else None
                            if line is None or line < case.get("line", 1):
                                why = "refused without naming a line of the input (line %s): %s" % (line, txt.strip()[-200:])
            elif kind == "export":
                # C13 on one file: export (from a run with the given output options), adjust the export, export again
                from checks import c13
                exe = os.path.join(bdir, "gama-local")
                src = os.path.join(ctx.scratch, "dir_%s_in.gkf" % case["id"])
                shutil.copyfile(os.path.join(DIR, case["files"][0]), src)
                replay["gkf"] = open(src, encoding="latin-1").read()
                base = os.path.join(ctx.scratch, "dir_%s" % case["id"])
                outopt = {"text": ["--text", base + ".t"], "xml": ["--xml", base + ".x"], "both": ["--text", base + ".t", "--xml", base + ".x"]}[case.get("outputs", "text")]
                e1, e2, x0, x1 = base + ".e1.gkf", base + ".e2.gkf", base + ".x0.xml", base + ".x1.xml"
                for f_ in (e1, e2, x0, x1):
                    if os.path.exists(f_):
                        os.remove(f_)
                steps = [([src] + outopt + ["--export", e1], "export"), ([src, "--xml", x0], "adjustment of the input"),
                         ([e1, "--xml", x1], "adjustment of the export"), ([e1] + outopt + ["--export", e2], "second export")]
                for args_, label in steps:
                    rc, out, err = _run([exe] + args_ + case.get("args", []), ctx.scratch)
                    u = _unsafe(rc, out, err)
                    if u:
                        why = "%s: %s" % (label, u); break
                    if label == "adjustment of the export":
                        try:
                            r1 = gama.parse_adjustment_xml(x1)
                        except Exception as e:
                            why = "the exported file is not adjusted: %s" % e; break
                        if r1.get("error"):
                            why = "the exported file is refused: %s" % str(r1["error"])[:200]; break
                if why is None and not case.get("only_params"):
                    r0, r1 = gama.parse_adjustment_xml(x0), gama.parse_adjustment_xml(x1)
                    dd = enet.compare_results(r0, r1, ctol=case.get("ctol", 2e-5), rtol=case.get("rtol", 1e-3), check_cov=False)
                    if dd:
                        why = "adjusting the export differs from adjusting the input: %s" % dd[0]
                if why is None:
                    g1, g2 = c13.parse_gkf(open(e1, encoding="utf-8").read()), c13.parse_gkf(open(e2, encoding="utf-8").read())
                    dd = [] if case.get("only_params") else c13.gkf_equivalent(g1, g2, 2e-6)
                    if dd:
                        why = "the second export differs from the first: %s" % dd[0]
                if why is None:
                    g0 = c13.parse_gkf(replay["gkf"])
                    for k in case.get("keep_params", []):
                        if g0["params"].get(k) is not None and g1["params"].get(k) is None:
                            why = "parameter %s of the input is missing in the export" % k
                        elif g0["params"].get(k) is not None and c13.num(g0["params"][k]) is not None and abs(c13.num(g0["params"][k]) - c13.num(g1["params"][k])) > 1e-6:
                            why = "parameter %s: input %s, export %s" % (k, g0["params"][k], g1["params"][k])
            elif kind == "cxx":
                # a small C++ program against the library headers / sources of /repo, built with ASan+UBSan
                src = os.path.join(DIR, case["source"])
                exe_ = os.path.join(ctx.scratch, "dir_%s.bin" % case["id"])
                cmd = ["g++", "-std=c++17", "-O1", "-g", "-fsanitize=address,undefined", "-fno-sanitize-recover=all", "-I" + os.path.join(vlib.REPO, "lib"), "-I" + DIR]
                cmd += case.get("flags", []) + [src]
                if case.get("adj"):
                    cmd += [os.path.join(vlib.REPO, "lib/gnu_gama/adj", f_) for f_ in ("icgs.cpp", "adj_input_data.cpp", "adj.cpp")]
                cmd += ["-o", exe_]
                replay["source"] = open(src).read()
                pc = subprocess.run(cmd, capture_output=True, timeout=600)
                if pc.returncode != 0:
                    why = "does not compile against /repo/lib: %s" % pc.stderr.decode("latin-1")[-400:]
                for run_ in ([] if why else case.get("runs", [{"args": []}])):
                    rc, out, err = _run([exe_] + run_.get("args", []), ctx.scratch)
                    replay["cmd"] = os.path.basename(src) + " " + " ".join(run_.get("args", []))
                    replay["stdout"] = out[-1500:]; replay["stderr"] = err[-1500:]
                    u = _unsafe(rc, out, err)
                    if u:
                        why = "%s %s: %s" % (case["source"], " ".join(run_.get("args", [])), u); break
                    if run_.get("rc") is not None and rc != run_["rc"]:
                        why = "%s %s: exit status %d, expected %d: %s" % (case["source"], " ".join(run_.get("args", [])), rc, run_["rc"], (out + err).strip()[-200:]); break
                    for rx in run_.get("require", []):
                        if not re.search(rx, out + err, re.S):
                            why = "%s %s: the output does not contain /%s/: %s" % (case["source"], " ".join(run_.get("args", [])), rx, (out + err).strip()[-300:]); break
                    for rx in run_.get("forbid", []):
                        if re.search(rx, out + err, re.S):
                            why = "%s %s: the output contains /%s/" % (case["source"], " ".join(run_.get("args", [])), rx); break
                    if why:
                        break
            elif kind == "xsd_attrs":
                # every attribute the adjustment XML carries on an element is declared for that element by xml/gama-local-adjustment.xsd
                exe = os.path.join(bdir, "gama-local")
                src = os.path.join(ctx.scratch, "dir_%s_in.gkf" % case["id"])
                shutil.copyfile(os.path.join(DIR, case["files"][0]), src)
                xo = os.path.join(ctx.scratch, "dir_%s.xml" % case["id"])
                rc, out, err = _run([exe, src, "--xml", xo], ctx.scratch)
                replay["gkf"] = open(src, encoding="latin-1").read()
                why = _unsafe(rc, out, err)
                if why is None:
                    XS = "{http://www.w3.org/2001/XMLSchema}"
                    xsd = ET.parse(os.path.join(vlib.REPO, "xml/gama-local-adjustment.xsd")).getroot()
                    declared = {}
                    for el in xsd.iter(XS + "element"):
                        if el.get("name"):
                            declared.setdefault(el.get("name"), set()).update(a.get("name") for a in el.iter(XS + "attribute") if a.get("name"))
                    for e_ in ET.parse(xo).getroot().iter():
                        tag = e_.tag.split("}")[-1]
                        for a_ in e_.attrib:
                            if a_.split("}")[-1] not in declared.get(tag, set()) and not a_.startswith("{http://www.w3.org/2000/xmlns"):
                                why = "the adjustment XML carries <%s %s=...>, which xml/gama-local-adjustment.xsd does not declare" % (tag, a_); break
                        if why:
                            break
            elif kind == "deterministic":
                # the same command line with the heap filled by different bytes (glibc MALLOC_PERTURB_): reading memory that was
                # never written shows up as different results
                plain = vlib.build_repo(sanitize=False)
                tool = case.get("tool", "gama-local")
                outs = []
                for pert in ("0", "85", "170"):
                    args = []
                    for x in case["args"]:
                        if x.startswith("@"):
                            dst = os.path.join(ctx.scratch, "dir_" + case["id"] + "_" + x[1:])
                            shutil.copyfile(os.path.join(DIR, x[1:]), dst)
                            args.append(dst)
                        elif x.startswith("%"):
                            args.append(os.path.join(ctx.scratch, "dir_" + case["id"] + "_" + pert + "_" + x[1:]))
                        else:
                            args.append(x)
                    p_ = subprocess.run([os.path.join(plain, tool)] + args, capture_output=True, timeout=120, cwd=ctx.scratch,
                                        env=dict(os.environ, MALLOC_PERTURB_=pert), stdin=subprocess.DEVNULL)
                    txt = p_.stdout.decode("latin-1")
                    for a in args:
                        if a.endswith(".txt") and os.path.exists(a):
                            txt += open(a, encoding="latin-1").read()
                    outs.append(txt)
                replay["cmd"] = tool + " " + " ".join(case["args"])
                if len(set(outs)) != 1:
                    a_, b_ = outs[0].splitlines(), [o for o in outs if o != outs[0]][0].splitlines()
                    diff = [(x, y) for x, y in zip(a_, b_) if x != y][:2]
                    why = "the results depend on the contents of uninitialised memory (MALLOC_PERTURB_ 0 / 85 / 170): %s" % diff
            elif kind in ("g3", "g3_same"):
                ref = None
                for a in case.get("algs", ["envelope", "gso", "svd", "cholesky"]):
                    for f in case["files"]:
                        r, txt = _g3(bdir, ctx.scratch, case, f, a)
                        replay["input"] = txt
                        u = _unsafe(r["rc"], r["out"], r["err"])
                        if u:
                            why = "gama-g3 %s (%s): %s" % (f, a, u); break
                        if r["res"] is None:
                            why = "gama-g3 %s (%s) gives no results: %s" % (f, a, (r["out"] + r["err"]).strip()[-200:]); break
                        res = r["res"]
                        otxt = ""
                        op = os.path.join(ctx.scratch, "dir_%s_%s.%s.out.xml" % (case["id"], re.sub(r"\W", "_", f), a))
                        if os.path.exists(op):
                            otxt = open(op, encoding="latin-1").read()
                        for rx in case.get("require", []):
                            if not re.search(rx, otxt, re.S):
                                why = "gama-g3 %s (%s): the results do not contain /%s/" % (f, a, rx); break
                        for rx in case.get("forbid", []):
                            if re.search(rx, otxt, re.S):
                                why = "gama-g3 %s (%s): the results contain /%s/" % (f, a, rx); break
                        if why:
                            break
                        for k, v in case.get("expect", {}).items():
                            if res[k] != v:
                                why = "gama-g3 %s (%s): %s %d, expected %d" % (f, a, k, res[k], v); break
                        if why:
                            break
                        if "max_ssq" in case and res["ssq"] > case["max_ssq"]:
                            why = "gama-g3 %s (%s): sum of squares %.3e for error-free observations" % (f, a, res["ssq"]); break
                        for pidn, xyz in case.get("truth", {}).items():
                            q = res["points"].get(pidn)
                            if q is None:
                                why = "gama-g3 %s (%s): point %s missing in the results" % (f, a, pidn); break
                            for c, v in zip("xyz", xyz):
                                if q[c] is None or abs(q[c] - v) > case.get("ctol", 1e-4):
                                    why = "gama-g3 %s (%s): point %s %s = %s, true %.5f" % (f, a, pidn, c, q[c], v); break
                            if why:
                                break
                        if why:
                            break
                        if kind == "g3_same":
                            cur = ({k: res[k] for k in ("parameters", "equations", "defect", "redundancy")}, res["points"])
                            if ref is None:
                                ref = cur
                            elif cur[0] != ref[0]:
                                why = "gama-g3 %s (%s): statistics %s, %s: %s" % (f, a, cur[0], case["files"][0], ref[0]); break
                            else:
                                for pidn, q in ref[1].items():
                                    for c in "xyz":
                                        if q[c] is not None and abs((cur[1].get(pidn, {}).get(c) or 1e99) - q[c]) > case.get("ctol", 1e-4):
                                            why = "gama-g3 %s (%s): point %s %s differs from %s" % (f, a, pidn, c, case["files"][0]); break
                                    if why:
                                        break
                                if why:
                                    break
                    if why:
                        break
            else:
                why = "unknown kind of directed case: %s" % kind
        except Exception as e:      # a broken case file must not pass silently
            why = "directed case could not be run: %r" % e
        if why:
            bad += 0 if case.get("key") else 1
            ctx.violation(replay, "directed case %s (%s): %s" % (case["id"], case.get("what", ""), why), key=case.get("key"))
    ctx.obligation(bad == 0, "directed cases of %s (%d)" % (pid, len(cases)))
    return bad
