"""C13 -- exported input reproduces the adjustment and is a fixed point.

proof:  coq/Properties_C13.v (a stationary point needs no correction; re-adjustment reproduces residuals) on LsqSpec
E:      generated networks with every observation / cluster type and attribute (from_dh, to_dh, dist, covariance matrices,
        degrees, axes / angle conventions, removed observations): gama-local --export, adjust the export, export again, for
        three rounds: same points and status, same coordinates / residuals / statistics, no further linearisation
        iterations, exports equivalent as parsed documents
"""
import copy, math, os, re, xml.etree.ElementTree as ET
import vlib
from checks import enet
from tools import gama, netgen

GNS = "{http://www.gnu.org/software/gama/gama-local}"


def parse_gkf(text):
    """a canonical summary of a gkf document: points (id, status, which coordinates) and observations (type, ends, value,
    stdev / covariance, heights) - numbers rounded to what an equivalent file must reproduce"""
    root = ET.fromstring(text)
    net = root.find(GNS + "network")
    po = net.find(GNS + "points-observations")
    pts = {}
    obs = []
    for e in po:
        tag = e.tag.replace(GNS, "")
        if tag == "point":
            a = e.attrib
            pts[a["id"]] = {"fix": a.get("fix", "").lower(), "adj": a.get("adj", ""), "has": tuple(k for k in ("x", "y", "z") if k in a),
                            "xyz": tuple(float(a[k]) for k in ("x", "y", "z") if k in a)}
        elif tag in ("obs", "height-differences", "coordinates", "vectors"):
            cl = {"kind": tag, "from": e.attrib.get("from"), "obs": [], "cov": None}
            for o in e:
                t = o.tag.replace(GNS, "")
                if t == "cov-mat":
                    cl["cov"] = (int(o.attrib["dim"]), int(o.attrib["band"]), tuple(float(v) for v in o.text.split()))
                else:
                    d = dict(o.attrib)
                    d["t"] = t
                    cl["obs"].append(d)
            obs.append(cl)
    par = net.find(GNS + "parameters")
    return {"attrs": dict(net.attrib), "params": dict(par.attrib) if par is not None else {}, "points": pts, "clusters": obs}


def num(s):
    try:
        return gama.angle_or_float(s)
    except Exception:
        return None


def gkf_equivalent(a, b, ptol=2e-6):
    dd = []
    if a["attrs"].get("axes-xy", "ne") != b["attrs"].get("axes-xy", "ne") or a["attrs"].get("angles", "left-handed") != b["attrs"].get("angles", "left-handed"):
        dd.append("axes / angles attributes differ: %s vs %s" % (a["attrs"], b["attrs"]))
    for k in ("sigma-apr", "conf-pr", "tol-abs", "sigma-act"):
        u, v = a["params"].get(k), b["params"].get(k)
        if (u is None) != (v is None) or (u is not None and (num(u) is not None and abs(num(u) - num(v)) > 1e-9 * max(1, abs(num(u))) or (num(u) is None and u != v))):
            dd.append("parameter %s: %s vs %s" % (k, u, v))
    if set(a["points"]) != set(b["points"]):
        dd.append("point sets differ: %s vs %s" % (sorted(a["points"]), sorted(b["points"])))
    else:
        for pid, p in a["points"].items():
            q = b["points"][pid]
            if (p["fix"], p["adj"], p["has"]) != (q["fix"], q["adj"], q["has"]):
                dd.append("point %s status/coordinates: %s vs %s" % (pid, (p["fix"], p["adj"], p["has"]), (q["fix"], q["adj"], q["has"])))
            elif any(abs(u - v) > ptol for u, v in zip(p["xyz"], q["xyz"])):
                dd.append("point %s coordinates %s vs %s" % (pid, p["xyz"], q["xyz"]))
    if len(a["clusters"]) != len(b["clusters"]):
        dd.append("number of clusters %d vs %d" % (len(a["clusters"]), len(b["clusters"])))
        return dd
    for ca, cb in zip(a["clusters"], b["clusters"]):
        if (ca["kind"], ca["from"], len(ca["obs"])) != (cb["kind"], cb["from"], len(cb["obs"])):
            dd.append("cluster %s from %s with %d observations vs %s from %s with %d" % (ca["kind"], ca["from"], len(ca["obs"]), cb["kind"], cb["from"], len(cb["obs"])))
            continue
        for oa, ob in zip(ca["obs"], cb["obs"]):
            if set(oa) != set(ob):
                dd.append("attributes of %s differ: %s vs %s" % (oa["t"], sorted(oa), sorted(ob)))
                continue
            for k in oa:
                if oa[k] == ob[k]:
                    continue
                u, v = num(oa[k]), num(ob[k])
                if u is None or v is None or abs(u - v) > 1e-9 * max(1.0, abs(u)):
                    dd.append("%s attribute %s: %s vs %s" % (oa["t"], k, oa[k], ob[k]))
        if (ca["cov"] is None) != (cb["cov"] is None):
            dd.append("cov-mat present in one export only (%s)" % ca["kind"])
        elif ca["cov"] and (ca["cov"][:2] != cb["cov"][:2] or any(abs(u - v) > 1e-9 * max(1, abs(u)) for u, v in zip(ca["cov"][2], cb["cov"][2]))):
            dd.append("cov-mat of %s differs" % ca["kind"])
    return dd


def gen(rng):
    dim = rng.choice([2, 2, 3, 3, 1])
    datum = rng.choice(["fixed", "fixed", "free"])
    kinds = {1: ["dh"], 2: ["direction", "distance", "angle"], 3: ["direction", "distance", "angle", "s-distance", "z-angle", "dh"]}[dim]
    net, truth, meta = netgen.make_network(rng, dim=dim, n=rng.randint(4, 6), n_fixed={1: 1, 2: 2, 3: 2}[dim] + (1 if datum == "free" else 0), datum=datum,
                                           kinds=kinds, extra=0.9, perturb=rng.choice([0.02, 0.15]), with_heights=rng.random() < 0.7)
    ids = [p["id"] for p in net["points"]]
    if dim == 3 and rng.random() < 0.6:
        netgen.add_vectors_cluster(rng, net, truth, [tuple(rng.sample(ids, 2)) for _ in range(2)], cov_band=rng.choice([None, 2, 5]))
    if dim != 1 and rng.random() < 0.5:
        pts = rng.sample(ids, 2)
        netgen.add_coordinates_cluster(rng, net, truth, pts, dim=dim, cov_band=rng.choice([None, 1]))
        if dim == 3 and rng.random() < 0.5:
            # an xy-only point directly followed by a z-only point inside <coordinates>
            a, b = rng.sample(ids, 2)
            net["clusters"].append({"kind": "coordinates", "obs": [{"t": "point", "id": a, "x": truth[a][0], "y": truth[a][1]}, {"t": "point", "id": b, "z": truth[b][2] + 0.003}],
                                    "cov": {"dim": 3, "band": 0, "vals": [25.0, 25.0, 16.0]}})
    if dim != 1 and rng.random() < 0.4:
        netgen.add_azimuths(rng, net, truth, [tuple(rng.sample(ids, 2)) for _ in range(2)])
    if rng.random() < 0.5:
        enet.add_covariances(rng, net)
    for c in net["clusters"]:
        if c["kind"] == "height-differences" and not c.get("cov"):
            for ob in c["obs"]:
                if rng.random() < 0.5:
                    ob.pop("stdev", None)
                    ob["dist"] = round(rng.uniform(0.1, 3.0), 3)
    # instrument / target heights on observations they do not influence (angles: from_dh, bs_dh, fs_dh; directions, distances):
    # the export must still carry them
    for c in net["clusters"]:
        if c["kind"] == "obs":
            for ob in c["obs"]:
                if ob["t"] == "angle" and rng.random() < 0.5:
                    ob["bs_dh"] = rng.choice([1.3, 2.0])
                    ob["fs_dh"] = rng.choice([1.4, 1.75])
                    if rng.random() < 0.5:
                        ob["from_dh"] = 1.55
                elif ob["t"] in ("direction", "distance") and "from_dh" not in ob and rng.random() < 0.15:
                    ob["from_dh"] = 1.5
                    ob["to_dh"] = 1.8
    if dim != 1:
        conv = rng.choice(["ne-left", "ne-right", "ne-right", "sw-left", "en-left", "nw-left", "nw-left"])
        if conv != "ne-left":
            from checks import c07
            if conv == "ne-right":
                has_az = any(ob["t"] == "azimuth" for c in net["clusters"] for ob in c["obs"])
                if not has_az:
                    net, _ = c07.t_handed(rng, net)
            elif conv == "nw-left":
                net, _ = c07.t_mirror(rng, net)
            elif any(ob["t"] == "azimuth" for c in net["clusters"] for ob in c["obs"]):
                conv = "ne-left"      # azimuths refer to the north of the declared axes: keep them
            elif conv == "sw-left":
                net["attrs"]["axes-xy"] = "sw"
            elif conv == "en-left":
                # en is right-handed: mirror of ne by exchanging... keep it simple: declare es (left-handed naming) instead
                net["attrs"]["axes-xy"] = "es"
        meta["convention"] = conv
    if dim != 1 and rng.random() < 0.4:
        from checks import c07
        net, _ = c07.t_degrees(rng, net)
        meta["degrees"] = True
    if rng.random() < 0.4:
        # an observation to a point that has no coordinates and cannot be determined: removed by the revision
        for c in net["clusters"]:
            if c["kind"] == "obs" and not c.get("cov"):
                c["obs"].append({"t": "distance", "to": "LOST", "val": 123.456, "stdev": 5.0})
                net["points"].append({"id": "LOST", "adj": "xy" if dim == 2 else "xyz"})
                meta["removed"] = True
                break
    return net, truth, meta


def run(ctx):
    ctx.check_proofs()
    bdir = enet.binaries(ctx)
    n = 20 if ctx.quick else 150
    bad = 0
    for t in range(n):
        net, truth, meta = gen(ctx.rng)
        alg = ctx.rng.choice(enet.ALGS)
        txt = gama.render_gkf(net)
        cur = txt
        results, exports = [], []
        ok = True
        for rnd in range(3):
            exp = os.path.join(ctx.scratch, "c13_%d_%d.export.gkf" % (t, rnd))
            if os.path.exists(exp):
                os.remove(exp)
            outs, _ = enet.run_all(ctx, bdir, cur, "c13_%d_%d" % (t, rnd), algs=[alg], extra=["--export", exp])
            o = outs[alg]
            if o["err"]:
                ctx.violation({"kind": "E:export", "gkf": txt, "round": rnd, "error": o["err"]}, "gama-local failed in export round %d: %s" % (rnd, o["err"][:200])); bad += 1
                ok = False
                break
            if not enet.adjusted_ok(o):
                if rnd == 0:
                    ctx.skipped("skipped_not_adjusted", {"gkf": txt})
                else:
                    ctx.violation({"kind": "E:export", "gkf": txt, "exported": cur, "round": rnd, "output": (o["run"].out + o["run"].err)[-500:]},
                                  "the exported file of an adjustable network is not adjusted (round %d)" % rnd); bad += 1
                ok = False
                break
            if not os.path.exists(exp):
                ctx.violation({"kind": "E:export", "gkf": txt, "round": rnd}, "no export file written"); bad += 1
                ok = False
                break
            results.append(o["res"])
            cur = open(exp, encoding="utf-8", errors="replace").read()
            exports.append(cur)
        ctx.count(("c13", txt), nontrivial=True)
        ctx.hist("dim", meta["dim"]); ctx.hist("convention", meta.get("convention", "ne-left")); ctx.hist("degrees", bool(meta.get("degrees")))
        if not ok:
            if bad >= 4:
                break
            continue
        if t == 0:
            ctx.sample({"network": enet.summarize(net), "export_head": exports[0][:600]})
        dd = []
        known = []      # differences explained by the recorded finding (observed coordinates reset the approximate ones at parse time)
        has_coords = any(c["kind"] == "coordinates" for c in net["clusters"])
        has_dh = any(("from_dh" in ob or "to_dh" in ob) for c in net["clusters"] for ob in c["obs"])
        # gama's own reduction loop for instrument/target heights stops at 0.1 cc / 0.001 mm: statistics agree to ~1e-3 only
        rt, ct, cvt = (5e-3, 5e-5, 5e-3) if has_dh else (2e-4, 3e-6, 5e-4)
        if has_coords:
            rt, ct, cvt = 2e-2, 2e-3, 2e-2
        for rnd in (1, 2):
            d1 = enet.compare_results(results[0], results[rnd], ctol=ct, rtol=rt, check_cov=True, check_obs=not (has_dh or has_coords), covtol=cvt)
            dd += ["round %d: %s" % (rnd, x) for x in d1[:4]]
            if (results[rnd]["iterations"] or 0) > 0:
                (known if has_coords else dd).append("round %d: re-adjusting the export needed %d linearisation iteration(s)" % (rnd, results[rnd]["iterations"]))
        try:
            g = [parse_gkf(e) for e in exports]
            for rnd in (1, 2):
                for x in gkf_equivalent(g[0], g[rnd], 2e-6 if not has_dh else 5e-5)[:4]:
                    (known if (has_coords and x.startswith("point ") and "coordinates" in x) else dd).append("export %d vs export 1: %s" % (rnd + 1, x))
            # the export describes the same survey as the input: points, status, clusters
            g_in = parse_gkf(txt)
            for pid, p in g_in["points"].items():
                if pid not in g[0]["points"]:
                    if pid != "LOST":      # a point without coordinates that the revision removed is not part of the adjusted survey
                        dd.append("point %s of the input is missing in the export" % pid)
                elif (p["fix"], p["adj"].lower()) != (g[0]["points"][pid]["fix"], g[0]["points"][pid]["adj"].lower()) or p["adj"].isupper() != g[0]["points"][pid]["adj"].isupper():
                    dd.append("point %s status changed by the export: fix=%s adj=%s -> fix=%s adj=%s" % (pid, p["fix"], p["adj"], g[0]["points"][pid]["fix"], g[0]["points"][pid]["adj"]))
            nin = sum(len(c["obs"]) for c in g_in["clusters"])
            nex = sum(len(c["obs"]) for c in g[0]["clusters"])
            if nin != nex and not meta.get("removed"):
                dd.append("the input has %d observation elements, the export %d" % (nin, nex))
            for ca, cb in zip(g_in["clusters"], g[0]["clusters"]):
                for oa, ob in zip(ca["obs"], cb["obs"]):
                    for k in ("from_dh", "to_dh", "bs_dh", "fs_dh", "dist", "extern"):
                        if (k in oa) != (k in ob) and not (k in oa and num(oa[k]) == 0):
                            dd.append("attribute %s of a %s observation is %s by the export" % (k, oa["t"], "dropped" if k in oa else "invented"))
        except ET.ParseError as e:
            dd.append("export is not well-formed XML: %s" % e)
        if dd:
            bad += 1
            ctx.violation({"kind": "E:export", "gkf": txt, "export1": exports[0], "algorithm": alg, "differences": dd[:10]}, "export is not a faithful fixed point (%s): %s" % (alg, dd[0]))
        elif known:
            ctx.violation({"kind": "E:export", "gkf": txt, "export1": exports[0], "algorithm": alg, "differences": known[:10]},
                          "export with <coordinates> clusters is not a fixed point: %s" % known[0], key="C13:observed-coordinates-reset-approximate")
        if bad >= 4:
            break
    ctx.obligation(bad == 0, "E:export-fixed-point")
    return ctx.finish(rule="generated networks with every cluster type and attribute, 5 axes/angle conventions, degrees, removed observations; three export / re-adjust rounds "
                           "each; one random algorithm per network; every network is a non-trivial case; distinct by content")
