"""C19 -- gama-g3 reproduces consistent global networks, independent of algorithm.

proof:  coq/Properties_C19.v: the local north-east-up frame is an orthonormal rotation (R'R = I) for every latitude and
        longitude, covariance congruence keeps symmetry / PSD, consistent observations need no correction (LsqSpec), the
        redundancy formula
E:      generated ECEF networks anywhere on the ellipsoid (fixed / free / constrained n-e-u, vectors with full 3x3
        covariances, observed xyz, distances): adjusted = generating coordinates, four algorithms agree, record order is
        irrelevant, parameters / equations / defect / redundancy as predicted, and the --project-equations dump re-adjusted
        by the general adjustment class (harness/adj.cpp) gives the same corrections and sum of squares
"""
import math, os, re, subprocess, xml.etree.ElementTree as ET
import vlib
from checks import enet, solver

A_WGS, F_WGS = 6378137.0, 1 / 298.257223563
E2 = F_WGS * (2 - F_WGS)
GNS = "{http://www.gnu.org/software/gama/gnu-gama-data}"
ALGS = ["envelope", "gso", "svd", "cholesky"]


def blh2xyz(b, l, h):
    n = A_WGS / math.sqrt(1 - E2 * math.sin(b) ** 2)
    return ((n + h) * math.cos(b) * math.cos(l), (n + h) * math.cos(b) * math.sin(l), (n * (1 - E2) + h) * math.sin(b))


def gen(rng):
    b0, l0 = math.radians(rng.uniform(-85, 85)), math.radians(rng.uniform(-180, 180))
    n = rng.randint(4, 7)
    pts = {}
    blh = {}
    for i in range(n):
        b = b0 + rng.uniform(-0.003, 0.003)
        l = l0 + rng.uniform(-0.003, 0.003) / max(0.1, math.cos(b0))
        h = rng.uniform(0, 2500)
        pts["G%d" % (i + 1)] = blh2xyz(b, l, h)
        blh["G%d" % (i + 1)] = (b, l, h)
    ids = list(pts)
    datum = rng.choice(["fixed", "fixed", "constr"])
    nfix = rng.randint(1, 2)
    status = {}
    for i, pid in enumerate(ids):
        status[pid] = ("fixed" if datum == "fixed" else "constr") if i < nfix else "free"
    given = {pid: (status[pid] != "free" or rng.random() < 0.6) for pid in ids}
    perturb = {pid: (0.0 if status[pid] == "fixed" else rng.choice([0.0, 0.02, 0.2])) for pid in ids}
    obs = []
    for i in range(1, n):
        prev = list(range(i)); rng.shuffle(prev)
        for j in prev[:2]:
            a, b_ = (ids[j], ids[i]) if rng.random() < 0.6 else (ids[i], ids[j])
            obs.append(("vector", a, b_))
    for _ in range(rng.randint(0, 3)):
        a, b_ = rng.sample(ids, 2)
        obs.append(("distance", a, b_))
    for _ in range(rng.randint(0, 2)):
        obs.append(("xyz", rng.choice(ids), None))
    # terrestrial observations: zenith angles, horizontal angles, heights and height differences (these need
    # the point's <geoid> undulation); antenna / instrument / target heights on a part of the observations
    geoid = {pid: rng.choice([0.0, round(rng.uniform(-50, 50), 3)]) for pid in ids}
    # a free network with terrestrial observations has no defect that could be predicted (verticals move with the
    # network), so those are generated only where the datum is unambiguous
    terrestrial = rng.random() < 0.6 and (datum == "fixed" or any(o[0] == "xyz" for o in obs))
    if terrestrial:
        for _ in range(rng.randint(0, 3)):
            a, b_ = rng.sample(ids, 2)
            obs.append(("zenith", a, b_))
        for _ in range(rng.randint(0, 3)):
            a, l_, r_ = rng.sample(ids, 3)
            obs.append(("angle", a, (l_, r_)))
        for _ in range(rng.randint(0, 2)):
            obs.append(("height", rng.choice(ids), None))
        for _ in range(rng.randint(0, 2)):
            a, b_ = rng.sample(ids, 2)
            obs.append(("hdiff", a, b_))
    dh = [tuple(rng.choice([0.0, 0.0, round(rng.uniform(0.5, 2.5), 3)]) for _ in range(3)) for _ in obs]
    return {"pts": pts, "blh": blh, "status": status, "given": given, "perturb": perturb, "obs": obs, "datum": datum, "geoid": geoid, "dh": dh,
            "terrestrial": terrestrial}


def normal(net, pid):
    b, l, h = net["blh"][pid]
    return (math.cos(b) * math.cos(l), math.cos(b) * math.sin(l), math.sin(b))


def station(net, pid, dh):
    u = normal(net, pid)
    return tuple(net["pts"][pid][i] + dh * u[i] for i in range(3))


def neu(net, pid, d):
    b, l, h = net["blh"][pid]
    n = -math.sin(b) * math.cos(l) * d[0] - math.sin(b) * math.sin(l) * d[1] + math.cos(b) * d[2]
    e = -math.sin(l) * d[0] + math.cos(l) * d[1]
    u = math.cos(b) * math.cos(l) * d[0] + math.cos(b) * math.sin(l) * d[1] + math.sin(b) * d[2]
    return n, e, u


def dh_tags(d, names=("from-dh", "to-dh")):
    return "".join(" <%s>%r</%s>" % (t, v, t) for t, v in zip(names, d) if v)


def cov3(rng):
    B = [[rng.uniform(0.5, 2.0) if i == j else (rng.uniform(-0.5, 0.5) if j < i else 0.0) for j in range(3)] for i in range(3)]
    C = [[sum(B[i][k] * B[j][k] for k in range(3)) for j in range(3)] for i in range(3)]
    return [C[0][0], C[0][1], C[0][2], C[1][1], C[1][2], C[2][2]]


def render(net, rng, order=None, covs=None):
    o = ['<?xml version="1.0" ?>\n<gnu-gama-data xmlns="http://www.gnu.org/software/gama/gnu-gama-data">\n<g3-model>\n<constants>\n'
         '<apriori-standard-deviation>10</apriori-standard-deviation>\n<confidence-level>0.95</confidence-level>\n<angular-units-gons/>\n'
         '<ellipsoid><id>wgs84</id></ellipsoid>\n</constants>\n']
    pts = net["pts"]
    ids = list(pts)
    if order:
        ids = [ids[i] for i in order["points"]]
    for pid in ids:
        st = net["status"][pid]
        o.append("<%s> <n/> <e/> <u/> </%s>\n" % ({"fixed": "fixed", "free": "free", "constr": "constr"}[st], {"fixed": "fixed", "free": "free", "constr": "constr"}[st]))
        gd = " <geoid>%r</geoid>" % net["geoid"][pid] if net["terrestrial"] else ""
        if net["given"][pid]:
            d = net["perturb"][pid]
            x, y, z = pts[pid]
            o.append("<point> <id>%s</id> <x>%r</x> <y>%r</y> <z>%r</z>%s </point>\n" % (pid, x + d * 0.6, y - d * 0.5, z + d * 0.7, gd))
        else:
            o.append("<point> <id>%s</id>%s </point>\n" % (pid, gd))
    ob = list(enumerate(net["obs"]))
    if order:
        ob = [ob[i] for i in order["obs"]]
    for k, (t, a, b_) in ob:
        cv = covs[k]
        dh = net["dh"][k]
        if t == "vector":
            pa, pb = station(net, a, dh[0]), station(net, b_, dh[1])
            o.append("<obs>\n<vector> <from>%s</from> <to>%s</to> <dx>%r</dx> <dy>%r</dy> <dz>%r</dz>%s </vector>\n" % (a, b_, pb[0] - pa[0], pb[1] - pa[1], pb[2] - pa[2], dh_tags(dh)))
            o.append("<cov-mat> <dim>3</dim> <band>2</band> %s </cov-mat>\n</obs>\n" % " ".join("<flt>%r</flt>" % v for v in cv))
        elif t == "distance":
            pa, pb = station(net, a, dh[0]), station(net, b_, dh[1])
            o.append("<obs>\n<distance> <from>%s</from> <to>%s</to> <val>%r</val>%s </distance>\n<cov-mat> <dim>1</dim> <band>0</band> <flt>%r</flt> </cov-mat>\n</obs>\n" % (
                a, b_, math.sqrt(sum((pb[i] - pa[i]) ** 2 for i in range(3))), dh_tags(dh), cv[0]))
        elif t == "zenith":
            pa, pb = station(net, a, dh[0]), station(net, b_, dh[1])
            n_, e_, u_ = neu(net, a, [pb[i] - pa[i] for i in range(3)])
            za = math.atan2(math.hypot(n_, e_), u_)
            o.append("<obs>\n<zenith> <from>%s</from> <to>%s</to> <val>%r</val> <stdev>%r</stdev>%s </zenith>\n</obs>\n" % (a, b_, za * 200 / math.pi, cv[0] / 10, dh_tags(dh)))
        elif t == "angle":
            pa, pl, pr = station(net, a, dh[0]), station(net, b_[0], dh[1]), station(net, b_[1], dh[2])
            nl, el, _ = neu(net, a, [pl[i] - pa[i] for i in range(3)])
            nr, er, _ = neu(net, a, [pr[i] - pa[i] for i in range(3)])
            an = (math.atan2(er, nr) - math.atan2(el, nl)) % (2 * math.pi)
            o.append("<obs>\n<angle> <from>%s</from> <left>%s</left> <right>%s</right> <val>%r</val> <stdev>%r</stdev>%s </angle>\n</obs>\n" % (
                a, b_[0], b_[1], an * 200 / math.pi, cv[0] / 10, dh_tags(dh, ("from-dh", "left-dh", "right-dh"))))
        elif t == "height":
            o.append("<obs>\n<height> <id>%s</id> <val>%r</val> <stdev>%r</stdev> </height>\n</obs>\n" % (a, net["blh"][a][2] - net["geoid"][a], cv[0] / 5))
        elif t == "hdiff":
            o.append("<obs>\n<hdiff> <from>%s</from> <to>%s</to> <val>%r</val> <stdev>%r</stdev> </hdiff>\n</obs>\n" % (
                a, b_, (net["blh"][b_][2] - net["geoid"][b_]) - (net["blh"][a][2] - net["geoid"][a]), cv[0] / 5))
        else:
            x, y, z = pts[a]
            o.append("<obs>\n<xyz><id>%s</id> <x>%r</x> <y>%r</y> <z>%r</z></xyz>\n<cov-mat> <dim>3</dim> <band>2</band> %s </cov-mat>\n</obs>\n" % (
                a, x, y, z, " ".join("<flt>%r</flt>" % v for v in cv)))
    o.append("</g3-model>\n</gnu-gama-data>\n")
    return "".join(o)


def run_g3(bdir, text, workdir, name, alg, pe=False):
    inp = os.path.join(workdir, name + ".xml")
    out = os.path.join(workdir, name + "." + alg + ".out.xml")
    open(inp, "w").write(text)
    cmd = [os.path.join(bdir, "gama-g3"), "--algorithm", alg]
    pef = None
    if pe:
        pef = os.path.join(workdir, name + "." + alg + ".pe.xml")
        cmd += ["--project-equations", pef]
    cmd += [inp, out]
    if os.path.exists(out):
        os.remove(out)
    try:
        p = subprocess.run(cmd, capture_output=True, timeout=120)
        rc, so, se = p.returncode, p.stdout.decode(errors="replace"), p.stderr.decode(errors="replace")
    except subprocess.TimeoutExpired:
        rc, so, se = 124, "", "timeout"
    res = None
    if os.path.exists(out) and os.path.getsize(out) > 0:
        try:
            res = parse_g3(out)
        except Exception as e:
            se += "\nunparseable output: %s" % e
    return {"rc": rc, "out": so, "err": se, "res": res, "pe": pef}


def ftxt(e, tag):
    x = e.find(GNS + tag)
    return x.text.strip() if x is not None and x.text else None


def parse_g3(path):
    root = ET.parse(path).getroot()
    r = root.find(GNS + "g3-adjustment-results")
    st = r.find(GNS + "adjustment-statistics")
    res = {k: int(ftxt(st, k)) for k in ("parameters", "equations", "defect", "redundancy")}
    res["ssq"] = float(ftxt(st, "sum-of-squares"))
    res["points"] = {}
    ar = r.find(GNS + "adjustment-results")
    for p in ar.findall(GNS + "point"):
        pid = ftxt(p, "id")
        q = {}
        for c in "xyz":
            v = ftxt(p, c + "-adjusted") or ftxt(p, c + "-given")
            q[c] = float(v) if v is not None else None
        for c in ("dn", "de", "du"):
            v = ftxt(p, c)
            if v is not None:
                q[c] = float(v)
        res["points"][pid] = q
    return res


def parse_pe(path):
    root = ET.parse(path).getroot()
    a = root.find(GNS + "adj-input-data")
    sm = a.find(GNS + "sparse-mat")
    m, n = int(ftxt(sm, "rows")), int(ftxt(sm, "cols"))
    A = [[0.0] * n for _ in range(m)]
    for i, row in enumerate(sm.findall(GNS + "row")):
        ints = [int(x.text) for x in row.findall(GNS + "int")]
        flts = [float(x.text) for x in row.findall(GNS + "flt")]
        for j, v in zip(ints, flts):
            A[i][j - 1] += v
    bd = a.find(GNS + "block-diagonal")
    blocks = []
    for b in bd.findall(GNS + "block"):
        blocks.append((int(ftxt(b, "dim")), int(ftxt(b, "width")), [float(x.text) for x in b.findall(GNS + "flt")]))
    vec = [float(x.text) for x in a.find(GNS + "vector").findall(GNS + "flt")]
    arr = a.find(GNS + "array")
    minx = [int(x.text) for x in arr.findall(GNS + "int")] if arr is not None else None
    return {"m": m, "n": n, "A": A, "b": vec, "blocks": blocks, "S": [i - 1 for i in minx] if minx is not None else list(range(n)), "mk": len(minx) if minx is not None else -1}


def hx(h):
    """C99 hex double -> Coq float literal"""
    return "(-%s)" % h[1:] if h.startswith("-") else h


def run_g3lin(exe, text, workdir, name):
    inp = os.path.join(workdir, name + ".xml")
    open(inp, "w").write(text)
    rc, out, err = vlib.sh([exe, inp], timeout=120)
    d = {"points": {}, "obs": [], "rows": {}, "rejected": None, "exc": None, "rc": rc}
    for line in out.split("\n"):
        w = line.split()
        if not w:
            continue
        if w[0] == "POINT":
            d["points"][w[1]] = {"hex": w[2:8] + [w[11]], "idx": [int(x) for x in w[8:11]], "free": [c == "1" for c in w[12]],
                                 "xyz": [float.fromhex(x) for x in w[2:5]], "bl": [float.fromhex(x) for x in w[5:7]]}
        elif w[0] == "OBS":
            d["obs"].append(w[1:])
        elif w[0] == "ROW":
            n = int(w[3])
            d["rows"][int(w[1])] = (w[2], [(int(w[4 + 2 * k]), w[5 + 2 * k]) for k in range(n)])
        elif w[0] == "REJECTED":
            d["rejected"] = int(w[1])
        elif w[0] == "exc":
            d["exc"] = line
    return d


def coq_point(p):
    h = p["hex"]
    return "(mkpt %s %d %d %d %s %s %s)" % (" ".join(hx(x) for x in h), p["idx"][0], p["idx"][1], p["idx"][2],
                                            *["true" if f else "false" for f in p["free"]])


NPTS = {"vector": 2, "xyz": 1, "distance": 2, "zenith": 2, "height": 1, "hdiff": 2, "angle": 3}
CTOR = {"vector": "OVector", "xyz": "OXYZ", "distance": "ODistance", "zenith": "OZenith", "height": "OHeight", "hdiff": "OHdiff", "angle": "OAngle"}


def coq_cases(d):
    """one Coq term (gobs, implementation rows) per active observation of a g3lin dump"""
    out = []
    for ob in d["obs"]:
        kind = ob[0]
        if kind not in NPTS:
            continue
        k = NPTS[kind]
        pts = [d["points"].get(i) for i in ob[1:1 + k]]
        if any(p is None for p in pts):
            continue
        vals = ob[1 + k:-1]
        row = int(ob[-1])
        dim = 3 if kind in ("vector", "xyz") else 1
        rows = "[" + "; ".join("(%s, [%s])" % (hx(d["rows"][r][0]), "; ".join("(%d%%nat, %s)" % (i, hx(c)) for i, c in d["rows"][r][1]))
                               for r in range(row, row + dim)) + "]"
        out.append((kind, ob, "(%s %s %s, %s)" % (CTOR[kind], " ".join(coq_point(p) for p in pts), " ".join(hx(v) for v in vals), rows)))
    return out


def linearisation_defects(net, d):
    """the implementation against itself: for consistent observations the absolute term at the approximate
    coordinates is, to first order, the row of the design matrix applied to (true - approximate) position"""
    dx = {}
    delta = 0.0
    for pid, p in d["points"].items():
        diff = [net["pts"][pid][i] - p["xyz"][i] for i in range(3)]
        delta = max(delta, math.sqrt(sum(v * v for v in diff)))
        n_, e_, u_ = neu(net, pid, diff)
        for i, v in zip(p["idx"], (n_, e_, u_)):
            if i:
                dx[i] = 1000 * v
    bad = []
    for ob in d["obs"]:
        kind = ob[0]
        if kind not in NPTS:
            continue
        k = NPTS[kind]
        ids = ob[1:1 + k]
        row = int(ob[-1])
        dim = 3 if kind in ("vector", "xyz") else 1
        leg = min([math.dist(net["pts"][ids[0]], net["pts"][j]) for j in ids[1:]] or [1.0])
        if kind in ("zenith", "angle"):
            # (1e-2 cc: acos / atan2 of nearly parallel or opposite directions resolves the angle to ~1e-8 rad only)
            tol = 1e-2 + 40 * 636620 * (delta / leg) ** 2 + 636620 * delta * 3 / 6.3e6
        elif kind == "distance":
            # the unit vector of the coefficients joins the marks, the absolute term the instruments (dh / leg)
            tol = 1e-4 + 40 * 1000 * delta ** 2 / leg + 1000 * delta * 6 / leg
        else:
            tol = 1e-4 + 1000 * delta * delta / 6.3e6 * 10
        for r in range(row, row + dim):
            b = float.fromhex(d["rows"][r][0])
            pred = sum(float.fromhex(c) * dx.get(i, 0.0) for i, c in d["rows"][r][1])
            if abs(b - pred) > tol:
                bad.append("%s %s: absolute term %.5f but row * (true - approximate) = %.5f (tolerance %.1e)" % (kind, " ".join(ids), b, pred, tol))
    return bad


def envelope_pivots(exe, pe):
    script = solver.problem_script(pe) + ["new base envelope", "envdiag"]
    rc, out, err = vlib.sh([exe], inp="\n".join(script) + "\n")
    last = out.strip().split("\n")[-1].split()
    return [float.fromhex(v) for v in last[1:]] if last and last[0] == "ok" else []


def run(ctx):
    ctx.assumptions += [
        "gama-g3 linearises once: agreement with the generating coordinates is required up to the second-order term of the approximate coordinates' error (d^2 / leg, computed per network)",
        'deflections of the vertical are zero in the model; azimuth observations are refused by the g3 parser and are outside the model',
        'G3Run.v is a hand transliteration of Model::linearization (post-repair); G3Proofs.v states the same formulas over R',
    ]
    ctx.check_proofs(extra_files=["G3Run"])
    bdir = enet.binaries(ctx)
    exe = solver.build_harness(ctx, sanitize=False)
    linexe = vlib.compile_harness("harness/g3lin.cpp", link_gama=True)
    kcases = []
    rng = ctx.rng
    n = 25 if ctx.quick else 400
    bad = 0
    for t in range(n):
        net = gen(rng)
        covs = [cov3(rng) if o[0] in ("vector", "xyz") else [rng.choice([25.0, 100.0, 225.0])] for o in net["obs"]]
        txt = render(net, rng, covs=covs)
        ctx.count(("c19", txt), nontrivial=True)
        ctx.hist("datum", net["datum"]); ctx.hist("observations", len(net["obs"]))
        runs = {a: run_g3(bdir, txt, ctx.scratch, "c19_%d" % t, a, pe=(a == "envelope")) for a in ALGS}
        if t == 0:
            ctx.sample({"points": len(net["pts"]), "datum": net["datum"], "observations": [o[0] for o in net["obs"]], "input_head": txt[:500]})
        # K: the rows of the design matrix against the Gallina transliteration; the implementation against itself
        lin = run_g3lin(linexe, txt, ctx.scratch, "c19lin_%d" % t)
        if lin["exc"] is None and lin["rc"] == 0:
            selfbad = linearisation_defects(net, lin)
            if selfbad:
                ctx.violation({"kind": "E:g3-linearisation", "input": txt, "differences": selfbad[:10]},
                              "gama-g3 linearisation is not the derivative of its own absolute term: %s" % selfbad[0]); bad += 1
                continue
            for kind, ob, term in coq_cases(lin):
                kcases.append((kind, ob, term, txt, net))
                ctx.hist("K_observation_kind", kind)
        elif lin["rc"] != 0:
            ctx.violation({"kind": "K:g3-linearisation", "input": txt, "rc": lin["rc"]}, "the linearisation harness crashed (rc %d)" % lin["rc"]); bad += 1
            continue
        fail = [a for a in ALGS if runs[a]["res"] is None]
        if fail:
            if len(fail) == len(ALGS):
                ctx.skipped("skipped_not_adjusted", {"input": txt})      # e.g. points without coordinates that the initialisation cannot reach
                if any(runs[a]["rc"] < 0 or runs[a]["rc"] == 124 for a in ALGS):
                    ctx.violation({"kind": "E:g3", "input": txt, "rc": {a: runs[a]["rc"] for a in ALGS}, "stderr": runs[fail[0]]["err"][-500:]}, "gama-g3 crashed / hung"); bad += 1
                continue
            ctx.violation({"kind": "E:g3", "input": txt, "failed": fail, "messages": {a: (runs[a]["out"] + runs[a]["err"])[-300:] for a in fail}}, "only some algorithms adjust the g3 network: %s fail" % fail); bad += 1
            continue
        dd = []
        algs = list(ALGS)
        exp_def = None
        if net["datum"] == "constr":
            exp_def = 0 if any(o[0] == "xyz" for o in net["obs"]) else 3
        env = runs["envelope"]["res"]
        if exp_def and env["defect"] < exp_def and all(runs[a]["res"]["defect"] == exp_def for a in ALGS[1:]):
            # known finding: the envelope solver (no pivoting, absolute tolerance) meets a tiny genuine pivot
            # followed by a polluted zero pivot and under-counts the defect; established from its own pivots
            piv = envelope_pivots(exe, parse_pe(runs["envelope"]["pe"]))
            nz = sorted(abs(v) for v in piv if v != 0)
            if nz and nz[0] < 1e-4 * nz[len(nz) // 2]:
                counted = ctx.violation({"kind": "E:g3", "input": txt, "envelope_pivots": piv, "defects": {a: runs[a]["res"]["defect"] for a in ALGS}},
                                        "gama-g3 --algorithm envelope reports defect %d for a free network of defect %d (pivots %.1e after %.1e)" % (env["defect"], exp_def, nz[0], nz[len(nz) // 2]),
                                        key="C19:envelope-undercounts-defect-after-tiny-pivot")
                if counted:
                    bad += 1
                    continue
                ctx.hist("known_finding_envelope_tiny_pivot", 1)
                algs = list(ALGS[1:])
        ref = runs[algs[0]]["res"]
        # statistics as predicted
        nfree = sum(3 for pid, s in net["status"].items() if s != "fixed")
        neq = sum(3 if o[0] in ("vector", "xyz") else 1 for o in net["obs"])
        if ref["parameters"] != nfree:
            dd.append("parameters %d, expected %d" % (ref["parameters"], nfree))
        if ref["equations"] != neq:
            dd.append("equations %d, expected %d (consistent observations must all take part)" % (ref["equations"], neq))
        if exp_def is not None:
            if ref["defect"] != exp_def:
                dd.append("defect %d, expected %d" % (ref["defect"], exp_def))
        if ref["redundancy"] != ref["equations"] - ref["parameters"] + ref["defect"]:
            dd.append("redundancy %d != equations - parameters + defect" % ref["redundancy"])
        # gama-g3 linearises once: the approximate coordinates' error d enters distances, zenith and horizontal angles
        # with d^2 / (length of the leg)
        legs = []
        for (t_, a_, b_) in net["obs"]:
            if t_ in ("distance", "zenith"):
                legs.append(math.dist(net["pts"][a_], net["pts"][b_]))
            elif t_ == "angle":
                legs += [math.dist(net["pts"][a_], net["pts"][b_[0]]), math.dist(net["pts"][a_], net["pts"][b_[1]])]
        delta = max(net["perturb"].values())
        if not all(net["given"].values()) and any(any(d) for d in net["dh"]):
            delta = max(delta, 0.03)
        nonlin = (delta ** 2 / min(legs)) if legs else 0.0
        ctol = 5e-5 + 10 * nonlin
        ctx.hist("nonlinearity_allowance_m", "%.0e" % (10 * nonlin))
        # the vertical of a displaced station turns by d / R: a first-order term the coefficients of zenith and horizontal angles
        # do not carry (the same allowance as in linearisation_defects), weighted by sigma0 = 10 and the stdev of the angle [cc]
        curv = sum((10 * 636620 * 1.5 * delta / 6.3e6 / (covs[k][0] / 10)) ** 2 for k, (t_, a_, b_) in enumerate(net["obs"]) if t_ in ("zenith", "angle"))
        ctx.hist("ssq_allowance_vertical_turn", "%.0e" % curv)
        if ref["ssq"] > 1e-3 + len(net["obs"]) * (1e4 * nonlin) ** 2 + curv:
            dd.append("sum of squares %.3e for consistent observations" % ref["ssq"])
        unconstrained_translation = net["datum"] == "constr" and not any(o[0] == "xyz" for o in net["obs"])
        for pid, p in net["pts"].items():
            q = ref["points"].get(pid)
            if q is None:
                dd.append("point %s missing in the results" % pid); continue
            if unconstrained_translation and net["perturb"][pid] > 0:
                continue
            for i, c in enumerate("xyz"):
                if q[c] is not None and abs(q[c] - p[i]) > ctol and not unconstrained_translation:
                    dd.append("point %s %s adjusted %.5f, generating value %.5f" % (pid, c, q[c], p[i]))
        for a in algs[1:]:
            r2 = runs[a]["res"]
            for k in ("parameters", "equations", "defect", "redundancy"):
                if r2[k] != ref[k]:
                    dd.append("%s: %s %d vs %s %d" % (a, k, r2[k], algs[0], ref[k]))
            for pid, q in ref["points"].items():
                for c in "xyz":
                    v2 = r2["points"].get(pid, {}).get(c)
                    if q[c] is not None and (v2 is None or abs(v2 - q[c]) > 2e-5):
                        dd.append("%s: point %s %s %.6f vs %s %.6f" % (a, pid, c, v2 if v2 is not None else float("nan"), algs[0], q[c]))
        # record order
        order = {"points": list(range(len(net["pts"]))), "obs": list(range(len(net["obs"])))}
        rng.shuffle(order["obs"])
        # points: keep status groups but shuffle within (a <fixed>/<free> marker precedes every point anyway)
        rng.shuffle(order["points"])
        txt2 = render(net, rng, order=order, covs=covs)
        r3 = run_g3(bdir, txt2, ctx.scratch, "c19s_%d" % t, algs[0])
        if algs[0] == "envelope" and r3["res"] is not None and r3["res"]["defect"] < ref["defect"]:
            # the recorded envelope finding can also be met in the reordered file only (another elimination order): recognised by
            # the tiny pivot of ITS factorisation and by gso agreeing with the reference on the same file
            r3e = run_g3(bdir, txt2, ctx.scratch, "c19sp_%d" % t, "envelope", pe=True)
            r3g = run_g3(bdir, txt2, ctx.scratch, "c19sg_%d" % t, "gso")
            try:
                piv = envelope_pivots(exe, parse_pe(r3e["pe"]))
            except Exception:
                piv = []
            nz = sorted(abs(v_) for v_ in piv if v_ != 0)
            if r3g["res"] is not None and r3g["res"]["defect"] == ref["defect"] and nz and nz[0] < 1e-4 * nz[len(nz) // 2]:
                if not ctx.violation({"kind": "E:g3", "input": txt2, "envelope_pivots": piv, "defect_envelope": r3["res"]["defect"], "defect_gso": r3g["res"]["defect"]},
                                     "envelope reports defect %d on the reordered records, gso %d" % (r3["res"]["defect"], r3g["res"]["defect"]),
                                     key="C19:envelope-undercounts-defect-after-tiny-pivot"):
                    r3 = r3g
        if r3["res"] is None:
            dd.append("the same records in another order are not adjusted: %s" % (r3["out"] + r3["err"])[-200:])
        else:
            # a constrained point without given coordinates takes its datum from approximate coordinates that are derived along a
            # path which depends on the order of the records: then only the shape is comparable (common translation removed)
            floating_datum = net["datum"] == "constr" and any(net["status"][pid] == "constr" and (not net["given"][pid] or net["perturb"][pid] > 0) or
                                                              not net["given"][pid] for pid in net["pts"])
            shift = {c: 0.0 for c in "xyz"}
            if floating_datum:
                for c in "xyz":
                    ds = [r3["res"]["points"][pid][c] - q[c] for pid, q in ref["points"].items()
                          if q[c] is not None and r3["res"]["points"].get(pid, {}).get(c) is not None]
                    shift[c] = sum(ds) / len(ds) if ds else 0.0
            for pid, q in ref["points"].items():
                for c in "xyz":
                    v2 = r3["res"]["points"].get(pid, {}).get(c)
                    if q[c] is not None and (v2 is None or abs(v2 - shift[c] - q[c]) > ctol + (2e-4 if floating_datum else 0)):
                        dd.append("record order changes point %s %s: %.6f vs %.6f" % (pid, c, v2 if v2 is not None else float("nan"), q[c]))
        # project equations dump re-adjusted by the general adjustment class
        try:
            pe = parse_pe(runs["envelope"]["pe"])
            res = solver.run_problems(exe, [pe], [("adj", a) for a in algs], [([], [])])[0]
            # the recorded envelope finding also shows when the dump (printed with 16 digits) is re-adjusted: judged by its own pivots
            defs = {r_["alg"]: r_["raw"]["defect"][1][0] for r_ in res if "raw" in r_ and r_["raw"]["defect"][0] == "ok"}
            if "envelope" in defs and len(set(defs.values())) > 1 and len(set(v_ for k_, v_ in defs.items() if k_ != "envelope")) == 1 \
                    and int(defs["envelope"]) < int(defs[[k_ for k_ in defs if k_ != "envelope"][0]]):
                piv = envelope_pivots(exe, pe)
                nz = sorted(abs(v_) for v_ in piv if v_ != 0)
                if nz and nz[0] < 1e-4 * nz[len(nz) // 2]:
                    if not ctx.violation({"kind": "E:g3", "input": txt, "envelope_pivots": piv, "defects": defs},
                                         "Adj/envelope on the project-equation dump reports defect %s, the other algorithms %s" % (defs["envelope"], defs),
                                         key="C19:envelope-undercounts-defect-after-tiny-pivot"):
                        res = [r_ for r_ in res if r_["alg"] != "envelope"]
            xs = []
            for r_ in res:
                if "raw" in r_ and r_["raw"]["x"][0] == "ok":
                    xs.append([solver.fl(v) for v in r_["raw"]["x"][1]])
                else:
                    dd.append("the project-equations dump is not adjusted by Adj/%s: %s" % (r_["alg"], r_.get("crash") or r_["raw"]["x"][1]))
            # corrections dn,de,du (mm) in index order: the dump's unknowns; consistent data => all ~0 and equal among algorithms
            for x in xs[1:]:
                if len(x) != len(xs[0]) or max(abs(u - v) for u, v in zip(x, xs[0])) > 1e-5:
                    dd.append("Adj re-adjustment of the dump differs between algorithms")
            if xs and len(xs[0]) != ref["parameters"]:
                dd.append("the dump has %d unknowns, the adjustment %d parameters" % (len(xs[0]), ref["parameters"]))
        except Exception as e:
            dd.append("project-equations dump unusable: %s" % e)
        if dd:
            bad += 1
            ctx.violation({"kind": "E:g3", "input": txt, "input_reordered": txt2 if any("record order" in x_ for x_ in dd) else None, "differences": dd[:10], "datum": net["datum"]}, "gama-g3: %s" % dd[0])
        if bad >= 3:
            break
    ctx.obligation(bad == 0, "E:g3")
    # judge the K cases inside Coq
    shard = 300
    for s0 in range(0, len(kcases), shard):
        v = "From Coq Require Import List Floats NArith.\nFrom Gama Require Import G3Run.\nImport ListNotations.\nLocal Open Scope float_scope.\n" \
            "Definition cases := [\n%s\n].\n" % ";\n".join(c[2] for c in kcases[s0:s0 + shard]) + 'Goal True. idtac "@@OBS". Abort.\nEval vm_compute in bad_obs cases.\n'
        rc, cout = vlib.coq_run(v, ctx.scratch, name="cases_c19_%d" % s0, timeout=900)
        lst = vlib.parse_coq_list(cout, "@@OBS")
        ctx.checker_cmds.append("coqc -Q coq Gama cases_c19_%d.v" % s0)
        ctx.obligation(rc == 0 and lst == [], "K:g3-linearisation shard %d" % s0)
        if rc != 0 or lst is None:
            ctx.log(cout[-1000:])
            ctx.violation({"kind": "K:g3-linearisation", "broken": "cases file did not evaluate", "tail": cout[-600:]}, "cases file failed", no_input=True)
            continue
        for x in lst[:4]:
            kind, ob, term, txt, net = kcases[s0 + int(x.replace("%N", ""))]
            # the self-consistency relation above found nothing on this input: model and code differ, no failing input
            ctx.violation({"kind": "K:g3-linearisation", "input": txt, "observation": ob, "coq_case": term[:2000],
                           "broken": "correspondence K:G3Run.rows vs Model::linearization (rows of the design matrix / absolute terms)"},
                          "model and implementation disagree on the rows of a g3 %s observation" % kind, no_input=True)
    ctx.count(("K-cases", len(kcases)), nontrivial=False)
    return ctx.finish(rule="generated ECEF networks (4-7 points anywhere on the WGS84 ellipsoid within ~40 km, heights 0..2500 m; fixed or constrained datum; vectors with full 3x3 "
                           "covariance, distances, observed xyz; given / perturbed / missing approximate coordinates), four algorithms, shuffled records, project-equation dump "
                           "re-adjusted by Adj; every network is a non-trivial case; distinct by content")
