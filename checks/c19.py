"""C19 -- gama-g3 reproduces consistent global networks, independent of algorithm.

proof:  coq/Properties_C19.v: the local north-east-up frame is an orthonormal rotation (R'R = I) for every latitude and
        longitude, covariance congruence keeps symmetry / PSD, consistent observations need no correction (LsqSpec), the
        redundancy formula
E:      generated ECEF networks anywhere on the ellipsoid (fixed / free / constrained n-e-u, vectors with full 3x3
        covariances, observed xyz, distances): adjusted = generating coordinates, four algorithms agree, record order is
        irrelevant, parameters / equations / defect / redundancy as predicted, and the --project-equations dump re-adjusted
        by the general adjustment class (harness/adj.cpp) gives the same corrections and sum of squares
"""
import math, os, re, subprocess, xml.etree.ElementTree as ET
import vlib
from checks import enet, solver

A_WGS, F_WGS = 6378137.0, 1 / 298.257223563
E2 = F_WGS * (2 - F_WGS)
GNS = "{http://www.gnu.org/software/gama/gnu-gama-data}"
ALGS = ["envelope", "gso", "svd", "cholesky"]


def blh2xyz(b, l, h):
    n = A_WGS / math.sqrt(1 - E2 * math.sin(b) ** 2)
    return ((n + h) * math.cos(b) * math.cos(l), (n + h) * math.cos(b) * math.sin(l), (n * (1 - E2) + h) * math.sin(b))


def gen(rng):
    b0, l0 = math.radians(rng.uniform(-85, 85)), math.radians(rng.uniform(-180, 180))
    n = rng.randint(4, 7)
    pts = {}
    for i in range(n):
        b = b0 + rng.uniform(-0.003, 0.003)
        l = l0 + rng.uniform(-0.003, 0.003) / max(0.1, math.cos(b0))
        pts["G%d" % (i + 1)] = blh2xyz(b, l, rng.uniform(0, 2500))
    ids = list(pts)
    datum = rng.choice(["fixed", "fixed", "constr"])
    nfix = rng.randint(1, 2)
    status = {}
    for i, pid in enumerate(ids):
        status[pid] = ("fixed" if datum == "fixed" else "constr") if i < nfix else "free"
    given = {pid: (status[pid] != "free" or rng.random() < 0.6) for pid in ids}
    perturb = {pid: (0.0 if status[pid] == "fixed" else rng.choice([0.0, 0.02, 0.2])) for pid in ids}
    obs = []
    for i in range(1, n):
        prev = list(range(i)); rng.shuffle(prev)
        for j in prev[:2]:
            a, b_ = (ids[j], ids[i]) if rng.random() < 0.6 else (ids[i], ids[j])
            obs.append(("vector", a, b_))
    for _ in range(rng.randint(0, 3)):
        a, b_ = rng.sample(ids, 2)
        obs.append(("distance", a, b_))
    for _ in range(rng.randint(0, 2)):
        obs.append(("xyz", rng.choice(ids), None))
    return {"pts": pts, "status": status, "given": given, "perturb": perturb, "obs": obs, "datum": datum}


def cov3(rng):
    B = [[rng.uniform(0.5, 2.0) if i == j else (rng.uniform(-0.5, 0.5) if j < i else 0.0) for j in range(3)] for i in range(3)]
    C = [[sum(B[i][k] * B[j][k] for k in range(3)) for j in range(3)] for i in range(3)]
    return [C[0][0], C[0][1], C[0][2], C[1][1], C[1][2], C[2][2]]


def render(net, rng, order=None, covs=None):
    o = ['<?xml version="1.0" ?>\n<gnu-gama-data xmlns="http://www.gnu.org/software/gama/gnu-gama-data">\n<g3-model>\n<constants>\n'
         '<apriori-standard-deviation>10</apriori-standard-deviation>\n<confidence-level>0.95</confidence-level>\n<angular-units-gons/>\n'
         '<ellipsoid><id>wgs84</id></ellipsoid>\n</constants>\n']
    pts = net["pts"]
    ids = list(pts)
    if order:
        ids = [ids[i] for i in order["points"]]
    for pid in ids:
        st = net["status"][pid]
        o.append("<%s> <n/> <e/> <u/> </%s>\n" % ({"fixed": "fixed", "free": "free", "constr": "constr"}[st], {"fixed": "fixed", "free": "free", "constr": "constr"}[st]))
        if net["given"][pid]:
            d = net["perturb"][pid]
            x, y, z = pts[pid]
            o.append("<point> <id>%s</id> <x>%r</x> <y>%r</y> <z>%r</z> </point>\n" % (pid, x + d * 0.6, y - d * 0.5, z + d * 0.7))
        else:
            o.append("<point> <id>%s</id> </point>\n" % pid)
    ob = list(enumerate(net["obs"]))
    if order:
        ob = [ob[i] for i in order["obs"]]
    for k, (t, a, b_) in ob:
        cv = covs[k]
        if t == "vector":
            pa, pb = pts[a], pts[b_]
            o.append("<obs>\n<vector> <from>%s</from> <to>%s</to> <dx>%r</dx> <dy>%r</dy> <dz>%r</dz> </vector>\n" % (a, b_, pb[0] - pa[0], pb[1] - pa[1], pb[2] - pa[2]))
            o.append("<cov-mat> <dim>3</dim> <band>2</band> %s </cov-mat>\n</obs>\n" % " ".join("<flt>%r</flt>" % v for v in cv))
        elif t == "distance":
            pa, pb = pts[a], pts[b_]
            o.append("<obs>\n<distance> <from>%s</from> <to>%s</to> <val>%r</val> </distance>\n<cov-mat> <dim>1</dim> <band>0</band> <flt>%r</flt> </cov-mat>\n</obs>\n" % (
                a, b_, math.sqrt(sum((pb[i] - pa[i]) ** 2 for i in range(3))), cv[0]))
        else:
            x, y, z = pts[a]
            o.append("<obs>\n<xyz><id>%s</id> <x>%r</x> <y>%r</y> <z>%r</z></xyz>\n<cov-mat> <dim>3</dim> <band>2</band> %s </cov-mat>\n</obs>\n" % (
                a, x, y, z, " ".join("<flt>%r</flt>" % v for v in cv)))
    o.append("</g3-model>\n</gnu-gama-data>\n")
    return "".join(o)


def run_g3(bdir, text, workdir, name, alg, pe=False):
    inp = os.path.join(workdir, name + ".xml")
    out = os.path.join(workdir, name + "." + alg + ".out.xml")
    open(inp, "w").write(text)
    cmd = [os.path.join(bdir, "gama-g3"), "--algorithm", alg]
    pef = None
    if pe:
        pef = os.path.join(workdir, name + "." + alg + ".pe.xml")
        cmd += ["--project-equations", pef]
    cmd += [inp, out]
    if os.path.exists(out):
        os.remove(out)
    try:
        p = subprocess.run(cmd, capture_output=True, timeout=120)
        rc, so, se = p.returncode, p.stdout.decode(errors="replace"), p.stderr.decode(errors="replace")
    except subprocess.TimeoutExpired:
        rc, so, se = 124, "", "timeout"
    res = None
    if os.path.exists(out) and os.path.getsize(out) > 0:
        try:
            res = parse_g3(out)
        except Exception as e:
            se += "\nunparseable output: %s" % e
    return {"rc": rc, "out": so, "err": se, "res": res, "pe": pef}


def ftxt(e, tag):
    x = e.find(GNS + tag)
    return x.text.strip() if x is not None and x.text else None


def parse_g3(path):
    root = ET.parse(path).getroot()
    r = root.find(GNS + "g3-adjustment-results")
    st = r.find(GNS + "adjustment-statistics")
    res = {k: int(ftxt(st, k)) for k in ("parameters", "equations", "defect", "redundancy")}
    res["ssq"] = float(ftxt(st, "sum-of-squares"))
    res["points"] = {}
    ar = r.find(GNS + "adjustment-results")
    for p in ar.findall(GNS + "point"):
        pid = ftxt(p, "id")
        q = {}
        for c in "xyz":
            v = ftxt(p, c + "-adjusted") or ftxt(p, c + "-given")
            q[c] = float(v) if v is not None else None
        for c in ("dn", "de", "du"):
            v = ftxt(p, c)
            if v is not None:
                q[c] = float(v)
        res["points"][pid] = q
    return res


def parse_pe(path):
    root = ET.parse(path).getroot()
    a = root.find(GNS + "adj-input-data")
    sm = a.find(GNS + "sparse-mat")
    m, n = int(ftxt(sm, "rows")), int(ftxt(sm, "cols"))
    A = [[0.0] * n for _ in range(m)]
    for i, row in enumerate(sm.findall(GNS + "row")):
        ints = [int(x.text) for x in row.findall(GNS + "int")]
        flts = [float(x.text) for x in row.findall(GNS + "flt")]
        for j, v in zip(ints, flts):
            A[i][j - 1] += v
    bd = a.find(GNS + "block-diagonal")
    blocks = []
    for b in bd.findall(GNS + "block"):
        blocks.append((int(ftxt(b, "dim")), int(ftxt(b, "width")), [float(x.text) for x in b.findall(GNS + "flt")]))
    vec = [float(x.text) for x in a.find(GNS + "vector").findall(GNS + "flt")]
    arr = a.find(GNS + "array")
    minx = [int(x.text) for x in arr.findall(GNS + "int")] if arr is not None else None
    return {"m": m, "n": n, "A": A, "b": vec, "blocks": blocks, "S": [i - 1 for i in minx] if minx is not None else list(range(n)), "mk": len(minx) if minx is not None else -1}


def envelope_pivots(exe, pe):
    script = solver.problem_script(pe) + ["new base envelope", "envdiag"]
    rc, out, err = vlib.sh([exe], inp="\n".join(script) + "\n")
    last = out.strip().split("\n")[-1].split()
    return [float.fromhex(v) for v in last[1:]] if last and last[0] == "ok" else []


def run(ctx):
    ctx.check_proofs()
    bdir = enet.binaries(ctx)
    exe = solver.build_harness(ctx, sanitize=False)
    rng = ctx.rng
    n = 10 if ctx.quick else 100
    bad = 0
    for t in range(n):
        net = gen(rng)
        covs = [cov3(rng) if o[0] != "distance" else [rng.choice([25.0, 100.0, 225.0])] for o in net["obs"]]
        txt = render(net, rng, covs=covs)
        ctx.count(("c19", txt), nontrivial=True)
        ctx.hist("datum", net["datum"]); ctx.hist("observations", len(net["obs"]))
        runs = {a: run_g3(bdir, txt, ctx.scratch, "c19_%d" % t, a, pe=(a == "envelope")) for a in ALGS}
        if t == 0:
            ctx.sample({"points": len(net["pts"]), "datum": net["datum"], "observations": [o[0] for o in net["obs"]], "input_head": txt[:500]})
        fail = [a for a in ALGS if runs[a]["res"] is None]
        if fail:
            if len(fail) == len(ALGS):
                ctx.hist("skipped_not_adjusted", 1)      # e.g. points without coordinates that the initialisation cannot reach
                if any(runs[a]["rc"] < 0 or runs[a]["rc"] == 124 for a in ALGS):
                    ctx.violation({"kind": "E:g3", "input": txt, "rc": {a: runs[a]["rc"] for a in ALGS}, "stderr": runs[fail[0]]["err"][-500:]}, "gama-g3 crashed / hung"); bad += 1
                continue
            ctx.violation({"kind": "E:g3", "input": txt, "failed": fail, "messages": {a: (runs[a]["out"] + runs[a]["err"])[-300:] for a in fail}}, "only some algorithms adjust the g3 network: %s fail" % fail); bad += 1
            continue
        dd = []
        algs = list(ALGS)
        exp_def = None
        if net["datum"] == "constr":
            exp_def = 0 if any(o[0] == "xyz" for o in net["obs"]) else 3
        env = runs["envelope"]["res"]
        if exp_def and env["defect"] < exp_def and all(runs[a]["res"]["defect"] == exp_def for a in ALGS[1:]):
            # known finding: the envelope solver (no pivoting, absolute tolerance) meets a tiny genuine pivot
            # followed by a polluted zero pivot and under-counts the defect; established from its own pivots
            piv = envelope_pivots(exe, parse_pe(runs["envelope"]["pe"]))
            nz = sorted(abs(v) for v in piv if v != 0)
            if nz and nz[0] < 1e-6 * nz[len(nz) // 2]:
                counted = ctx.violation({"kind": "E:g3", "input": txt, "envelope_pivots": piv, "defects": {a: runs[a]["res"]["defect"] for a in ALGS}},
                                        "gama-g3 --algorithm envelope reports defect %d for a free network of defect %d (pivots %.1e after %.1e)" % (env["defect"], exp_def, nz[0], nz[len(nz) // 2]),
                                        key="C19:envelope-undercounts-defect-after-tiny-pivot")
                if counted:
                    bad += 1
                    continue
                ctx.hist("known_finding_envelope_tiny_pivot", 1)
                algs = list(ALGS[1:])
        ref = runs[algs[0]]["res"]
        # statistics as predicted
        nfree = sum(3 for pid, s in net["status"].items() if s != "fixed")
        neq = sum(3 if o[0] != "distance" else 1 for o in net["obs"])
        if ref["parameters"] != nfree:
            dd.append("parameters %d, expected %d" % (ref["parameters"], nfree))
        if ref["equations"] != neq:
            dd.append("equations %d, expected %d (consistent observations must all take part)" % (ref["equations"], neq))
        if exp_def is not None:
            if ref["defect"] != exp_def:
                dd.append("defect %d, expected %d" % (ref["defect"], exp_def))
        if ref["redundancy"] != ref["equations"] - ref["parameters"] + ref["defect"]:
            dd.append("redundancy %d != equations - parameters + defect" % ref["redundancy"])
        if ref["ssq"] > 1e-3:
            dd.append("sum of squares %.3e for consistent observations" % ref["ssq"])
        unconstrained_translation = net["datum"] == "constr" and not any(o[0] == "xyz" for o in net["obs"])
        for pid, p in net["pts"].items():
            q = ref["points"].get(pid)
            if q is None:
                dd.append("point %s missing in the results" % pid); continue
            if unconstrained_translation and net["perturb"][pid] > 0:
                continue
            for i, c in enumerate("xyz"):
                if q[c] is not None and abs(q[c] - p[i]) > 5e-5 and not unconstrained_translation:
                    dd.append("point %s %s adjusted %.5f, generating value %.5f" % (pid, c, q[c], p[i]))
        for a in algs[1:]:
            r2 = runs[a]["res"]
            for k in ("parameters", "equations", "defect", "redundancy"):
                if r2[k] != ref[k]:
                    dd.append("%s: %s %d vs %s %d" % (a, k, r2[k], algs[0], ref[k]))
            for pid, q in ref["points"].items():
                for c in "xyz":
                    v2 = r2["points"].get(pid, {}).get(c)
                    if q[c] is not None and (v2 is None or abs(v2 - q[c]) > 2e-5):
                        dd.append("%s: point %s %s %.6f vs %s %.6f" % (a, pid, c, v2 if v2 is not None else float("nan"), algs[0], q[c]))
        # record order
        order = {"points": list(range(len(net["pts"]))), "obs": list(range(len(net["obs"])))}
        rng.shuffle(order["obs"])
        # points: keep status groups but shuffle within (a <fixed>/<free> marker precedes every point anyway)
        rng.shuffle(order["points"])
        txt2 = render(net, rng, order=order, covs=covs)
        r3 = run_g3(bdir, txt2, ctx.scratch, "c19s_%d" % t, algs[0])
        if r3["res"] is None:
            dd.append("the same records in another order are not adjusted: %s" % (r3["out"] + r3["err"])[-200:])
        else:
            for pid, q in ref["points"].items():
                for c in "xyz":
                    v2 = r3["res"]["points"].get(pid, {}).get(c)
                    if q[c] is not None and (v2 is None or abs(v2 - q[c]) > 5e-5):
                        dd.append("record order changes point %s %s: %.6f vs %.6f" % (pid, c, v2 if v2 is not None else float("nan"), q[c]))
        # project equations dump re-adjusted by the general adjustment class
        try:
            pe = parse_pe(runs["envelope"]["pe"])
            res = solver.run_problems(exe, [pe], [("adj", a) for a in algs], [([], [])])[0]
            xs = []
            for r_ in res:
                if "raw" in r_ and r_["raw"]["x"][0] == "ok":
                    xs.append([solver.fl(v) for v in r_["raw"]["x"][1]])
                else:
                    dd.append("the project-equations dump is not adjusted by Adj/%s: %s" % (r_["alg"], r_.get("crash") or r_["raw"]["x"][1]))
            # corrections dn,de,du (mm) in index order: the dump's unknowns; consistent data => all ~0 and equal among algorithms
            for x in xs[1:]:
                if len(x) != len(xs[0]) or max(abs(u - v) for u, v in zip(x, xs[0])) > 1e-5:
                    dd.append("Adj re-adjustment of the dump differs between algorithms")
            if xs and len(xs[0]) != ref["parameters"]:
                dd.append("the dump has %d unknowns, the adjustment %d parameters" % (len(xs[0]), ref["parameters"]))
        except Exception as e:
            dd.append("project-equations dump unusable: %s" % e)
        if dd:
            bad += 1
            ctx.violation({"kind": "E:g3", "input": txt, "differences": dd[:10], "datum": net["datum"]}, "gama-g3: %s" % dd[0])
        if bad >= 3:
            break
    ctx.obligation(bad == 0, "E:g3")
    return ctx.finish(rule="generated ECEF networks (4-7 points anywhere on the WGS84 ellipsoid within ~40 km, heights 0..2500 m; fixed or constrained datum; vectors with full 3x3 "
                           "covariance, distances, observed xyz; given / perturbed / missing approximate coordinates), four algorithms, shuffled records, project-equation dump "
                           "re-adjusted by Adj; every network is a non-trivial case; distinct by content")
