"""C03 -- reported cofactors are the true (generalised) inverse.

proof:  coq/Properties_C03.v (projector / redundancy-sum / reflexive g-inverse algebra over any real field)
K/C:    q_xx for all index pairs (inside and outside the sparse envelope), Adj::q_bb, on regular and singular
        systems, 4 algorithms x 2 entry points, judged inside coqc against the exact reference QLsq.v (Q = T Q0 T')
search: exact evaluation of N Q N = N, Q N Q = Q, symmetry and Q S G = 0 on the implementation's numbers
E:      gama-local --cov-band k: every band is the restriction of the full matrix; the full matrix is symmetric
        positive semi-definite; redundancy numbers f/100 of uncorrelated observations lie in [0,1] and sum to dof
"""
from fractions import Fraction
import os
import vlib
from checks import solver, enet
from tools import gama


def exact_P(p):
    m = p["m"]
    P = [[Fraction(0)] * m for _ in range(m)]
    r0 = 0
    for (dim, band, vals) in p["blocks"]:
        C = [[Fraction(0)] * dim for _ in range(dim)]
        k = 0
        for i in range(dim):
            for j in range(i, min(dim, i + band + 1)):
                C[i][j] = C[j][i] = Fraction(vals[k]); k += 1
        aug = [C[i] + [Fraction(int(i == j)) for j in range(dim)] for i in range(dim)]
        for j in range(dim):
            pv = next(i for i in range(j, dim) if aug[i][j] != 0)
            aug[j], aug[pv] = aug[pv], aug[j]
            aug[j] = [t / aug[j][j] for t in aug[j]]
            for i in range(dim):
                if i != j and aug[i][j] != 0:
                    f = aug[i][j]
                    aug[i] = [a - f * c for a, c in zip(aug[i], aug[j])]
        for i in range(dim):
            for j in range(dim):
                P[r0 + i][r0 + j] = aug[i][dim + j]
        r0 += dim
    return P


def mm(X, Y):
    return [[sum(X[i][k] * Y[k][j] for k in range(len(Y))) for j in range(len(Y[0]))] for i in range(len(X))]


def maxdiff(X, Y):
    return max(abs(X[i][j] - Y[i][j]) for i in range(len(X)) for j in range(len(X[0])))


def oracle(p, r, allres, qp, code):
    if "raw" not in r:
        return "harness crashed: " + r.get("crash", "")[:300]
    raw = r["raw"]
    if raw["x"][0] != "ok":
        return "exception for a well-posed problem: " + " ".join(raw["x"][1])
    n, m = p["n"], p["m"]
    if not qp[0]:
        return None
    for c in r["cmds"]:
        if c.startswith("q") and raw[c][0] != "ok":
            return "%s raised %s" % (c, " ".join(raw[c][1]))
    Q = [[Fraction(solver.fl(raw["qxx %d %d" % (i + 1, j + 1)][1][0])) for j in range(n)] for i in range(n)]
    A = [[Fraction(v) for v in row] for row in p["A"]]
    P = exact_P(p)
    PA = mm(P, A)
    N = [[sum(A[k][i] * PA[k][j] for k in range(m)) for j in range(n)] for i in range(n)]
    tol = Fraction(1, 10 ** 7)
    sq = max([Fraction(1)] + [abs(v) for row in Q for v in row])
    sn = max([Fraction(1)] + [abs(v) for row in N for v in row])
    if max(abs(Q[i][j] - Q[j][i]) for i in range(n) for j in range(n)) > tol * sq:
        return "q_xx is not symmetric"
    if maxdiff(mm(mm(N, Q), N), N) > tol * sn * sn * sq * n * n:
        return "N Q N = N violated"
    if maxdiff(mm(mm(Q, N), Q), Q) > tol * sq * sq * sn * n * n:
        return "Q N Q = Q violated"
    G = solver.null_basis(p["A"], n)
    for g in G:
        sg = [g[j] if j in p["S"] else Fraction(0) for j in range(n)]
        qs = [sum(Q[i][j] * sg[j] for j in range(n)) for i in range(n)]
        if max(abs(v) for v in qs) > tol * sq * max(abs(v) for v in g) * n:
            return "Q does not belong to the chosen regularisation (Q S g != 0 for a null vector g)"
    if r["entry"] == "adj" and qp[1]:
        AQ = mm(A, Q)
        for (i, j) in qp[1]:
            ref = sum(AQ[i][k] * A[j][k] for k in range(n))
            got = Fraction(solver.fl(raw["qbb %d %d" % (i + 1, j + 1)][1][0]))
            if abs(ref - got) > tol * max(1, abs(ref)) * 10:
                return "q_bb(%d,%d) = %.10g differs from (A Q A')(%d,%d) = %.10g" % (i + 1, j + 1, float(got), i + 1, j + 1, float(ref))
    return None


def band_relation(ctx, n):
    bdir = enet.binaries(ctx)
    bad = 0
    for t in range(n):
        net, truth, meta = enet.varied_network(ctx.rng)
        txt = gama.render_gkf(net)
        alg = ctx.rng.choice(enet.ALGS)
        full = None
        ctx.count(("c03e", txt), nontrivial=True)
        ctx.hist("network_kind", meta["kind"])
        for band in (-1, 0, 1, 2, 5, 1000):
            rr = gama.run_gama_local(bdir, txt, ctx.scratch, "c03_%d_%d" % (t, band + 1), alg, extra=["--cov-band", str(band)])
            if not os.path.exists(rr.files["xml"]):
                ctx.violation({"kind": "E:cov-band", "gkf": txt, "band": band, "out": rr.out[-500:] + rr.err[-500:]}, "no xml for --cov-band %d" % band); bad += 1
                break
            res = gama.parse_adjustment_xml(rr.files["xml"])
            if res.get("error"):
                break
            c = res["cov"]
            dim = c["dim"]
            if band == -1:
                full = res
                M = [[gama.cov_entry(res, i, j) for j in range(dim)] for i in range(dim)]
                sc = max([1e-30] + [abs(M[i][i]) for i in range(dim)])
                ok = all(M[i][i] >= -1e-9 * sc for i in range(dim))
                # positive semi-definiteness by elimination with complete diagonal pivoting (stable for semi-definite matrices;
                # without pivoting a tiny pivot of a singular free-network matrix amplifies rounding noise)
                L = [row[:] for row in M]
                left = list(range(dim))
                while left and ok:
                    k = max(left, key=lambda i: L[i][i])
                    if L[k][k] < -1e-7 * sc:
                        ok = False
                        break
                    if L[k][k] <= 1e-9 * sc:
                        # the rest must vanish
                        if any(abs(L[i][j]) > 1e-5 * sc for i in left for j in left):
                            ok = False
                        break
                    left.remove(k)
                    for i in left:
                        f = L[i][k] / L[k][k]
                        for j in left:
                            L[i][j] -= f * L[k][j]
                    if any(L[i][i] < -1e-6 * sc for i in left):
                        ok = False
                if not ok:
                    ctx.violation({"kind": "E:cov-psd", "gkf": txt, "algorithm": alg}, "covariance matrix of adjusted unknowns is not positive semi-definite"); bad += 1
                    break
                fs = [o["f"] for o in res["observations"] if isinstance(o.get("f"), float)]
                if any(f < -0.01 or f > 100.01 for f in fs):
                    ctx.violation({"kind": "E:redundancy", "gkf": txt, "algorithm": alg, "f": fs}, "a redundancy number lies outside [0,100] %"); bad += 1
                    break
            else:
                want = min(band, dim - 1)
                if c["band"] != want:
                    ctx.violation({"kind": "E:cov-band", "gkf": txt, "requested": band, "written": c["band"], "dim": dim}, "written band %d for request %d (dim %d)" % (c["band"], band, dim)); bad += 1
                    break
                need = sum(min(want, dim - 1 - r) + 1 for r in range(dim))
                if len(c["flt"]) != need:
                    ctx.violation({"kind": "E:cov-band", "gkf": txt, "requested": band, "elements": len(c["flt"]), "expected": need}, "wrong number of cov-mat elements"); bad += 1
                    break
                sc = max(abs(v) for v in full["cov"]["flt"])
                stop = False
                for i in range(dim):
                    for j in range(i, min(dim, i + want + 1)):
                        if abs(gama.cov_entry(res, i, j) - gama.cov_entry(full, i, j)) > 2e-6 * sc:
                            ctx.violation({"kind": "E:cov-band", "gkf": txt, "band": band, "i": i, "j": j}, "banded covariance element differs from the full matrix"); bad += 1
                            stop = True
                            break
                    if stop:
                        break
                if stop:
                    break
        if bad >= 3:
            break
    ctx.obligation(bad == 0, "E:cov-band")


def run(ctx):
    ctx.check_proofs(extra_files=["QLsqRun"])
    solver.solver_level(ctx, "c03", 70 if ctx.quick else 700, ["none", "all", "resolving", "resolving"], oracle, want_q="all",
                        defect_choices=[0, 0, 1, 1, 2], maxm=9 if ctx.quick else 12, maxn=5 if ctx.quick else 7)
    band_relation(ctx, 10 if ctx.quick else 80)
    return ctx.finish(rule="K: as C01 with q_xx for ALL index pairs and q_bb (diagonal + random off-diagonal pairs); E: generated networks x "
                           "--cov-band in {-1,0,1,2,5,1000}; non-trivial = defect>0 or correlated block (K), every network (E); distinct by content")
