"""C16 -- sparse kernels equal their dense definitions.

proof:  coq/Properties_C16.v (zero pivot of a Gram matrix => exactly zero row/column; ordering is a similarity; transpose
        keeps entries), coq/Properties_C16_graph.v (the column graph model is symmetric without loops) and
        coq/Properties_C16_crs.v (SparseMatrix::transpose modelled on the compressed rows themselves -- CrsModel.v -- keeps
        every stored entry, for every storage incl. repeated / unsorted indices and empty rows; shape; double transpose)
K:      harness/sparse.cpp (ASan+UBSan): SparseMatrix build / transpose / replicate, column graph, connectivity, reverse
        Cuthill-McKee permutation and its inverse, Envelope set / cholDec (zero pivots, defect) / solve / inverse on the
        profile, BlockDiagonal::cholDec; every output judged inside coqc against dense exact definitions (coq/SparseRun.v):
        all 0/1 sparsity patterns up to 3x3 exhaustively + random patterns up to 12x7 (empty rows, single column, dense,
        banded, disconnected graphs, duplicated / combined columns)
K:      the same harness, command U: raw storages (unsorted and repeated column indices, empty rows) -> the raw storage of
        transpose() and of the double transpose compared exactly, order included, with CrsModel.transpose inside coqc
E:      <connected-network/> flag of gama-local on generated connected / disconnected networks (via C02/C20 runs)
"""
import itertools
import vlib
from checks import solver


def hx(v):
    return float(v).hex()


def qmat(A):
    return "[%s]" % "; ".join("[%s]" % "; ".join(solver.qlit(v) for v in row) for row in A)


def gen_patterns(ctx):
    rng = ctx.rng
    out = []
    # exhaustive 0/1 patterns (values 1..3 assigned deterministically) for tiny sizes
    for (m, n) in [(1, 1), (2, 1), (1, 2), (2, 2), (3, 2), (2, 3), (3, 3)]:
        for bits in itertools.product([0, 1], repeat=m * n):
            if ctx.quick and m * n >= 9 and rng.random() > 0.25:
                continue
            A = [[(bits[i * n + j] * (1 + (i + 2 * j) % 3)) for j in range(n)] for i in range(m)]
            if any(all(A[i][j] == 0 for i in range(m)) for j in range(n)):
                continue       # a column that occurs in no equation is not a node of the graph: rejected upstream
            out.append(A)
    for _ in range(60 if ctx.quick else 800):
        n = rng.randint(1, 7)
        m = rng.randint(n, 12)
        kind = rng.choice(["random", "banded", "disconnected", "dense", "dependent", "chain"])
        A = [[0] * n for _ in range(m)]
        for i in range(m):
            if kind == "dense":
                A[i] = [rng.choice([-2, -1, 1, 2, 3]) for _ in range(n)]
            elif kind == "banded":
                j0 = rng.randrange(n)
                for j in range(j0, min(n, j0 + 2)):
                    A[i][j] = rng.choice([-2, -1, 1, 2])
            elif kind == "disconnected":
                half = max(1, n // 2)
                cols = list(range(0, half)) if i % 2 == 0 else list(range(half, n))
                for j in rng.sample(cols, min(len(cols), rng.randint(1, 2))) if cols else []:
                    A[i][j] = rng.choice([-1, 1, 2])
            elif kind == "chain":
                j0 = i % max(1, n - 1) if n > 1 else 0
                A[i][j0] = -1
                if n > 1:
                    A[i][j0 + 1] = 1
            else:
                for j in range(n):
                    if rng.random() < 0.4:
                        A[i][j] = rng.choice([-2, -1, 1, 2, 3])
            if rng.random() < 0.08:
                A[i] = [0] * n          # empty row
        if kind == "dependent" and n >= 2:
            for i in range(m):
                A[i][n - 1] = A[i][0] * 2 - (A[i][1] if n > 2 else 0)
        for j in range(n):              # every column occurs somewhere
            if all(A[i][j] == 0 for i in range(m)):
                A[rng.randrange(m)][j] = 1
        out.append(A)
    return out


def run(ctx):
    ctx.check_proofs(extra_files=["Properties_C16_graph", "Properties_C16_crs", "SparseRun"])
    exe = vlib.compile_harness("harness/sparse.cpp", sanitize=True)
    rng = ctx.rng
    pats = gen_patterns(ctx)
    cmds, meta = [], []
    for A in pats:
        m, n = len(A), len(A[0])
        rhs = [rng.choice([-3, -1, 0, 1, 2, 5]) for _ in range(n)]
        # the right-hand side of normal equations always lies in the range of N: use N z
        z = [rng.choice([-2, -1, 0, 1, 3]) for _ in range(n)]
        N = [[sum(A[k][i] * A[k][j] for k in range(m)) for j in range(n)] for i in range(n)]
        rhs = [sum(N[i][j] * z[j] for j in range(n)) for i in range(n)]
        if rng.random() < 0.5:
            # an arbitrary right-hand side (e.g. a unit vector, as used for columns of the inverse): on a singular matrix the
            # entries of dependent pivots must come out as exact zeros
            rhs = [rng.choice([-3, -1, 0, 1, 2, 5]) for _ in range(n)] if rng.random() < 0.5 else [1 if j == rng.randrange(n) else 0 for j in range(n)]
        cmds.append("S %d %d %s %s" % (m, n, " ".join(hx(v) for row in A for v in row), " ".join(hx(v) for v in rhs)))
        meta.append((A, rhs))
        ctx.count(("sparse", str(A)), nontrivial=(n >= 2))
        ctx.hist("n", n)
    rc, out, err = vlib.sh([exe], inp="\n".join(cmds) + "\n", timeout=900)
    blocks = out.split("END\n")
    if rc != 0 or len(blocks) < len(cmds) + 1:
        k = min(len(blocks) - 1, len(cmds) - 1)
        ctx.violation({"kind": "K:sparse", "command": cmds[max(0, k)], "stderr": err[-1500:], "rc": rc}, "sparse harness died (sanitizer report / crash) at: %s" % cmds[max(0, k)][:150])
        return ctx.finish("harness died")
    terms = []
    for (A, rhs), blk in zip(meta, blocks):
        d = {}
        for l in blk.strip().split("\n"):
            w = l.split()
            if w:
                d[w[0]] = w[1:]
        if "EXC" in d or "T" not in d:
            ctx.violation({"kind": "K:sparse", "matrix": A, "output": blk[:500]}, "sparse kernels raised an exception on a valid pattern")
            continue
        m, n = len(A), len(A[0])

        def densem(tok):
            r, c = int(tok[0]), int(tok[1])
            v = [float.fromhex(t) for t in tok[2:]]
            return [[v[i * c + j] for j in range(c)] for i in range(r)]
        T, R = densem(d["T"]), densem(d["R"])
        gn = int(d["G"][0])
        gv = [int(t) for t in d["G"][1:]]
        G = [[gv[i * gn + j] for j in range(gn)] for i in range(gn)]
        V = d.get("V", [])
        vt = ["(%d%%nat, %d%%nat, %s)" % (int(V[3 * k]), int(V[3 * k + 1]), solver.qlit(float.fromhex(V[3 * k + 2]))) for k in range(len(V) // 3)]
        nat = lambda xs: "[%s]" % "; ".join("%d%%nat" % int(x) for x in xs)
        terms.append("mkscase %d %s [%s] %s %s [%s] %s %s %s %d %s [%s] [%s]" % (
            n, qmat(A), "; ".join(solver.qlit(v) for v in rhs), qmat(T), qmat(R),
            "; ".join(nat(row) for row in G), "true" if d["C"][0] == "1" else "false", nat(d.get("P", [])), nat(d.get("I", [])),
            int(d["D"][0]), nat(d.get("Z", [])), "; ".join(solver.qlit(float.fromhex(t)) for t in d.get("X", [])), "; ".join(vt)))
        ctx.hist("defect", d["D"][0]); ctx.hist("connected", d["C"][0])
    ctx.sample({"command": cmds[len(cmds) // 2][:300], "output": blocks[len(cmds) // 2][:600]})
    CODES = {1: "transpose", 2: "replicate", 3: "column graph", 4: "connectivity flag", 5: "ordering is not a permutation", 6: "inverse permutation",
             7: "defect / zero pivots", 8: "envelope solution", 9: "sparse inverse on the profile"}
    import concurrent.futures, re
    shard = 120

    def one(s0):
        v = "From Coq Require Import List QArith ZArith.\nFrom Gama Require Import QLsq MatRun SparseRun.\nImport ListNotations.\nClose Scope Q_scope.\n" \
            "Definition cases : list scase := [\n%s\n].\n" % ";\n".join(terms[s0:s0 + shard]) + \
            'Goal True. idtac "@@SP". Abort.\nEval vm_compute in judge_all_s 0 cases.\n'
        rc, cout = vlib.coq_run(v, ctx.scratch, name="cases_c16_%d" % s0, timeout=1500)
        return s0, rc, cout
    bad = []
    with concurrent.futures.ThreadPoolExecutor(max_workers=12) as ex:
        for s0, rc, cout in ex.map(one, range(0, len(terms), shard)):
            lst = vlib.parse_coq_list(cout, "@@SP")
            ctx.checker_cmds.append("coqc -Q coq Gama cases_c16_%d.v" % s0)
            ok = rc == 0 and lst == []
            ctx.obligation(ok, "K:sparse shard %d" % s0)
            if rc != 0 or lst is None:
                ctx.log(cout[-800:])
                ctx.violation({"kind": "K:sparse", "broken": "cases file did not evaluate", "tail": cout[-400:]}, "cases file failed", no_input=True)
            else:
                for el in lst:
                    mm_ = re.match(r"\(\s*(\d+),\s*\[(.*)\]\s*\)", el.replace("%nat", ""))
                    bad.append((s0 + int(mm_.group(1)), [int(x) for x in re.findall(r"\d+", mm_.group(2))]))
    for (i, codes) in bad[:5]:
        A, rhs = meta[i]
        # the reference here is the dense definition itself (exact): a disagreement is a failing input
        ctx.violation({"kind": "K:sparse", "matrix": A, "rhs": rhs, "disagreement": [CODES.get(c, c) for c in codes], "implementation_output": blocks[i][:1500]},
                      "sparse kernel differs from its dense definition (%s) on a %dx%d pattern" % (", ".join(CODES.get(c, str(c)) for c in codes), len(A), len(A[0])))
    # K on the storage itself: raw compressed rows in (any order of indices, repeated indices, empty rows), the raw storage of
    # transpose() and of the double transpose out; compared exactly with CrsModel.transpose (theorems: Properties_C16_crs.v)
    ucmds, umeta = [], []
    vals_ = [-3, -2, -1, 1, 2, 5, 0.5, -0.25, 7]

    def ustore(m, n, fill):
        rows = []
        for i in range(m):
            kind = rng.random()
            if kind < 0.2:
                row = []
            elif kind < 0.35:
                c = rng.choice([1, n])
                row = [(c, rng.choice(vals_)) for _ in range(rng.randint(1, 3))]          # one index repeated
            else:
                row = [(rng.randint(1, n), rng.choice(vals_)) for _ in range(rng.randint(1, fill))]
                if rng.random() < 0.3:
                    row.sort()
                elif rng.random() < 0.3:
                    row.sort(reverse=True)
            rows.append(row)
        return rows
    for m in range(1, 4):                    # small shapes systematically, then random ones
        for n in range(1, 4):
            for _ in range(3 if ctx.quick else 30):
                umeta.append((n, ustore(m, n, 3)))
    for _ in range(60 if ctx.quick else 1500):
        m, n = rng.randint(1, 9), rng.randint(1, 8)
        umeta.append((n, ustore(m, n, rng.choice([2, 4, 9]))))
    for n, rows in umeta:
        ucmds.append("U %d %d %s" % (len(rows), n, " ".join("%d %s" % (len(r), " ".join("%d %s" % (c, hx(v)) for c, v in r)) for r in rows).strip()))
        ctx.count(("crs", str((n, rows))), nontrivial=any(len(r) > 1 for r in rows))
        ctx.hist("crs rows x cols", "%dx%d" % (len(rows), n))
    rc, out, err = vlib.sh([exe], inp="\n".join(ucmds) + "\n", timeout=600)
    ubl = out.split("END\n")
    if rc != 0 or len(ubl) < len(ucmds) + 1:
        k = max(0, min(len(ubl) - 1, len(ucmds) - 1))
        ctx.violation({"kind": "K:crs-transpose", "command": ucmds[k], "stderr": err[-1500:], "rc": rc}, "sparse harness died (sanitizer report / crash) in transpose / Envelope::set of a raw storage at: %s" % ucmds[k][:150])
    else:
        def rawparse(tok):
            nr = int(tok[0]); p = 1; rows = []
            for _ in range(nr):
                k = int(tok[p]); p += 1
                rows.append([(int(tok[p + 2 * j]), float.fromhex(tok[p + 2 * j + 1])) for j in range(k)]); p += 2 * k
            return rows
        crsl = lambda rows: "[%s]" % "; ".join("[%s]" % "; ".join("(%d%%nat, %s)" % (c, solver.qlit(v)) for c, v in r) for r in rows)
        uterms, uparsed = [], []
        for (n, rows), blk in zip(umeta, ubl):
            d = {l.split()[0]: l.split()[1:] for l in blk.strip().split("\n") if l.split()}
            if "RT" not in d or "RTT" not in d:
                ctx.violation({"kind": "K:crs-transpose", "columns": n, "storage": rows, "output": blk[:400]}, "transpose raised an exception on a valid storage")
                uparsed.append(None); uterms.append("(%d%%nat, %s, [], [])" % (n, crsl(rows)))
                continue
            T, TT = rawparse(d["RT"]), rawparse(d["RTT"])
            # Envelope::set on the same storage: the normal matrix A'A of the dense matrix (repeated indices sum), exact for
            # these small dyadic values
            from fractions import Fraction as Fr_
            Ad = [[Fr_(0)] * n for _ in rows]
            for i_, r_ in enumerate(rows):
                for c_, v_ in r_:
                    Ad[i_][c_ - 1] += Fr_(v_)
            wantN = [sum(Ad[k][i_] * Ad[k][j_] for k in range(len(rows))) for i_ in range(n) for j_ in range(i_ + 1)]
            gotN = [Fr_(float.fromhex(t)) for t in d.get("EN", ["0"])[1:]]
            if gotN != wantN:
                ctx.violation({"kind": "K:envelope-set", "columns": n, "storage": rows, "normal_matrix_lower": [str(x) for x in wantN], "envelope": [str(x) for x in gotN]},
                              "Envelope::set: the normal matrix of a %dx%d storage differs from A'A (repeated column indices: %s)" % (len(rows), n, any(len({c for c, _ in r}) < len(r) for r in rows)))
            uparsed.append((T, TT))
            uterms.append("(%d%%nat, %s, %s, %s)" % (n, crsl(rows), crsl(T), crsl(TT)))
        v = "From Coq Require Import List QArith ZArith.\nFrom Gama Require Import CrsModel.\nImport ListNotations.\nClose Scope Q_scope.\n" \
            "Definition cases : list (nat * crs * crs * crs) := [\n%s\n].\n" % ";\n".join(uterms) + \
            'Goal True. idtac "@@CR". Abort.\nEval vm_compute in judge_all_crs 0 cases.\n'
        rc, cout = vlib.coq_run(v, ctx.scratch, name="cases_c16_crs", timeout=900)
        lst = vlib.parse_coq_list(cout, "@@CR")
        ctx.checker_cmds.append("coqc -Q coq Gama cases_c16_crs.v")
        ctx.obligation(rc == 0 and lst == [], "K:crs-transpose (storage order, %d storages)" % len(uterms))
        if rc != 0 or lst is None:
            ctx.log(cout[-800:])
            ctx.violation({"kind": "K:crs-transpose", "broken": "cases file did not evaluate", "tail": cout[-400:]}, "crs cases file failed", no_input=True)
        else:
            from fractions import Fraction as Fr

            def dense_(rows, nc):
                D = [[Fr(0)] * nc for _ in rows]
                for i, r in enumerate(rows):
                    for c, v in r:
                        if 1 <= c <= nc:
                            D[i][c - 1] += Fr(v)
                return D
            found = 0
            for el in lst:
                mm_ = re.match(r"\(\s*(\d+),\s*\[(.*)\]\s*\)", el.replace("%nat", ""))
                i = int(mm_.group(1)); codes = [int(x) for x in re.findall(r"\d+", mm_.group(2))]
                n, rows = umeta[i]
                if uparsed[i] is None:
                    continue
                T, TT = uparsed[i]
                A_ = dense_(rows, n)
                okT = len(T) == n and dense_(T, len(rows)) == [[A_[r][c] for r in range(len(rows))] for c in range(n)] and all(1 <= c <= len(rows) for r in T for c, _ in r)
                okTT = len(TT) == len(rows) and dense_(TT, n) == A_ and all(1 <= c <= n for r in TT for c, _ in r)
                if not (okT and okTT) and found < 3:
                    found += 1
                    ctx.violation({"kind": "K:crs-transpose", "columns": n, "storage": rows, "transpose": T, "double_transpose": TT, "codes": codes},
                                  "SparseMatrix::transpose loses or moves an entry on a %dx%d storage with %d elements" % (len(rows), n, sum(len(r) for r in rows)))
            if lst and not found:
                i = int(re.match(r"\(\s*(\d+)", lst[0]).group(1))
                ctx.violation({"kind": "K:crs-transpose", "broken": "correspondence K:crs-transpose: the storage order of transpose() differs from CrsModel.transpose "
                               "(theorems Properties_C16_crs.* no longer speak about this code); every entry is still preserved on all %d storages" % len(uterms),
                               "first_differing_storage": {"columns": umeta[i][0], "storage": umeta[i][1], "implementation": uparsed[i]}},
                              "storage order of transpose() differs from the model", no_input=True)
    # block diagonal Cholesky
    bcmds, bmeta = [], []
    for _ in range(40 if ctx.quick else 400):
        nb = rng.randint(1, 4)
        blocks_ = []
        for _b in range(nb):
            d_ = rng.randint(1, 5)
            w_ = rng.randint(0, d_ - 1)
            B = [[0] * d_ for _ in range(d_)]
            for i in range(d_):
                B[i][i] = rng.choice([1, 2, 3])
                for k in range(1, w_ + 1):
                    if i - k >= 0:
                        B[i][i - k] = rng.choice([-1, 0, 1, 2])
            C = [[sum(B[i][k] * B[j][k] for k in range(d_)) for j in range(d_)] for i in range(d_)]
            vals = [C[i][j] for i in range(d_) for j in range(i, min(d_, i + w_ + 1))]
            blocks_.append((d_, w_, vals))
        bcmds.append("B %d %s" % (nb, " ".join("%d %d %s" % (d_, w_, " ".join(hx(v) for v in vals)) for d_, w_, vals in blocks_)))
        bmeta.append(blocks_)
    rc, out, err = vlib.sh([exe], inp="\n".join(bcmds) + "\n", timeout=300)
    bl = [b.strip() for b in out.split("END\n")]
    bterms, bidx = [], []
    for bi, (blocks_, l) in enumerate(zip(bmeta, bl)):
        ctx.count(("blockdiag", str(blocks_)), nontrivial=True)
        evl = [x for x in l.split("\n") if x.startswith("EV ")]
        l = "\n".join(x for x in l.split("\n") if not x.startswith("EV "))
        # Envelope::set(const BlockDiagonal&): every entry of the block-diagonal matrix, nothing else (exact: small integers)
        ntot = sum(d_ for d_, _, _ in blocks_)
        want = [[0.0] * ntot for _ in range(ntot)]
        o_ = 0
        for (d_, w_, vals) in blocks_:
            it = iter(vals)
            for i in range(d_):
                for j in range(i, min(d_, i + w_ + 1)):
                    want[o_ + j][o_ + i] = float(next(it))
            o_ += d_
        okev = False
        if evl:
            tk = evl[0].split()
            got = [float.fromhex(t) for t in tk[2:]]
            okev = int(tk[1]) == ntot and got == [want[i][j] for i in range(ntot) for j in range(i + 1)]
        ctx.hist("envelope of block diagonal", "equal" if okev else "different")
        if not okev:
            ctx.violation({"kind": "K:blockdiag-envelope", "blocks": blocks_, "output": (evl or [""])[0][:800], "expected_lower_triangle": want},
                          "Envelope(BlockDiagonal) differs from the block-diagonal matrix (%d blocks, dims/bands %s)" % (len(blocks_), [(d_, w_) for d_, w_, _ in blocks_]))
            continue
        if not l.startswith("F"):
            ctx.violation({"kind": "K:blockdiag", "blocks": blocks_, "output": l}, "BlockDiagonal::cholDec refused a positive definite matrix: %s" % l)
            continue
        fv = [float.fromhex(t) for t in l.split()[1:]]
        k = 0
        for (d_, w_, vals) in blocks_:
            nv = len(vals)
            bterms.append("(%d%%nat, %d%%nat, [%s], [%s])" % (d_, w_, "; ".join(solver.qlit(v) for v in vals), "; ".join(solver.qlit(v) for v in fv[k:k + nv])))
            bidx.append(bi)
            k += nv
    v = "From Coq Require Import List QArith ZArith.\nFrom Gama Require Import QLsq MatRun SparseRun.\nImport ListNotations.\nClose Scope Q_scope.\n" \
        "Definition blocks : list (nat * nat * vec * vec) := [\n%s\n].\n" % ";\n".join(bterms) + \
        'Goal True. idtac "@@BD". Abort.\nEval vm_compute in (filter (fun p => negb (block_ok (snd p))) (combine (seq 0 (length blocks)) blocks)).\n'
    rc, cout = vlib.coq_run(v, ctx.scratch, name="cases_c16_bd", timeout=900)
    ok = rc == 0 and re.search(r"=\s*\[\s*\]", cout.split("@@BD")[-1]) is not None
    ctx.obligation(ok, "K:blockdiag shard")
    ctx.checker_cmds.append("coqc -Q coq Gama cases_c16_bd.v")
    if not ok:
        m_ = re.findall(r"\((\d+)%?n?a?t?,\s*\(", cout.split("@@BD")[-1])
        if rc == 0 and m_:
            i = bidx[int(m_[0])]
            ctx.violation({"kind": "K:blockdiag", "blocks": bmeta[i], "factor": bl[i][:800]}, "BlockDiagonal::cholDec: R'R differs from the block")
        else:
            ctx.violation({"kind": "K:blockdiag", "broken": "cases file did not evaluate", "tail": cout[-500:]}, "block-diagonal cases file failed", no_input=True)
    return ctx.finish(rule="all 0/1 patterns for sizes up to 3x3 (quick: 25% of the 3x3 ones) + random patterns up to 12x7 of 6 kinds; right-hand sides in the range of N; "
                           "block-diagonal matrices of 1..4 blocks, dim 1..5, band 0..dim-1; non-trivial = at least two columns; distinct by content")
