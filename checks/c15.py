"""C15 -- dense matrix library obeys the algebra it implements.

proof:  coq/Properties_C15.v (Moore-Penrose conditions of the pseudo-inverse assembled from an SVD; (AB)' = B'A';
        two-sided inverse) and coq/Properties_C15_storage.v (SymMat packed addressing in bounds and injective)
K/C:    harness/matvec.cpp (ASan+UBSan) on exhaustive tiny integer operands (dims 0..3, entries in {-1,0,1,2}) and random
        reals up to 8x8, judged exactly in coqc (coq/MatRun.v over Q): products / sums / transposes in all Mat, TransMat,
        Vec, TransVec combinations, every non-conforming dimension pair must raise an exception, inverse, SymMat and
        CovMat Cholesky solves, SVD reconstruction and orthogonality, the four Moore-Penrose conditions of pinv,
        packed positions of SymMat / CovMat, copy / assign / reset / move between objects of different sizes
"""
import itertools, math
from fractions import Fraction
import vlib
from checks import solver


def hx(v):
    return float(v).hex()


def mtok(A, r=None, c=None):
    r = len(A) if r is None else r
    c = (len(A[0]) if A else 0) if c is None else c
    return "%d %d %s" % (r, c, " ".join(hx(v) for row in A for v in row))


def qmat(A):
    return "[%s]" % "; ".join("[%s]" % "; ".join(solver.qlit(v) for v in row) for row in A)


def parse_ans(line):
    w = line.split()
    if not w or w[0] != "ok":
        return None
    r, c = int(w[1]), int(w[2])
    vals = [float.fromhex(t) for t in w[3:3 + r * c]]
    return [[vals[i * c + j] for j in range(c)] for i in range(r)]


def rand_mat(rng, r, c, small):
    if small:
        return [[rng.choice([-1, 0, 1, 2]) for _ in range(c)] for _ in range(r)]
    return [[round(rng.uniform(-5, 5), 3) for _ in range(c)] for _ in range(r)]


def run(ctx):
    ctx.check_proofs(extra_files=["Properties_C15_storage", "MatRun"])
    exe = vlib.compile_harness("harness/matvec.cpp", sanitize=True)
    rng = ctx.rng
    cmds, terms, descr = [], [], []
    OPS = ["mm", "tm", "mt", "tt", "add", "sub"]
    # every dimension pair 0..3 (conforming and not), tiny integer entries
    dims = [(r, c) for r in range(0, 4) for c in range(0, 4)]
    for op_i, op in enumerate(OPS):
        for (ra, ca) in dims:
            for (rb, cb) in dims:
                if rng.random() > (0.35 if ctx.quick else 1.0):
                    continue
                A, B = rand_mat(rng, ra, ca, True), rand_mat(rng, rb, cb, True)
                cmds.append("%s %s %s" % (op, mtok(A, ra, ca), mtok(B, rb, cb)))
                descr.append(("bin", op_i, A, B, ra, ca, rb, cb))
    for _ in range(40 if ctx.quick else 400):
        op_i = rng.randrange(6)
        n1, n2, n3 = rng.randint(1, 8), rng.randint(1, 8), rng.randint(1, 8)
        shapes = {0: ((n1, n2), (n2, n3)), 1: ((n2, n1), (n2, n3)), 2: ((n1, n2), (n3, n2)), 3: ((n2, n1), (n3, n2)), 4: ((n1, n2), (n1, n2)), 5: ((n1, n2), (n1, n2))}[op_i]
        A, B = rand_mat(rng, *shapes[0], False), rand_mat(rng, *shapes[1], False)
        cmds.append("%s %s %s" % (OPS[op_i], mtok(A), mtok(B)))
        descr.append(("bin", op_i, A, B, shapes[0][0], shapes[0][1], shapes[1][0], shapes[1][1]))
    # member operators of TransMat (sum, difference, scalar multiple) and the product of two SymMat, expressed through the modelled
    # operations on transposed / full operands: trans(A) + trans(B) = A' + B' etc.
    def tr(M_, r_, c_):
        return [[M_[i][j] for i in range(r_)] for j in range(c_)]
    for _ in range(40 if ctx.quick else 400):
        k = rng.choice(["tadd", "tsub", "tsc", "symmul"])
        if k == "symmul":
            n1 = rng.randint(1, 5)
            n2 = n1 if rng.random() < 0.85 else rng.randint(1, 5)
            A = rand_mat(rng, n1, n1, True); B = rand_mat(rng, n2, n2, True)
            A = [[A[max(i, j)][min(i, j)] for j in range(n1)] for i in range(n1)]
            B = [[B[max(i, j)][min(i, j)] for j in range(n2)] for i in range(n2)]
            cmds.append("symmul %s %s" % (mtok(A, n1, n1), mtok(B, n2, n2)))
            descr.append(("bin", 0, A, B, n1, n1, n2, n2))
            continue
        ra, ca = rng.randint(1, 4), rng.randint(1, 4)
        rb, cb = (ra, ca) if rng.random() < 0.8 else (rng.randint(1, 4), rng.randint(1, 4))
        A, B = rand_mat(rng, ra, ca, True), rand_mat(rng, rb, cb, True)
        if k == "tsc":
            B = A; rb, cb = ra, ca
        cmds.append("%s %s %s" % (k, mtok(A, ra, ca), mtok(B, rb, cb)))
        descr.append(("bin", 5 if k == "tsub" else 4, tr(A, ra, ca), tr(B, rb, cb), ca, ra, cb, rb))
    # matrix * vector in the four flavours, as 1-column matrices
    for _ in range(60 if ctx.quick else 400):
        r, c = rng.randint(1, 5), rng.randint(1, 5)
        A = rand_mat(rng, r, c, True)
        kind = rng.choice(["mv", "tmv", "vm", "vmb"])
        n = {"mv": c, "tmv": r, "vm": r, "vmb": c}[kind]
        if rng.random() < 0.25:
            n = max(0, n + rng.choice([-1, 1]))
        v = [rng.choice([-1, 0, 1, 2, 3]) for _ in range(n)]
        vt = "%d %s" % (n, " ".join(hx(x) for x in v))
        cmds.append("%s %s %s" % (kind, mtok(A), vt) if kind in ("mv", "tmv") else "%s %s %s" % (kind, vt, mtok(A)))
        V = [[x] for x in v]
        if kind == "mv":
            descr.append(("bin", 0, A, V, r, c, n, 1))
        elif kind == "tmv":
            descr.append(("bin", 1, A, V, r, c, n, 1))
        elif kind == "vm":      # trans(v) * A, returned as a column:  A' v
            descr.append(("bin", 1, A, V, r, c, n, 1))
        else:                   # trans(v) * trans(A) = (A v)'
            descr.append(("bin", 0, A, V, r, c, n, 1))
    for _ in range(20 if ctx.quick else 200):
        r, c = rng.randint(1, 5), rng.randint(1, 5)
        A = rand_mat(rng, r, c, True)
        cmds.append("trans " + mtok(A, r, c))
        descr.append(("trans", A))
    # inverse (well conditioned: diagonally dominated, also permuted to force pivoting)
    for _ in range(30 if ctx.quick else 300):
        n = rng.randint(1, 7)
        A = [[rng.choice([-1, 0, 1, 2]) + (6 if i == j else 0) for j in range(n)] for i in range(n)]
        perm = list(range(n)); rng.shuffle(perm)
        A = [A[p] for p in perm]
        if rng.random() < 0.5:
            cp = list(range(n)); rng.shuffle(cp)
            A = [[row[q] for q in cp] for row in A]
        cmds.append("inv " + mtok(A))
        descr.append(("inv", A))
    # SymMat / CovMat: C = B B' + I (band limited for CovMat)
    for _ in range(30 if ctx.quick else 300):
        n = rng.randint(1, 7)
        kind = rng.choice(["sym", "cov"])
        band = n - 1 if kind == "sym" else rng.randint(0, n - 1)
        B = [[0] * n for _ in range(n)]
        for i in range(n):
            B[i][i] = rng.choice([1, 2])
            for k in range(1, band + 1):
                if i - k >= 0:
                    B[i][i - k] = rng.choice([-1, 0, 1])
        C = [[sum(B[i][k] * B[j][k] for k in range(n)) + (1 if i == j else 0) for j in range(n)] for i in range(n)]
        rhs = [rng.choice([-2, -1, 0, 1, 3]) for _ in range(n)]
        if kind == "sym":
            cmds.append("sym %d %s %s" % (n, " ".join(hx(C[i][j]) for i in range(n) for j in range(i, n)), " ".join(hx(x) for x in rhs)))
        else:
            cmds.append("cov %d %d %s %s" % (n, band, " ".join(hx(C[i][j]) for i in range(n) for j in range(i, min(n, i + band + 1))), " ".join(hx(x) for x in rhs)))
        descr.append(("solve", C, rhs))
    for _ in range(20 if ctx.quick else 200):
        r = rng.randint(1, 6); c = rng.randint(1, r)
        A = rand_mat(rng, r, c, rng.random() < 0.5)
        if rng.random() < 0.3 and c >= 2:       # rank deficient
            for row in A:
                row[-1] = row[0] * 2
        cmds.append("svd " + mtok(A)); descr.append(("svd", A))
        cmds.append("pinv " + mtok(A)); descr.append(("pinv", A))
        if rng.random() < 0.6:
            # wide matrices (fewer rows than columns): the singular values are not sorted, the non-zero ones may sit at
            # positions beyond the number of rows (seed C15-c summed over min(M,N) terms only)
            r2 = rng.randint(1, 4); c2 = rng.randint(r2 + 1, 6)
            A2 = rand_mat(rng, r2, c2, rng.random() < 0.5)
            if rng.random() < 0.3 and r2 >= 2:
                A2[-1] = [2 * x for x in A2[0]]
            cmds.append("pinv " + mtok(A2)); descr.append(("pinv", A2))
    rc, out, err = vlib.sh([exe], inp="\n".join(cmds) + "\n", timeout=600)
    lines = out.split("\n")
    if rc != 0 or len(lines) < len(cmds):
        k = min(len(lines) - 1, len(cmds) - 1)
        ctx.violation({"kind": "K:matvec", "command": cmds[max(0, k)], "stderr": err[-1500:], "rc": rc},
                      "matvec harness died (sanitizer report / crash) at command: %s" % cmds[max(0, k)][:150])
        return ctx.finish("harness died")
    for d, l in zip(descr, lines):
        a = parse_ans(l)
        ans = "AExc" if a is None else "(AMat %s)" % qmat(a)
        if d[0] == "bin":
            _, op, A, B, ra, ca, rb, cb = d
            terms.append("CBin %d %s %s %d %d %d %d %s" % (op, qmat(A), qmat(B), ra, ca, rb, cb, ans))
            ctx.count(("bin", op, str(A), str(B), ra, ca, rb, cb), nontrivial=(ra * ca * rb * cb > 0))
            ctx.hist("operation", OPS[op]); ctx.hist("conforming", a is not None)
        elif d[0] == "trans":
            terms.append("CTrans %s %s" % (qmat(d[1]), ans)); ctx.count(("trans", str(d[1])), nontrivial=True); ctx.hist("operation", "trans")
        elif d[0] == "inv":
            terms.append("CInv %s %s" % (qmat(d[1]), ans)); ctx.count(("inv", str(d[1])), nontrivial=True); ctx.hist("operation", "inv")
        elif d[0] == "solve":
            terms.append("CSolve %s [%s] %s" % (qmat(d[1]), "; ".join(solver.qlit(x) for x in d[2]), ans)); ctx.count(("solve", str(d[1])), nontrivial=True); ctx.hist("operation", "chol-solve")
        elif d[0] == "svd":
            A = d[1]; r, c = len(A), len(A[0])
            w = l.split()
            if not w or w[0] != "ok":
                terms.append("CPinv %s AExc" % qmat(A))
            else:
                vals = [float.fromhex(t) for t in w[3:]]
                U = [[vals[i * c + j] for j in range(c)] for i in range(r)]
                W = vals[r * c:r * c + c]
                Vm = [[vals[r * c + c + i * c + j] for j in range(c)] for i in range(c)]
                terms.append("CSvd %s %s [%s] %s" % (qmat(A), qmat(U), "; ".join(solver.qlit(x) for x in W), qmat(Vm)))
            ctx.count(("svd", str(A)), nontrivial=True); ctx.hist("operation", "svd")
        else:
            terms.append("CPinv %s %s" % (qmat(d[1]), ans)); ctx.count(("pinv", str(d[1])), nontrivial=True); ctx.hist("operation", "pinv")
    ctx.sample({"command": cmds[5], "answer": lines[5]})
    shard = 250
    badidx = []
    import concurrent.futures

    def one(s0):
        v = "From Coq Require Import List QArith ZArith.\nFrom Gama Require Import QLsq MatRun.\nImport ListNotations.\nClose Scope Q_scope.\n" \
            "Definition cases : list mcase := [\n%s\n].\n" % ";\n".join(terms[s0:s0 + shard]) + \
            'Goal True. idtac "@@MAT". Abort.\nEval vm_compute in bad_cases cases.\n'
        rc, cout = vlib.coq_run(v, ctx.scratch, name="cases_c15_%d" % s0, timeout=1200)
        return s0, rc, cout
    with concurrent.futures.ThreadPoolExecutor(max_workers=12) as ex:
        for s0, rc, cout in ex.map(one, range(0, len(terms), shard)):
            lst = vlib.parse_coq_list(cout, "@@MAT")
            ctx.checker_cmds.append("coqc -Q coq Gama cases_c15_%d.v" % s0)
            ok = rc == 0 and lst == []
            ctx.obligation(ok, "K:matvec shard %d" % s0)
            if rc != 0 or lst is None:
                ctx.log(cout[-800:])
                ctx.violation({"kind": "K:matvec", "broken": "cases file did not evaluate", "tail": cout[-400:]}, "cases file failed", no_input=True)
            else:
                badidx += [s0 + int(x) for x in lst]
    for i in badidx[:5]:
        # the model here IS the mathematical definition, evaluated exactly: a disagreement is a failing input
        ctx.violation({"kind": "K:matvec", "command": cmds[i], "implementation_answer": lines[i][:2000], "oracle": "exact definition (MatRun.case_ok) evaluated over Q"},
                      "matvec result differs from its mathematical definition: %s" % cmds[i][:120])
    # packed positions and the ownership experiment
    q2 = ["symidx %d" % n for n in range(1, 7)] + ["covidx %d %d" % (n, b) for n in range(1, 7) for b in range(0, n)] + \
         ["copy %d %d %d %d" % (a, b, c, d) for a in range(0, 4) for b in range(0, 4) for c in range(0, 4) for d in range(0, 4)]
    rc, out, err = vlib.sh([exe], inp="\n".join(q2) + "\n", timeout=300)
    l2 = out.split("\n")
    if rc != 0 or len(l2) < len(q2):
        ctx.violation({"kind": "K:matvec", "stderr": err[-1500:], "command": q2[max(0, min(len(l2) - 1, len(q2) - 1))]}, "matvec harness died in the storage / ownership experiments")
        return ctx.finish("harness died")
    for cmd, l in zip(q2, l2):
        w = l.split()
        ctx.count(("storage", cmd), nontrivial=True)
        if cmd.startswith("symidx"):
            n = int(cmd.split()[1])
            got = [int(x) for x in w[3:]]
            want = [((max(i, j) * (max(i, j) - 1)) // 2 + min(i, j) - 1) for i in range(1, n + 1) for j in range(1, n + 1)]
            if got != want:
                ctx.violation({"kind": "K:symmat-index", "n": n, "positions": got, "model": want}, "SymMat packed positions differ from the model symmat_pos (n=%d)" % n)
        elif cmd.startswith("covidx"):
            n, b = int(cmd.split()[1]), int(cmd.split()[2])
            got = [int(x) for x in w[3:]]
            if got != list(range(len(got))) or len(got) != n * (b + 1) - b * (b + 1) // 2:
                ctx.violation({"kind": "K:covmat-index", "n": n, "band": b, "positions": got}, "CovMat upper-band entries are not stored consecutively by rows (n=%d band=%d)" % (n, b))
        elif l.strip() != "ok":
            ctx.violation({"kind": "K:memrep", "command": cmd, "result": l}, "copy/assign/reset/move experiment (%s): %s" % (cmd, l.strip()))
    ctx.obligation(True, "storage and ownership experiments")
    return ctx.finish(rule="binary operators: all dimension pairs 0..3 x 0..3 with entries in {-1,0,1,2} (quick: 35% sample, thorough: all) + random reals up to 8x8; "
                           "matrix-vector flavours incl. non-conforming; inverse of permuted diagonally dominant matrices; SymMat/CovMat solves of B B' + I; SVD / pinv of full and (pinv also of wide matrices, rows < columns) "
                           "rank-deficient matrices; packed positions; 256 copy/assign/reset/move size combinations; non-trivial = all dimensions positive; distinct by content")
