"""C06 -- consistent observations reproduce the network they were derived from.

proof:  coq/Properties_C06.v (zero right-hand side => zero correction / zero residuals for every minimiser; a determined
        network returns exactly the truth) on top of Properties_C05 (rhs = observed - computed)
E:      generated error-free 1D/2D/3D networks (polar ties, redundant directions/distances/angles, slope distances and
        zenith angles with and without instrument/target heights, height differences, vectors, observed coordinates),
        approximate coordinates exact / perturbed up to 0.2 m / omitted, random circle orientations, all 4 algorithms:
        adjusted = truth, residuals 0, nothing dropped; adding consistent observations never loses a point
"""
import copy, math
import vlib
from checks import enet
from tools import gama, netgen


def gen(rng):
    dim = rng.choice([1, 2, 2, 3, 3])
    n = rng.randint(4, 7)
    approx = rng.choice(["exact", "perturbed", "perturbed", "omitted", "omitted"])
    kinds = {1: ["dh"], 2: ["direction", "distance", "angle"], 3: ["direction", "distance", "angle", "s-distance", "z-angle", "dh"]}[dim]
    net, truth, meta = netgen.make_network(rng, dim=dim, n=n, n_fixed=rng.randint({1: 1, 2: 2, 3: 2}[dim], 3), datum="fixed", noise=0.0,
                                           kinds=kinds, extra=rng.choice([0.3, 0.8]), approx=("perturbed" if approx == "perturbed" else approx),
                                           # (gama measures the misclosure of an angle with the distance to its FIRST target: with approximate
                                           # coordinates 0.2 m off and legs of 60 m / 560 m a consistent angle can exceed tol-abs = 1 m; 0.02 m cannot)
                                           perturb=(0.02 if "angle" in kinds else rng.choice([0.02, 0.2])), with_heights=rng.random() < 0.6)
    if dim == 3 and rng.random() < 0.35:
        # planimetry known, heights to be derived (zenith angles / height differences)
        meta["approx"] = approx = "z-omitted"
        for p in net["points"]:
            if "adj" in p:
                x, y, z = truth[p["id"]]
                p["x"], p["y"] = x, y
                p.pop("z", None)
    if approx == "exact":
        for p in net["points"]:
            x, y, z = truth[p["id"]]
            for c, v in (("x", x), ("y", y), ("z", z)):
                if c in p:
                    p[c] = v
    ids = [p["id"] for p in net["points"]]
    if dim == 3 and rng.random() < 0.4:
        netgen.add_vectors_cluster(rng, net, truth, [tuple(rng.sample(ids, 2)) for _ in range(2)], noise=0.0)
    if dim != 1 and rng.random() < 0.3:
        netgen.add_coordinates_cluster(rng, net, truth, rng.sample(ids, 2), dim=dim, noise=0.0)
    meta["approx"] = approx
    if approx == "z-omitted":
        meta["approx"] = "omitted"
        meta["z_only"] = True
    return net, truth, meta


def gen_heights(rng):
    """3D network, approximate coordinates exact, every slope distance / zenith angle with instrument and target heights whose
    difference exceeds tol-abs (instrument on a pillar, prism on a pole): nothing may be screened out before the reductions"""
    net, truth, meta = netgen.make_network(rng, dim=3, n=rng.randint(4, 6), n_fixed=2, datum="fixed", noise=0.0,
                                           kinds=["direction", "distance", "s-distance", "z-angle", "dh"], extra=0.8, approx="perturbed",
                                           perturb=0.02, with_heights=False)
    for p in net["points"]:
        x, y, z = truth[p["id"]]
        for c, v in (("x", x), ("y", y), ("z", z)):
            if c in p:
                p[c] = v
    orient = {}
    for c in net["clusters"]:
        if c["kind"] != "obs":
            continue
        for ob in c["obs"]:
            if ob["t"] in ("s-distance", "z-angle"):
                ob["from_dh"] = rng.choice([0.0, 0.24, 1.6])
                ob["to_dh"] = rng.choice([1.8, 2.5, 0.0]) if ob["from_dh"] < 1 else rng.choice([0.0, 0.1, 2.9])
                ob["val"] = netgen.obs_value(ob, truth, 0.0, c.get("from"))
                ob.pop("valstr", None)
    meta["approx"] = "exact"
    meta["heights"] = True
    return net, truth, meta


def gen_station(rng):
    """a free station observing direction + slope distance + zenith angle to fixed targets that are all above or all
    below it (or mixed); approximate coordinates of the station: xy given and z omitted / all omitted / all given"""
    terrain = rng.choice(["valley", "hill", "mixed"])
    k = rng.randint(3, 4)
    S = (1000.0 + rng.uniform(0, 50), 2000.0 + rng.uniform(0, 50), 100.0)
    truth = {"S": S}
    pts = []
    for i in range(k):
        ang = 2 * math.pi * i / k + rng.uniform(-0.3, 0.3)
        d = rng.uniform(80, 200)
        dz = rng.uniform(15, 45) * {"valley": 1, "hill": -1, "mixed": (1 if i % 2 else -1)}[terrain]
        truth["T%d" % i] = (S[0] + d * math.cos(ang), S[1] + d * math.sin(ang), S[2] + dz)
        x, y, z = truth["T%d" % i]
        pts.append({"id": "T%d" % i, "x": x, "y": y, "z": z, "fix": "xyz"})
    mode = rng.choice(["xy-given-z-omitted", "xy-given-z-omitted", "omitted", "exact"])
    sp = {"id": "S", "adj": "xyz"}
    if mode != "omitted":
        sp["x"], sp["y"] = S[0], S[1]
    if mode == "exact":
        sp["z"] = S[2]
    obs = []
    orient = rng.uniform(0, 2 * math.pi)
    for i in range(k):
        for t in ("direction", "s-distance", "z-angle"):
            ob = {"t": t, "to": "T%d" % i, "stdev": 5.0}
            ob["val"] = netgen.obs_value(ob, truth, orient, "S")
            obs.append(ob)
    net = {"attrs": {"axes-xy": "ne", "angles": "left-handed"}, "params": {"sigma-apr": 10.0, "tol-abs": 1000.0},
           "description": "free station", "points": pts + [sp], "clusters": [{"kind": "obs", "from": "S", "obs": obs}]}
    # a free station over fixed targets with direction + slope distance + zenith angle to each is resolved by the documented
    # strategy whatever is omitted (the unchanged tree always does): losing the station is a violation, not an excuse
    return net, truth, {"dim": 3, "approx": "omitted" if mode != "exact" else "exact", "terrain": terrain, "mode": mode, "station": True, "must_resolve": True}


def gen_polar(rng):
    """new 3D points without approximate coordinates, each observed from a known, oriented station by direction + slope
    distance + zenith angle (no horizontal distance): the polar method of the documented strategy resolves every one of
    them, so the adjustment MUST take place (no 'could not be resolved' excuse); optionally a traverse leg from the
    first new point, optionally instrument / target heights"""
    S = (1000.0 + rng.uniform(0, 50), 2000.0 + rng.uniform(0, 50), 300.0 + rng.uniform(0, 20))
    a0 = rng.uniform(0, 2 * math.pi)
    d0 = rng.uniform(100, 300)
    truth = {"S": S, "R": (S[0] + d0 * math.cos(a0), S[1] + d0 * math.sin(a0), S[2] + rng.uniform(-20, 20))}
    pts = [{"id": k, "x": truth[k][0], "y": truth[k][1], "z": truth[k][2], "fix": "xyz"} for k in ("S", "R")]
    k = rng.randint(2, 4)
    for i in range(k):
        ang = a0 + 2 * math.pi * (i + 1) / (k + 2) + rng.uniform(-0.2, 0.2)
        d = rng.uniform(50, 250)
        truth["P%d" % i] = (S[0] + d * math.cos(ang), S[1] + d * math.sin(ang), S[2] + rng.choice([-1, 1]) * rng.uniform(5, 40))
        pts.append({"id": "P%d" % i, "adj": "xyz"})
    with_dh = rng.random() < 0.4

    def polar(frm, to, orient):
        out = []
        # one set-up per sight: the slope distance and the zenith angle share the instrument and target heights (the polar
        # method reduces the slope distance by the zenith angle of the same line; with different heights on a steep sight the
        # approximate position can be off by more than tol-abs, which is not what the strategy promises to resolve)
        fdh, tdh = rng.choice([0.0, 1.5, 1.62]), rng.choice([0.0, 1.3, 2.0])
        for t in ("direction", "s-distance", "z-angle"):
            ob = {"t": t, "to": to, "stdev": 5.0}
            if with_dh and t != "direction":
                ob["from_dh"] = fdh
                ob["to_dh"] = tdh
            ob["val"] = netgen.obs_value(ob, truth, orient, frm)
            out.append(ob)
        return out

    o1 = rng.uniform(0, 2 * math.pi)
    ob = {"t": "direction", "to": "R", "stdev": 5.0}
    ob["val"] = netgen.obs_value(ob, truth, o1, "S")
    obs = [ob]
    for i in range(k):
        obs += polar("S", "P%d" % i, o1)
    if rng.random() < 0.5:      # a second round
        for i in range(k):
            obs += polar("S", "P%d" % i, o1)
    clusters = [{"kind": "obs", "from": "S", "obs": obs}]
    if rng.random() < 0.5:      # traverse leg P0 -> Q
        ang = rng.uniform(0, 2 * math.pi)
        d = rng.uniform(60, 200)
        P0 = truth["P0"]
        truth["Q"] = (P0[0] + d * math.cos(ang), P0[1] + d * math.sin(ang), P0[2] + rng.uniform(-30, 30))
        pts.append({"id": "Q", "adj": "xyz"})
        o2 = rng.uniform(0, 2 * math.pi)
        ob = {"t": "direction", "to": "S", "stdev": 5.0}
        ob["val"] = netgen.obs_value(ob, truth, o2, "P0")
        clusters.append({"kind": "obs", "from": "P0", "obs": [ob] + polar("P0", "Q", o2)})
    net = {"attrs": {"axes-xy": "ne", "angles": "left-handed"}, "params": {"sigma-apr": 10.0, "tol-abs": 1000.0},
           "description": "polar survey, new points without coordinates", "points": pts, "clusters": clusters}
    return net, truth, {"dim": 3, "approx": "omitted", "must_resolve": True, "heights": with_dh}


def check_truth(res, truth, tol=5e-6):
    rl = tol
    dd = []
    am = gama.adjusted_map(res)
    for pid, p in am.items():
        for i, c in enumerate("xyz"):
            if c in p and abs(p[c] - truth[pid][i]) > tol:
                dd.append("point %s %s: adjusted %.7f, true %.7f" % (pid, c, p[c], truth[pid][i]))
    for o in res["observations"]:
        if isinstance(o.get("adj"), float) and isinstance(o.get("obs"), float):
            v = o["adj"] - o["obs"]
            if o["tag"] in ("direction", "angle", "azimuth", "zenith-angle"):
                v = (v + 200) % 400 - 200
                lim = 1e-5      # gon = 0.1 cc, the precision gama prints angles with
                if o["tag"] == "zenith-angle":
                    lim = 3e-5  # the dh reduction loop of gama stops at 0.1 cc
            else:
                lim = rl        # m
            if abs(v) > lim:
                dd.append("residual of %s %s->%s: %.3e" % (o["tag"], o.get("from"), o.get("to"), v))
                break
    return dd


def run(ctx):
    ctx.assumptions += [
        "convergence of gama's linearisation loop and completeness of the approximate-coordinate strategies are sampled, not proved",
    ]
    ctx.check_proofs()
    bdir = enet.binaries(ctx)
    n = 24 if ctx.quick else 250
    bad = 0
    for t in range(n):
        net, truth, meta = gen_station(ctx.rng) if t % 4 == 3 else (gen_heights(ctx.rng) if t % 6 == 4 else (gen_polar(ctx.rng) if t % 6 == 2 else gen(ctx.rng)))
        nobs = netgen.count_obs(net)
        algs = [ctx.rng.choice(enet.ALGS)] if ctx.quick else enet.ALGS
        outs, txt = enet.run_all(ctx, bdir, net, "c06_%d" % t, algs=algs, outputs=("xml", "text"))
        ctx.count(("c06", txt), nontrivial=True)
        ctx.hist("dim", meta["dim"]); ctx.hist("approx", meta["approx"])
        if t == 0:
            ctx.sample({"network": enet.summarize(net), "approx": meta["approx"]})
        for a in algs:
            o = outs[a]
            if o["err"]:
                ctx.violation({"kind": "E:consistent", "gkf": txt, "algorithm": a, "error": o["err"]}, "gama-local failed on a consistent network: " + o["err"][:200]); bad += 1
                break
            if not enet.adjusted_ok(o):
                msg = (o["run"].out + o["run"].err)[-600:]
                if meta["approx"] == "omitted" and not meta.get("must_resolve"):
                    ctx.skipped("omitted_not_resolved", {"gkf": txt})      # the documented strategies could not resolve it: outside the quantifier
                    break
                ctx.violation({"kind": "E:consistent", "gkf": txt, "algorithm": a, "output": msg}, "a determined consistent network was not adjusted (%s)" % a); bad += 1
                break
            res = o["res"]
            adjusted_ids = set(gama.adjusted_map(res)) | set(p["id"] for p in res["fixed"])
            missing = [p["id"] for p in net["points"] if p["id"] not in adjusted_ids]
            # a point may also lose only its height (or only its position): 'missing coordinates z' of the approximate-coordinate search
            am_ = gama.adjusted_map(res)
            for p in net["points"]:
                want = (p.get("adj") or "").lower()
                got = am_.get(p["id"], {})
                if p["id"] not in missing and (("z" in want and "z" not in got) or ("xy" in want and "x" not in got)):
                    missing.append(p["id"])
            has_dh = any(('from_dh' in ob or 'to_dh' in ob) for c in net['clusters'] for ob in c['obs'])
            # with instrument/target heights gama's reduction loop stops at 0.1 cc / 0.001 mm: 0.05 mm on the coordinates
            dd = check_truth(res, truth, tol=(5e-5 if has_dh else 5e-6))
            if res["equations"] != nobs and not missing:
                dd.append("%d of %d error-free observations were left out of the adjustment" % (nobs - res["equations"], nobs))
            if missing and meta["approx"] != "omitted":
                dd.append("points %s dropped although approximate coordinates were given" % missing)
            if missing and meta.get("must_resolve"):
                dd.append("points / coordinates %s dropped although the documented strategy resolves them (%s)" % (missing, "free station over fixed targets" if meta.get("station") else "polar method: known, oriented station; direction + slope distance + zenith angle"))
            if missing and meta["approx"] == "omitted" and not dd:
                ctx.skipped("omitted_not_resolved", {"gkf": txt})
                break
            if dd:
                ctx.violation({"kind": "E:consistent", "gkf": txt, "algorithm": a, "approx": meta["approx"], "differences": dd[:8]},
                              "consistent network not reproduced (%s, approx %s): %s" % (a, meta["approx"], dd[0])); bad += 1
                break
        # adding consistent observations keeps every point determined
        if t % 3 == 0 and meta["dim"] != 1 and bad < 3:
            a = algs[0]
            base = outs[a]
            if enet.adjusted_ok(base):
                net2 = copy.deepcopy(net)
                ids = [p["id"] for p in net2["points"]]
                extra = []
                for _ in range(3):
                    i, j = ctx.rng.sample(ids, 2)
                    ob = {"t": "distance", "to": j, "stdev": 5.0}
                    ob["val"] = netgen.obs_value(ob, truth, 0.0, i)
                    extra.append((i, ob))
                for i, ob in extra:
                    net2["clusters"].append({"kind": "obs", "from": i, "obs": [ob]})
                o2, txt2 = enet.run_all(ctx, bdir, net2, "c06m_%d" % t, algs=[a])
                if enet.adjusted_ok(o2[a]):
                    s1 = set(gama.adjusted_map(base["res"]))
                    s2 = set(gama.adjusted_map(o2[a]["res"]))
                    if not s1 <= s2:
                        ctx.violation({"kind": "E:monotone", "gkf": txt, "gkf_more": txt2, "lost": sorted(s1 - s2)}, "adding consistent observations lost points %s" % sorted(s1 - s2)); bad += 1
                elif not o2[a]["err"]:
                    ctx.violation({"kind": "E:monotone", "gkf": txt, "gkf_more": txt2}, "adding consistent observations made the network unadjustable"); bad += 1
        if bad >= 3:
            break
    ctx.obligation(bad == 0, "E:consistent-networks")
    return ctx.finish(rule="error-free generated networks (dim 1/2/3, 4-7 points, polar skeleton + redundant observations of every type, optional vectors / observed "
                           "coordinates / instrument heights), approximate coordinates exact, perturbed (2 cm or 0.2 m) or omitted; quick: one random algorithm per network, "
                           "thorough: all four; every network is a non-trivial case; distinct by content")
