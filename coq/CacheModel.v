(* Model of GNU_gama::MoveToFront<N,Key,Buffer> (lib/gnu_gama/movetofront.h) and of a memo cache built on it
   (the use AdjEnvelope makes of it: indbuf / qxxbuf).  Definitions + execution entry point. *)
From Coq Require Import List Bool Arith Lia.
Import ListNotations.

(* state: key_[0..active-1] with their buffers, most recently used first, and the buffers not yet handed out
   (buf_[active..N-1], in order) *)
Record mtf := { used : list (nat * nat); free : list nat }.

Definition mtf_init (n : nat) : mtf := {| used := []; free := seq 0 n |}.

Fixpoint extract (k : nat) (l : list (nat * nat)) : option (nat * list (nat * nat)) :=
  match l with
  | [] => None
  | (k', b) :: r =>
    if Nat.eqb k k' then Some (b, r)
    else match extract k r with Some (b', r') => Some (b', (k', b) :: r') | None => None end
  end.

(* get: (new state, buffer, hit) *)
Definition mtf_get (s : mtf) (k : nat) : mtf * nat * bool :=
  match extract k (used s) with
  | Some (b, rest) => ({| used := (k, b) :: rest; free := free s |}, b, true)
  | None =>
    match free s with
    | b :: fr => ({| used := (k, b) :: used s; free := fr |}, b, false)
    | [] =>
      (* full: the last (least recently used) entry is evicted, its buffer reused *)
      match rev (used s) with
      | (_, b) :: rrest => ({| used := (k, b) :: rev rrest; free := [] |}, b, false)
      | [] => (s, 0, false)       (* N = 0: not a valid instance *)
      end
    end
  end.
Definition mtf_erase (s : mtf) : mtf :=
  (* erase() only resets `active`; buffers keep their positions buf_[0..N-1] *)
  {| used := []; free := map snd (used s) ++ free s |}.

Fixpoint mtf_run (s : mtf) (ks : list nat) : list (nat * bool) :=
  match ks with
  | [] => []
  | k :: r => let '(s', b, h) := mtf_get s k in (b, h) :: mtf_run s' r
  end.

Fixpoint pairs_eqb (a b : list (nat * bool)) : bool :=
  match a, b with
  | [], [] => true
  | (x, h) :: a', (y, g) :: b' => Nat.eqb x y && Bool.eqb h g && pairs_eqb a' b'
  | _, _ => false
  end.
Fixpoint mtf_mismatches (i : nat) (cases : list (list nat * list (nat * bool))) : list nat :=
  match cases with
  | [] => []
  | (ks, impl) :: r =>
    (if pairs_eqb (mtf_run (mtf_init 3) ks) impl then [] else [i]) ++ mtf_mismatches (S i) r
  end.

(* ---- a memo cache on top: buffers hold values; a miss fills the buffer with [f mode key] ---- *)
Section Memo.
Variable V : Type.
Variable f : nat -> nat -> V.          (* mode (e.g. which regularisation is in force) -> key -> value *)
Variable dflt : V.

Record memo := { m_mtf : mtf; m_store : nat -> V; m_mode : nat }.

Definition memo_init (n : nat) : memo := {| m_mtf := mtf_init n; m_store := fun _ => dflt; m_mode := 0 |}.

Definition upd (st : nat -> V) (b : nat) (v : V) : nat -> V := fun b' => if Nat.eqb b' b then v else st b'.

Definition memo_get (c : memo) (k : nat) : memo * V :=
  let '(s', b, hit) := mtf_get (m_mtf c) k in
  if hit then ({| m_mtf := s'; m_store := m_store c; m_mode := m_mode c |}, m_store c b)
  else let v := f (m_mode c) k in ({| m_mtf := s'; m_store := upd (m_store c) b v; m_mode := m_mode c |}, v).

(* changing the mode WITH a flush of the cache (what the property needs) ... *)
Definition memo_set_mode_flush (c : memo) (md : nat) : memo :=
  {| m_mtf := mtf_erase (m_mtf c); m_store := m_store c; m_mode := md |}.
(* ... and without (the behaviour of AdjEnvelope::min_x at the pinned commit) *)
Definition memo_set_mode_noflush (c : memo) (md : nat) : memo :=
  {| m_mtf := m_mtf c; m_store := m_store c; m_mode := md |}.

Inductive op := Get (k : nat) | SetMode (md : nat).

Fixpoint memo_run (flush : bool) (c : memo) (ops : list op) : list V :=
  match ops with
  | [] => []
  | Get k :: r => let (c', v) := memo_get c k in v :: memo_run flush c' r
  | SetMode md :: r => memo_run flush ((if flush then memo_set_mode_flush else memo_set_mode_noflush) c md) r
  end.

(* what fresh objects would answer: the mode in force at each query decides *)
Fixpoint fresh_run (md : nat) (ops : list op) : list V :=
  match ops with
  | [] => []
  | Get k :: r => f md k :: fresh_run md r
  | SetMode md' :: r => fresh_run md' r
  end.
End Memo.
Arguments m_mtf {V} _.
Arguments m_store {V} _.
Arguments m_mode {V} _.
