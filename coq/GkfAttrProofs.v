(* C11, attribute layer: what the regenerated tables guarantee (finite check by vm_compute, lifted to all states, tags,
   element names and attribute names). *)
From Coq Require Import List Bool String.
From Gama Require Import GkfGen GkfAttrDefs GkfProofs.
Import ListNotations.
Local Open Scope string_scope.

Lemma xsd_attrs_known_true : xsd_attrs_known = true.
Proof. vm_compute. reflexivity. Qed.

Lemma in_xsd_of e al a r : In (e, al) xsd_attrs -> In (a, r) al -> In (a, r) (xsd_of e).
Proof.
  intros H1 H2. unfold xsd_of. apply in_flat_map. exists (e, al). split; [exact H1|].
  cbn [fst snd]. rewrite String.eqb_refl. exact H2.
Qed.

(* a document may carry every attribute xml/gama-local.xsd declares for an element: no handler refuses its name *)
Theorem xsd_attribute_names_are_accepted s t s' e al a r :
  start_step s t = SGo s' -> In e (names_of t) -> In (e, al) xsd_attrs -> In (a, r) al -> accepts_attr s t a = true.
Proof.
  intros Hs He Hal Ha.
  pose proof xsd_attrs_known_true as K. unfold xsd_attrs_known in K.
  rewrite forallb_forall in K. specialize (K s (all_states_complete s)).
  rewrite forallb_forall in K. specialize (K t (all_tags_complete t)).
  unfold xsd_attrs_known_at, opens in K. rewrite Hs in K. cbn [negb orb] in K.
  rewrite forallb_forall in K. specialize (K e He).
  rewrite forallb_forall in K. specialize (K (a, r) (in_xsd_of e al a r Hal Ha)). exact K.
Qed.

(* the walk refuses exactly when some name is outside the table *)
Theorem attr_walk_refuses_iff s t names :
  attr_walk s t names = false <-> exists a, In a names /\ accepts_attr s t a = false.
Proof.
  unfold attr_walk. split.
  - intro H. induction names as [|x xs IH]; [discriminate|]. cbn [forallb] in H.
    destruct (accepts_attr s t x) eqn:E.
    + cbn [andb] in H. destruct (IH H) as [a [Ha Hb]]. exists a. split; [right; exact Ha | exact Hb].
    + exists x. split; [left; reflexivity | exact E].
  - intros [a [Ha Hb]]. destruct (forallb (accepts_attr s t) names) eqn:E; [|reflexivity].
    rewrite forallb_forall in E. rewrite (E a Ha) in Hb. discriminate.
Qed.
