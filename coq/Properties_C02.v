(* C02 -- the four algorithms give the same adjustment: property theorems only.
   Whatever method computes them, two solutions of the same weighted least-squares problem coincide in
   everything the property lists, for every real field and all dimensions. *)
From mathcomp Require Import all_ssreflect all_algebra.
From Gama Require Import LsqSpec SubsetProofs.
Import GRing.Theory Num.Theory.
Local Open Scope ring_scope.

Theorem C02_same_residuals_and_sum_of_squares (F : realFieldType) (m n : nat) (A : 'M[F]_(m,n)) (P : 'M[F]_m)
  (b : 'cV[F]_m) (x y : 'cV[F]_n) : P^T = P -> psd P -> pd P ->
  normal_eq A P b x -> normal_eq A P b y -> res A b x = res A b y /\ wss A P b x = wss A P b y.
Proof.
move=> Ps Pp Pd Hx Hy; have E := minimisers_same_residuals Ps Pp Pd Hx Hy.
by split=> //; rewrite /wss E.
Qed.
Print Assumptions C02_same_residuals_and_sum_of_squares.

Theorem C02_same_unknowns (F : realFieldType) (m n : nat) (A : 'M[F]_(m,n)) (P : 'M[F]_m)
  (b : 'cV[F]_m) (S : 'M[F]_n) (x y : 'cV[F]_n) : P^T = P -> psd P -> pd P -> resolves_defect A S ->
  normal_eq A P b x -> normal_eq A P b y -> null_orthogonal A S x -> null_orthogonal A S y -> x = y.
Proof. move=> Ps Pp Pd; exact: minnorm_unique. Qed.
Print Assumptions C02_same_unknowns.

(* regular case: the selection is irrelevant, the solution is unique *)
Corollary C02_regular_unique (F : realFieldType) (m n : nat) (A : 'M[F]_(m,n)) (P : 'M[F]_m)
  (b : 'cV[F]_m) (x y : 'cV[F]_n) : P^T = P -> psd P -> pd P ->
  (forall g : 'cV[F]_n, A *m g = 0 -> g = 0) -> normal_eq A P b x -> normal_eq A P b y -> x = y.
Proof.
move=> Ps Pp Pd Hreg Hx Hy.
have Hg := minimisers_differ_in_null Ps Pp Pd Hx Hy.
by move: (Hreg _ Hg) => /eqP; rewrite subr_eq0 => /eqP.
Qed.
Print Assumptions C02_regular_unique.

(* the regularisation subset is given to the solvers as a list of indexes: the selection it defines depends on the list only
   as a set (AdjCholDec and AdjEnvelope used the raw list before the repair: other cofactors for {1,1,2,2} than for {1,2}) *)
Theorem C02_regularisation_list_is_a_set (F : realFieldType) (n : nat) (l1 l2 : seq 'I_n) :
  l1 =i l2 -> @selmx F n l1 = @selmx F n l2.
Proof. exact: selmx_eq_mem. Qed.
Print Assumptions C02_regularisation_list_is_a_set.

Theorem C02_repeated_indexes_do_not_matter (F : realFieldType) (n : nat) (l : seq 'I_n) :
  @selmx F n (undup l) = @selmx F n l /\ (@selmx F n l)^T = @selmx F n l /\ @selmx F n l *m @selmx F n l = @selmx F n l.
Proof. split; [exact: selmx_undup | split; [exact: selmx_sym | exact: selmx_idem]]. Qed.
Print Assumptions C02_repeated_indexes_do_not_matter.
