(* C16 -- sparse kernels equal their dense definitions: property theorems only. *)
From mathcomp Require Import all_ssreflect all_fingroup all_algebra.
Import GRing.Theory Num.Theory.
Local Open Scope ring_scope.

(* the exact zeros on dependent pivots: in a Gram matrix N = A'A a vanishing diagonal entry means the whole column of A
   vanishes, hence the whole row and column of N are exactly zero (the Schur complements of a Gram matrix are Gram
   matrices again, so the same holds at every elimination step) *)
Theorem C16_zero_pivot_has_zero_row (F : realFieldType) (m n : nat) (A : 'M[F]_(m,n)) (k : 'I_n) :
  (A^T *m A) k k = 0 -> (forall i, A i k = 0) /\ (forall j, (A^T *m A) k j = 0) /\ (forall j, (A^T *m A) j k = 0).
Proof.
move=> H0.
have Hcol : forall i, A i k = 0.
  move=> i; move: H0; rewrite mxE.
  under eq_bigr => r _ do rewrite mxE -expr2.
  move/eqP; rewrite psumr_eq0; last by move=> r _; apply: sqr_ge0.
  by move/allP => /(_ i); rewrite mem_index_enum sqrf_eq0 => /(_ isT) /eqP.
split=> //; split=> j; rewrite mxE; apply: big1 => r _; rewrite !mxE.
- by rewrite Hcol mul0r.
- by rewrite Hcol mulr0.
Qed.
Print Assumptions C16_zero_pivot_has_zero_row.

(* reordering the unknowns by a permutation: the permuted normal matrix is the normal matrix of the permuted design, and
   solutions correspond (what the envelope solves is the original system) *)
Theorem C16_ordering_is_a_similarity (F : fieldType) (m n : nat) (A : 'M[F]_(m,n)) (s : {perm 'I_n}) (x b : 'cV[F]_n) :
  let Pm : 'M[F]_n := perm_mx s in
  (A *m Pm^T)^T *m (A *m Pm^T) = Pm *m (A^T *m A) *m Pm^T /\
  ((A^T *m A) *m x = b -> (Pm *m (A^T *m A) *m Pm^T) *m (Pm *m x) = Pm *m b).
Proof.
move=> Pm; split; first by rewrite trmx_mul trmxK !mulmxA.
move=> H.
have PP : Pm^T *m Pm = 1%:M by rewrite /Pm tr_perm_mx -perm_mxM mulVg perm_mx1.
have -> : Pm *m (A^T *m A) *m Pm^T *m (Pm *m x) = Pm *m (A^T *m A) *m (Pm^T *m Pm) *m x by rewrite !mulmxA.
by rewrite PP mulmx1 -mulmxA H.
Qed.
Print Assumptions C16_ordering_is_a_similarity.

(* transposition is an involution and keeps every entry *)
Theorem C16_transpose_preserves_entries (F : fieldType) (m n : nat) (A : 'M[F]_(m,n)) i j : A^T j i = A i j /\ A^T^T = A.
Proof. by split; [rewrite mxE | rewrite trmxK]. Qed.

(* the envelope storage loses nothing: L D L' by successive Schur complements (Envelope::cholDec) creates no entry to the
   left of the first non-zero of a row -- the strictly lower part of L vanishes outside the profile of A (CholProofs.v) *)
From Gama Require Import CholProofs.
Theorem C16_ldl_stays_in_the_envelope (F : fieldType) (n : nat) (f : nat -> nat) (A : 'M[F]_n.+1) :
  in_profile f A -> forall i j : 'I_n.+1, (j < f i)%N -> (j < i)%N -> (ldl A).1 i j = 0.
Proof. exact: ldl_L_in_envelope. Qed.
Print Assumptions C16_ldl_stays_in_the_envelope.
