(* Executable (binary64) transliteration of GNU_gama::g3::Model::linearization(...)
   (lib/gnu_gama/g3/g3_model_linearization.cpp) and of the point geometry it uses
   (g3_point.cpp: transformation_matrix, diff_N/E/U, X_dh; g3_model.cpp: vertical, instrument;
   e3.cpp: R_3::rotation / inverse, angle) -- the K correspondence of C19.
   The formulas are the ones G3Proofs.v differentiates.  Deflections of the vertical (db, dl) are
   taken as zero (the generated inputs give none); refraction is not modelled by gama either. *)
From Coq Require Import List Floats Bool Arith NArith.
From Gama Require Import Num FloatFns.
Import ListNotations.
Local Open Scope float_scope.

Definition RAD2CC : float := 2000000 / fpi.

Record gpt := mkpt {
  gX : float; gY : float; gZ : float; gB : float; gL : float; gH : float; ggeo : float;
  iN : nat; iE : nat; iU : nat; fN : bool; fE : bool; fU : bool }.

Definition v3 := (float * float * float)%type.
Definition vsub (a b : v3) : v3 := let '(a1, a2, a3) := a in let '(b1, b2, b3) := b in (a1 - b1, a2 - b2, a3 - b3).
Definition vadd (a b : v3) : v3 := let '(a1, a2, a3) := a in let '(b1, b2, b3) := b in (a1 + b1, a2 + b2, a3 + b3).
Definition vscale (k : float) (a : v3) : v3 := let '(a1, a2, a3) := a in (a1 * k, a2 * k, a3 * k).
Definition vdot (a b : v3) : float := let '(a1, a2, a3) := a in let '(b1, b2, b3) := b in a1 * b1 + a2 * b2 + a3 * b3.
Definition vcross (a b : v3) : v3 :=
  let '(a1, a2, a3) := a in let '(b1, b2, b3) := b in (a2 * b3 - a3 * b2, a3 * b1 - a1 * b3, a1 * b2 - a2 * b1).

(* rows of R (NEU -> XYZ): (r11 r12 r13; r21 r22 r23; r31 r32 r33) *)
Definition rot (b l : float) : v3 * v3 * v3 :=
  let sb := fl_sin b in let cb := fl_cos b in let sl := fl_sin l in let cl := fl_cos l in
  ((- sb * cl, - sl, cb * cl), (- sb * sl, cl, cb * sl), (cb, 0, sb)).
(* XYZ = R * NEU *)
Definition rotation (R : v3 * v3 * v3) (a : v3) : v3 :=
  let '(r1, r2, r3) := R in (vdot r1 a, vdot r2 a, vdot r3 a).
(* NEU = R' * XYZ *)
Definition inverse (R : v3 * v3 * v3) (a : v3) : v3 :=
  let '((r11, r12, r13), (r21, r22, r23), (r31, r32, r33)) := R in
  let '(a1, a2, a3) := a in
  (r11 * a1 + r21 * a2 + r31 * a3, r12 * a1 + r22 * a2 + r32 * a3, r13 * a1 + r23 * a2 + r33 * a3).

Definition pxyz (p : gpt) : v3 := (gX p, gY p, gZ p).
Definition prot (p : gpt) := rot (gB p) (gL p).
Definition vertical (p : gpt) : v3 :=
  (fl_cos (gB p) * fl_cos (gL p), fl_cos (gB p) * fl_sin (gL p), fl_sin (gB p)).
(* Point::X_dh etc.: X + r13*dh *)
Definition xyz_dh (p : gpt) (dh : float) : v3 :=
  let '(_, _, r13, (_, _, r23), (_, _, r33)) := prot p in (gX p + r13 * dh, gY p + r23 * dh, gZ p + r33 * dh).
(* Model::instrument: s + vertical*dh *)
Definition instrument (p : gpt) (dh : float) : v3 := vadd (pxyz p) (vscale dh (vertical p)).
Definition model_height (p : gpt) : float := gH p - ggeo p.

Definition opt (b : bool) (l : list (nat * float)) := if b then l else [].
(* coefficients of a point whose XYZ differentials are d: diff_N, diff_E (both or none), diff_U *)
Definition pcoef (p : gpt) (d : v3) : list (nat * float) :=
  let '(n, e, u) := inverse (prot p) d in
  opt (fN p && fE p) [(iN p, n); (iE p, e)] ++ opt (fU p) [(iU p, u)].

Inductive gobs :=
| OVector (a b : gpt) (dx dy dz dha dhb : float)
| OXYZ (a : gpt) (x y z : float)
| ODistance (a b : gpt) (v dha dhb : float)
| OZenith (a b : gpt) (v dha dhb : float)
| OHeight (a : gpt) (v : float)
| OHdiff (a b : gpt) (v : float)
| OAngle (a l r : gpt) (v dha dhl dhr : float).

Definition vnorm (a : v3) : float := PrimFloat.sqrt (vdot a a).
Definition unit_or_same (a : v3) : v3 :=
  let q := vnorm a in if PrimFloat.eqb q 0 then a else vscale (1 / q) a.

(* while (dif > pi) dif -= 2pi; while (dif <= -pi) dif += 2pi   (|dif| < 4pi) *)
Definition wrap_pi (d : float) : float :=
  let d1 := if PrimFloat.ltb fpi d then d - f2pi else d in
  let d2 := if PrimFloat.ltb fpi d1 then d1 - f2pi else d1 in
  let d3 := if PrimFloat.leb d2 (- fpi) then d2 + f2pi else d2 in
  if PrimFloat.leb d3 (- fpi) then d3 + f2pi else d3.

Definition rows (o : gobs) : list (float * list (nat * float)) :=
  match o with
  | OVector a b dx dy dz dha dhb =>
    let '(cx, cy, cz) := vsub (xyz_dh b dhb) (xyz_dh a dha) in
    let row t := pcoef a (vscale (-1) t) ++ pcoef b t in
    [((dx - cx) * 1000, row (1, 0, 0)); ((dy - cy) * 1000, row (0, 1, 0)); ((dz - cz) * 1000, row (0, 0, 1))]
  | OXYZ a x y z =>
    [((x - gX a) * 1000, pcoef a (1, 0, 0)); ((y - gY a) * 1000, pcoef a (0, 1, 0)); ((z - gZ a) * 1000, pcoef a (0, 0, 1))]
  | ODistance a b v dha dhb =>
    let d0 := vsub (pxyz b) (pxyz a) in
    let dd := vnorm d0 in
    let u := if PrimFloat.eqb dd 0 then d0 else let '(x, y, z) := d0 in (x / dd, y / dd, z / dd) in
    let D := vnorm (vsub (xyz_dh b dhb) (xyz_dh a dha)) in
    [((v - D) * 1000, pcoef a (vscale (-1) u) ++ pcoef b u)]
  | OZenith a b v dha dhb =>
    let ft := vsub (instrument b dhb) (instrument a dha) in
    let '(n, e, u) := inverse (prot a) ft in
    let r := PrimFloat.sqrt (n * n + e * e) in
    let s := n * n + e * e + u * u in
    let q := 1 / (r * s) in
    let sc := RAD2CC / 1000 in
    let pd := (- n * u * q, - e * u * q, r / s) in
    let '(p1, p2, p3) := pd in
    let '(t1, t2, t3) := inverse (prot b) (vscale (-1) (rotation (prot a) pd)) in
    (* angle(from_vertical, from_to) = acos(u / |from_to|) = atan2 (r, u) *)
    let za := fl_atan2 r u in
    [((v - za) * RAD2CC,
      opt (fN a && fE a) [(iN a, p1 * sc); (iE a, p2 * sc)] ++ opt (fU a) [(iU a, p3 * sc)] ++
      opt (fN b && fE b) [(iN b, t1 * sc); (iE b, t2 * sc)] ++ opt (fU b) [(iU b, t3 * sc)])]
  | OHeight a v => [((v - model_height a) * 1000, opt (fU a) [(iU a, 1)])]
  | OHdiff a b v =>
    [((v - (model_height b - model_height a)) * 1000, opt (fU a) [(iU a, -1)] ++ opt (fU b) [(iU b, 1)])]
  | OAngle a l r v dha dhl dhr =>
    let FI := instrument a dha in
    let FV := vertical a in
    let FL := unit_or_same (vsub (instrument l dhl) FI) in
    let FR := unit_or_same (vsub (instrument r dhr) FI) in
    let VL := vcross FV FL in let VR := vcross FV FR in
    let '(ln, le, _) := inverse (prot a) (vsub (pxyz l) (pxyz a)) in
    let '(rn, re, _) := inverse (prot a) (vsub (pxyz r) (pxyz a)) in
    let dl := PrimFloat.sqrt (ln * ln + le * le) in
    let dr := PrimFloat.sqrt (rn * rn + re * re) in
    let sl := fl_atan2 le ln in let sr := fl_atan2 re rn in
    let psl := fl_sin sl / dl in let pcl := fl_cos sl / dl in
    let psr := fl_sin sr / dr in let pcr := fl_cos sr / dr in
    let Lc := (- psl, pcl, 0) in let Rc := (- psr, pcr, 0) in
    let Fc := vscale (-1) (vsub Rc Lc) in
    let Lc' := vscale (-1) Lc in
    let '(l1, l2, l3) := inverse (prot l) (rotation (prot a) Lc') in
    let '(r1, r2, r3) := inverse (prot r) (rotation (prot a) Rc) in
    let '(f1, f2, f3) := Fc in
    let sc := RAD2CC / 1000 in
    (* angle(VL, VR) = acos of the cosine = atan2 (|VL x VR|, VL . VR) in [0, pi] *)
    let cr := vcross VL VR in
    let ang0 := fl_atan2 (vnorm cr) (vdot VL VR) in
    let ang := if PrimFloat.ltb 0 (vdot cr FV) then f2pi - ang0 else ang0 in
    [(wrap_pi (v - ang) * RAD2CC,
      opt (fN a) [(iN a, f1 * sc)] ++ opt (fE a) [(iE a, f2 * sc)] ++ opt (fU a) [(iU a, f3 * sc)] ++
      opt (fN l) [(iN l, l1 * sc)] ++ opt (fE l) [(iE l, l2 * sc)] ++ opt (fU l) [(iU l, l3 * sc)] ++
      opt (fN r) [(iN r, r1 * sc)] ++ opt (fE r) [(iE r, r2 * sc)] ++ opt (fU r) [(iU r, r3 * sc)])]
  end.

(* ---- judge: implementation rows (rhs, coefficients) against the model ---- *)
Fixpoint coef_close (a b : list (nat * float)) : bool :=
  match a, b with
  | [], [] => true
  | (i, x) :: a', (j, y) :: b' =>
    Nat.eqb i j && PrimFloat.leb (PrimFloat.abs (x - y)) (0x1.12e0be826d695p-30 (* 1e-9 *) * (PrimFloat.abs x + 0x1p-20)) && coef_close a' b'
  | _, _ => false
  end.

Fixpoint rows_close (m i : list (float * list (nat * float))) : bool :=
  match m, i with
  | [], [] => true
  | (r1, c1) :: m', (r2, c2) :: i' =>
    PrimFloat.leb (PrimFloat.abs (r1 - r2)) (0x1.4f8b588e368f1p-16 (* 2e-5 mm | cc *) + 0x1.12e0be826d695p-30 * PrimFloat.abs r1)
    && coef_close c1 c2 && rows_close m' i'
  | _, _ => false
  end.

Definition obs_ok (c : gobs * list (float * list (nat * float))) : bool := rows_close (rows (fst c)) (snd c).
Definition bad_obs (cs : list (gobs * list (float * list (nat * float)))) : list N := failing obs_ok cs.
