(* evaluation entry points for the string-level K correspondences (used by generated cases files) *)
From Coq Require Import List NArith Bool.
From Gama Require Import Num Strings.
Import ListNotations.

(* impl results for case i are bit i of [impl] *)
Fixpoint index_from {A} (k : N) (l : list A) : list (N * A) :=
  match l with [] => [] | x :: r => (k, x) :: index_from (N.succ k) r end.
Definition mismatches (f : str -> bool) (cases : list str) (impl : N) : list N :=
  map (fun i => fst (nth (N.to_nat i) (index_from 0%N cases) (0%N, [])))
      (failing (fun c => Bool.eqb (f (snd c)) (N.testbit impl (fst c))) (index_from 0%N cases)).

Fixpoint str_eqb (a b : str) : bool :=
  match a, b with
  | [], [] => true
  | x :: a', y :: b' => N.eqb x y && str_eqb a' b'
  | _, _ => false
  end.

(* str2xml: model output equals implementation output, and the reference decoder recovers the input *)
Definition x2x_ok (c : str * str) : bool :=
  let (inp, out) := c in
  str_eqb (str2xml inp) out &&
  match unescape out with Some back => str_eqb back inp | None => false end.

(* transport of byte strings as (length, big-endian number) *)
Fixpoint bytes_of_N_aux (len : nat) (n : N) (acc : str) : str :=
  match len with
  | O => acc
  | S l => bytes_of_N_aux l (N.shiftr n 8) (N.land n 255 :: acc)
  end.
Definition bytes_of_N (c : nat * N) : str := bytes_of_N_aux (fst c) (snd c) [].

Definition x2x_enum_mismatches (inputs : list str) (outs : list (nat * N)) : list N :=
  if Nat.eqb (length inputs) (length outs)
  then failing (fun c => x2x_ok (fst c, bytes_of_N (snd c))) (combine inputs outs)
  else [N.of_nat (length inputs); N.of_nat (length outs)].
Definition x2x_pairs_mismatches (cases : list ((nat * N) * (nat * N))) : list N :=
  failing (fun c => x2x_ok (bytes_of_N (fst c), bytes_of_N (snd c))) cases.
Definition lit_pairs_mismatches (f : str -> bool) (cases : list ((nat * N) * bool)) : list N :=
  failing (fun c => Bool.eqb (f (bytes_of_N (fst c))) (snd c)) cases.
