(* C03 -- reported cofactors are the true (generalised) inverse: property theorems only
   (any real field, all dimensions). *)
From mathcomp Require Import all_ssreflect all_algebra.
From Gama Require Import LsqSpec.
Import GRing.Theory Num.Theory.
Local Open Scope ring_scope.

(* cofactors of adjusted observations of the homogenised system, H = A Q A', form a symmetric
   projector whenever Q is a symmetric reflexive g-inverse of N = A'A: diagonal in [0,1] *)
Theorem C03_adjusted_observation_cofactors_are_a_projector (F : realFieldType) (m n : nat)
  (A : 'M[F]_(m,n)) (Q : 'M[F]_n) : Q^T = Q -> Q *m (A^T *m A) *m Q = Q ->
  (hat A Q)^T = hat A Q /\ hat A Q *m hat A Q = hat A Q /\ forall i, 0 <= hat A Q i i <= 1.
Proof.
move=> Qs QNQ; split; first exact: hat_sym. split; first exact: hat_idem.
by move=> i; apply: hat_diag_range.
Qed.
Print Assumptions C03_adjusted_observation_cofactors_are_a_projector.

(* redundancy numbers sum to m - tr(Q N) *)
Theorem C03_redundancy_sum (F : realFieldType) (m n : nat) (A : 'M[F]_(m,n)) (Q : 'M[F]_n) :
  \tr (1%:M - hat A Q) = m%:R - \tr (Q *m (A^T *m A)).
Proof. by rewrite raddfB /= mxtrace1 hat_trace. Qed.
Print Assumptions C03_redundancy_sum.

(* for a regular system Q = N^-1 and the redundancy numbers sum to m - n *)
Corollary C03_redundancy_sum_regular (F : realFieldType) (m n : nat) (A : 'M[F]_(m,n)) (Q : 'M[F]_n) :
  Q *m (A^T *m A) = 1%:M -> \tr (1%:M - hat A Q) = m%:R - n%:R.
Proof. by move=> QN; rewrite C03_redundancy_sum QN mxtrace1. Qed.
Print Assumptions C03_redundancy_sum_regular.

(* the cofactors of the regularised solution x = T x0 (T = I - G (G'SG)^-1 G'S, so N T = N) are again a
   reflexive generalised inverse of N: N Q N = N and Q N Q = Q *)
Theorem C03_regularised_cofactors_are_reflexive_ginverse (F : realFieldType) (m n : nat)
  (A : 'M[F]_(m,n)) (Q0 T : 'M[F]_n) :
  let N := A^T *m A in
  N *m Q0 *m N = N -> Q0 *m N *m Q0 = Q0 -> N *m T = N ->
  let Q := T *m Q0 *m T^T in N *m Q *m N = N /\ Q *m N *m Q = Q.
Proof.
move=> N H1 H2 H3; apply: (ginv_transform H1 H2 H3).
by rewrite /N trmx_mul trmxK.
Qed.
Print Assumptions C03_regularised_cofactors_are_reflexive_ginverse.

(* and they are symmetric positive semi-definite when Q0 is *)
Theorem C03_regularised_cofactors_symmetric (F : realFieldType) (n : nat) (Q0 T : 'M[F]_n) :
  Q0^T = Q0 -> (T *m Q0 *m T^T)^T = T *m Q0 *m T^T.
Proof. by move=> Qs; rewrite !trmx_mul trmxK Qs mulmxA. Qed.

Theorem C03_regularised_cofactors_psd (F : realFieldType) (n : nat) (Q0 T : 'M[F]_n) :
  psd Q0 -> psd (T *m Q0 *m T^T).
Proof.
move=> Hp v; have := Hp (T^T *m v).
by rewrite /qf /bil trmx_mul trmxK !mulmxA.
Qed.
Print Assumptions C03_regularised_cofactors_psd.
