(* C01 -- every solver returns the weighted least-squares minimiser: property theorems only.
   Stated over an arbitrary real field F (MathComp realFieldType; the rationals used by the exact
   reference model QLsq.v and the reals are instances), for all dimensions m, n. *)
From mathcomp Require Import all_ssreflect all_algebra.
From Gama Require Import LsqSpec.
Import GRing.Theory Num.Theory.
Local Open Scope ring_scope.

(* v = A x - b with A' P v = 0 makes v' P v minimal, for every symmetric positive semi-definite P *)
Theorem C01_normal_equations_minimise (F : realFieldType) (m n : nat) (A : 'M[F]_(m,n)) (P : 'M[F]_m)
  (b : 'cV[F]_m) (x : 'cV[F]_n) :
  P^T = P -> psd P -> normal_eq A P b x -> forall y, wss A P b x <= wss A P b y.
Proof. exact: normal_eq_minimises. Qed.
Print Assumptions C01_normal_equations_minimise.

(* rank deficient A: a minimiser orthogonal to the null space of A in the inner product of the selected
   unknowns has the smallest sum of squares over the selection among all minimisers *)
Theorem C01_null_orthogonal_is_minimum_norm (F : realFieldType) (m n : nat) (A : 'M[F]_(m,n)) (P : 'M[F]_m)
  (b : 'cV[F]_m) (S : 'M[F]_n) (x y : 'cV[F]_n) :
  P^T = P -> psd P -> pd P -> S^T = S -> (forall g : 'cV[F]_n, 0 <= qf S g) ->
  normal_eq A P b x -> normal_eq A P b y -> null_orthogonal A S x -> qf S x <= qf S y.
Proof. move=> Ps Pp Pd Ss Sp; exact: null_orthogonal_is_minnorm. Qed.
Print Assumptions C01_null_orthogonal_is_minimum_norm.

(* homogenisation: weighting by P = W' W is ordinary least squares on the rows multiplied by W *)
Theorem C01_homogenisation (F : realFieldType) (m n : nat) (A : 'M[F]_(m,n)) (P W : 'M[F]_m)
  (b : 'cV[F]_m) (x : 'cV[F]_n) : P = W^T *m W ->
  (normal_eq (W *m A) 1%:M (W *m b) x <-> normal_eq A P b x) /\
  wss (W *m A) 1%:M (W *m b) x = wss A P b x /\ res (W *m A) (W *m b) x = W *m res A b x.
Proof. exact: whitening_equiv. Qed.
Print Assumptions C01_homogenisation.

(* the exact expansion behind the per-run certificate: for ANY candidate x (e.g. the implementation's
   doubles read as rationals) with gradient g = A' P (A x - b), every y satisfies
   wss y >= wss x + 2 (y - x)' g, so a small exactly-evaluated gradient bounds the loss of optimality *)
Theorem C01_certificate_bound (F : realFieldType) (m n : nat) (A : 'M[F]_(m,n)) (P : 'M[F]_m)
  (b : 'cV[F]_m) (x y : 'cV[F]_n) : P^T = P -> psd P ->
  wss A P b x + 2%:R * sc ((y - x)^T *m (A^T *m P *m res A b x)) <= wss A P b y.
Proof. by move=> Ps Pp; rewrite (wss_expand A b x y Ps) ler_addl; apply: Pp. Qed.
Print Assumptions C01_certificate_bound.

(* non-vacuity: the hypotheses are satisfiable (unit weights are symmetric positive definite, and the
   identity design has the exact solution x = b) *)
Lemma psd_unit (F : realFieldType) (m : nat) : psd (1%:M : 'M[F]_m).
Proof.
move=> v; rewrite /qf /bil /sc mulmx1 mxE; apply: sumr_ge0 => i _.
by rewrite mxE -expr2 sqr_ge0.
Qed.

Example C01_example (F : realFieldType) (n : nat) (b : 'cV[F]_n) :
  (1%:M : 'M[F]_n)^T = 1%:M /\ psd (1%:M : 'M[F]_n) /\ normal_eq 1%:M 1%:M b b.
Proof.
split; first exact: trmx1. split; first exact: psd_unit.
by rewrite /normal_eq /res mul1mx subrr mulmx0.
Qed.
