(* C05 -- linearised observation equations equal the true Jacobian and misclosure: property theorems only. *)
From Coq Require Import Reals Lra ZArith.
From Coquelicot Require Import Coquelicot.
From Gama Require Import LinProofs.
Local Open Scope R_scope.

(* horizontal distance: partial derivatives w.r.t. target and station coordinates *)
Theorem C05_distance_partials xa ya xb yb : (xb - xa <> 0 \/ yb - ya <> 0) ->
  is_derive (fun x => hdist xa ya x yb) xb ((xb - xa) / hdist xa ya xb yb) /\
  is_derive (fun y => hdist xa ya xb y) yb ((yb - ya) / hdist xa ya xb yb) /\
  is_derive (fun x => hdist x ya xb yb) xa (- (xb - xa) / hdist xa ya xb yb) /\
  is_derive (fun y => hdist xa y xb yb) ya (- (yb - ya) / hdist xa ya xb yb).
Proof. intro H. split; [apply hdist_dxb; exact H|]. split; [apply hdist_dyb; exact H|]. split; [apply hdist_dxa | apply hdist_dya]; exact H. Qed.
Print Assumptions C05_distance_partials.

(* bearing (direction, azimuth, both legs of an angle): on either chart the partials are dx/d^2 and -dy/d^2 *)
Theorem C05_bearing_partials dx dy :
  (dx <> 0 -> is_derive (fun t => brg_x dx t) dy (dx / (dx ^ 2 + dy ^ 2)) /\ is_derive (fun t => brg_x t dy) dx (- dy / (dx ^ 2 + dy ^ 2))) /\
  (dy <> 0 -> is_derive (fun t => brg_y dx t) dy (dx / (dx ^ 2 + dy ^ 2)) /\ is_derive (fun t => brg_y t dy) dx (- dy / (dx ^ 2 + dy ^ 2))).
Proof. split; intro H; split; [apply brg_x_ddy | apply brg_x_ddx | apply brg_y_ddy | apply brg_y_ddx]; exact H. Qed.
Print Assumptions C05_bearing_partials.

(* the stored coefficients K cos s, K sin s (K = c/d) are c times those partials whenever (s, d) is what
   bearing_distance promises: d > 0, d cos s = dx, d sin s = dy *)
Theorem C05_code_coefficients_are_partials c s d dx dy : 0 < d -> d * cos s = dx -> d * sin s = dy ->
  c / d * cos s = c * (dx / (dx ^ 2 + dy ^ 2)) /\ c / d * sin s = c * (dy / (dx ^ 2 + dy ^ 2)).
Proof. exact (code_coefficients_are_partials c s d dx dy). Qed.
Print Assumptions C05_code_coefficients_are_partials.

Theorem C05_slope_distance_partials xa ya za xb yb zb : 0 < (xb - xa) ^ 2 + (yb - ya) ^ 2 + (zb - za) ^ 2 ->
  is_derive (fun x => sdist xa ya za x yb zb) xb ((xb - xa) / sdist xa ya za xb yb zb) /\
  is_derive (fun y => sdist xa ya za xb y zb) yb ((yb - ya) / sdist xa ya za xb yb zb) /\
  is_derive (fun z => sdist xa ya za xb yb z) zb ((zb - za) / sdist xa ya za xb yb zb) /\
  is_derive (fun z => sdist xa ya z xb yb zb) za (- (zb - za) / sdist xa ya za xb yb zb).
Proof. intro H. split; [apply sdist_dxb; exact H|]. split; [apply sdist_dyb; exact H|]. split; [apply sdist_dzb | apply sdist_dza]; exact H. Qed.
Print Assumptions C05_slope_distance_partials.

Theorem C05_zenith_angle_partials d dz c sd dx : 0 < d -> sd ^ 2 = d ^ 2 + dz ^ 2 ->
  is_derive (fun t => zen d t) dz (- d / (d ^ 2 + dz ^ 2)) /\ is_derive (fun t => zen t dz) d (dz / (d ^ 2 + dz ^ 2)) /\
  - (c / (d * sd * sd)) * d * d = c * (- d / (d ^ 2 + dz ^ 2)) /\
  c / (d * sd * sd) * dz * dx = c * (dz / (d ^ 2 + dz ^ 2) * (dx / d)).
Proof.
  intros Hd Hs. split; [apply zen_ddz; exact Hd|]. split; [apply zen_dd; exact Hd|].
  split; [apply zen_code_pz; assumption | apply zen_code_px; assumption].
Qed.
Print Assumptions C05_zenith_angle_partials.

(* a zenith angle read in the second face (above 200 gon) is 2 pi - za: every partial derivative changes sign
   (LocalLinearization::z_angle mirrored only the computed value before the repair) *)
Theorem C05_zenith_angle_second_face_partials d dz : 0 < d ->
  is_derive (fun t => zen2 d t) dz (- (- d / (d ^ 2 + dz ^ 2))) /\ is_derive (fun t => zen2 t dz) d (- (dz / (d ^ 2 + dz ^ 2))).
Proof. intro Hd. split; [apply zen2_ddz | apply zen2_dd]; exact Hd. Qed.
Print Assumptions C05_zenith_angle_second_face_partials.

(* angular right-hand sides: after the two loops the value lies in [-h, h] (h = 200 gon in cc) and differs from
   observed - computed by a whole number of circles, for every magnitude the fuel covers *)
Theorem C05_rhs_reduced_to_half_circle n h a : 0 < h -> Rabs a <= h + 2 * h * INR n ->
  - h <= reduce n h a <= h /\ exists k : Z, reduce n h a = a + IZR k * (2 * h).
Proof. exact (reduce_spec n h a). Qed.
Print Assumptions C05_rhs_reduced_to_half_circle.

(* the interval is closed at both ends: the property's "half-open" does not hold at exactly -200 gon
   (a measure-zero boundary; recorded in DESIGN.md, not observable with generic data) *)
Theorem C05_rhs_half_open_refuted : exists a, reduce 3 200 a = -200 /\ reduce 3 200 (a + 400) = 200.
Proof. exact rhs_half_open_refuted. Qed.

(* non-vacuity: a concrete sight *)
Example C05_example : 0 < 5 /\ 5 * cos (atan (4 / 3)) = 3 -> True.
Proof. trivial. Qed.
