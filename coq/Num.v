(* Scalar interface: every numerical algorithm model is written once against [Ops T] and then
   (a) reasoned about at T := R, (b) executed at T := PrimFloat.float by vm_compute,
   (c) executed exactly at T := Q for certificate checks.  (DESIGN.md 1.2) *)
From Coq Require Import Reals List ZArith QArith Floats Bool Lia Lra.
Import ListNotations.

Record Ops (T : Type) := mkOps {
  zero : T; one : T;
  add : T -> T -> T; sub : T -> T -> T; mul : T -> T -> T; div : T -> T -> T;
  opp : T -> T; sqrt_ : T -> T; abs_ : T -> T;
  ltb : T -> T -> bool; leb : T -> T -> bool; eqb : T -> T -> bool;
  ofZ : Z -> T
}.
Arguments zero {T} _. Arguments one {T} _. Arguments add {T} _ _ _. Arguments sub {T} _ _ _.
Arguments mul {T} _ _ _. Arguments div {T} _ _ _. Arguments opp {T} _ _. Arguments sqrt_ {T} _ _.
Arguments abs_ {T} _ _. Arguments ltb {T} _ _ _. Arguments leb {T} _ _ _. Arguments eqb {T} _ _ _.
Arguments ofZ {T} _ _.

(* ---- reals (proofs only) ---- *)
Definition Rltb (x y : R) : bool := if Rlt_dec x y then true else false.
Definition Rleb (x y : R) : bool := if Rle_dec x y then true else false.
Definition Reqb (x y : R) : bool := if Req_EM_T x y then true else false.

Definition OpsR : Ops R :=
  mkOps R 0%R 1%R Rplus Rminus Rmult Rdiv Ropp R_sqrt.sqrt Rabs Rltb Rleb Reqb IZR.

Lemma Rltb_true x y : Rltb x y = true <-> (x < y)%R.
Proof. unfold Rltb; destruct (Rlt_dec x y); split; intros; auto; discriminate. Qed.
Lemma Rltb_false x y : Rltb x y = false <-> (y <= x)%R.
Proof. unfold Rltb; destruct (Rlt_dec x y); split; intros; auto; try discriminate; lra. Qed.
Lemma Rleb_true x y : Rleb x y = true <-> (x <= y)%R.
Proof. unfold Rleb; destruct (Rle_dec x y); split; intros; auto; discriminate. Qed.
Lemma Rleb_false x y : Rleb x y = false <-> (y < x)%R.
Proof. unfold Rleb; destruct (Rle_dec x y); split; intros; auto; try discriminate; lra. Qed.
Lemma Reqb_true x y : Reqb x y = true <-> x = y.
Proof. unfold Reqb; destruct (Req_EM_T x y); split; intros; auto; discriminate. Qed.
Lemma Reqb_false x y : Reqb x y = false <-> x <> y.
Proof. unfold Reqb; destruct (Req_EM_T x y); split; intros; auto; try discriminate; contradiction. Qed.

(* ---- binary64 (execution only) ---- *)
Definition OpsF : Ops float :=
  mkOps float 0%float 1%float PrimFloat.add PrimFloat.sub PrimFloat.mul PrimFloat.div
        PrimFloat.opp PrimFloat.sqrt PrimFloat.abs PrimFloat.ltb PrimFloat.leb PrimFloat.eqb
        (fun z => match z with
                  | Z0 => 0%float
                  | Zpos p => PrimFloat.of_uint63 (Uint63.of_Z (Zpos p))
                  | Zneg p => PrimFloat.opp (PrimFloat.of_uint63 (Uint63.of_Z (Zpos p)))
                  end).

(* ---- exact rationals (certificates, sqrt-free algorithms) ---- *)
Definition Qltb (x y : Q) : bool := negb (Qle_bool y x).
Definition OpsQ : Ops Q :=
  mkOps Q 0%Q 1%Q (fun x y => Qred (Qplus x y)) (fun x y => Qred (Qminus x y))
        (fun x y => Qred (Qmult x y)) (fun x y => Qred (Qdiv x y)) Qopp
        (fun x => x) (* no sqrt at Q: algorithms using it are never run at this instance *)
        Qabs.Qabs Qltb Qle_bool Qeq_bool inject_Z.

(* exact value of a (finite) binary64 as a rational *)
Definition float_to_Q (f : float) : option Q :=
  match Prim2SF f with
  | S754_zero _ => Some 0%Q
  | S754_finite s m e =>
      let v := match e with
               | Z0 => inject_Z (Zpos m)
               | Zpos p => inject_Z (Zpos m * 2 ^ Zpos p)
               | Zneg p => Qmake (Zpos m) (2 ^ p)%positive
               end in
      Some (Qred (if s then Qopp v else v))
  | _ => None
  end.

(* relative/absolute agreement used by every floating correspondence (DESIGN 1.3):
   |a-b| <= tol * max(1, scale) *)
Definition fclose (tol scale a b : float) : bool :=
  let s := if PrimFloat.ltb scale 1%float then 1%float else scale in
  PrimFloat.leb (PrimFloat.abs (PrimFloat.sub a b)) (PrimFloat.mul tol s).

Fixpoint fmaxabs (l : list float) : float :=
  match l with
  | [] => 0%float
  | x :: r => let m := fmaxabs r in let a := PrimFloat.abs x in if PrimFloat.ltb m a then a else m
  end.

Fixpoint fclose_list (tol scale : float) (a b : list float) : bool :=
  match a, b with
  | [], [] => true
  | x :: a', y :: b' => fclose tol scale x y && fclose_list tol scale a' b'
  | _, _ => false
  end.

Definition fclose_vec (tol : float) (a b : list float) : bool :=
  fclose_list tol (let m := fmaxabs a in let n := fmaxabs b in if PrimFloat.ltb m n then n else m) a b.

(* indices (from 0, as N) of the cases on which a boolean check fails; at most [cap] are kept
   so that a wholesale disagreement still prints quickly *)
Fixpoint failing_from {A} (cap : nat) (k : N) (f : A -> bool) (l : list A) : list N :=
  match cap with
  | O => []
  | S cap' =>
    match l with
    | [] => []
    | x :: r => if f x then failing_from cap (N.succ k) f r else k :: failing_from cap' (N.succ k) f r
    end
  end.
Definition failing {A} (f : A -> bool) (l : list A) : list N := failing_from 25 0%N f l.
