(* C18: geodetic primitives -- universal facts used by the property (Reals / Z). *)
From Coq Require Import Reals Lra ZArith Lia.
Local Open Scope R_scope.

(* bearing / distance: (s, d) with d cos s = dx, d sin s = dy.  Swapping the end points turns the bearing by pi and
   keeps the distance *)
Theorem bearing_antisymmetric s d dx dy :
  d * cos s = dx -> d * sin s = dy -> d * cos (s + PI) = - dx /\ d * sin (s + PI) = - dy.
Proof. intros Hc Hs. rewrite neg_cos, neg_sin. split; lra. Qed.

Theorem bearing_distance_consistent s d dx dy :
  0 <= d -> d * cos s = dx -> d * sin s = dy -> d = sqrt (dx ^ 2 + dy ^ 2).
Proof.
  intros Hd Hc Hs. subst dx dy.
  replace ((d * cos s) ^ 2 + (d * sin s) ^ 2) with (d ^ 2 * ((sin s)² + (cos s)²)) by (unfold Rsqr; ring).
  rewrite sin2_cos2, Rmult_1_r. replace (d ^ 2) with (Rsqr d) by (unfold Rsqr; ring). symmetry. apply sqrt_Rsqr. exact Hd.
Qed.

(* geodetic -> Cartesian: with N = A / sqrt (1 - e2 sin^2 b) and B^2 = A^2 (1 - e2), the point computed for h = 0 lies
   on the ellipsoid x^2/A^2 + y^2/A^2 + z^2/B^2 = 1 *)
Theorem blh2xyz_on_ellipsoid A e2 b l :
  0 < A -> 0 <= e2 < 1 ->
  let W := sqrt (1 - e2 * (sin b) ^ 2) in let N := A / W in
  let x := N * cos b * cos l in let y := N * cos b * sin l in let z := N * (1 - e2) * sin b in
  (x ^ 2 + y ^ 2) / A ^ 2 + z ^ 2 / (A ^ 2 * (1 - e2)) = 1.
Proof.
  intros HA [He0 He1] W N x y z.
  assert (Hs : 0 <= (sin b) ^ 2 <= 1).
  { pose proof (SIN_bound b) as [H1 H2]. split; nra. }
  assert (Hw : 0 < 1 - e2 * (sin b) ^ 2) by nra.
  assert (HW2 : W ^ 2 = 1 - e2 * (sin b) ^ 2).
  { unfold W. rewrite <- Rsqr_pow2. apply Rsqr_sqrt. lra. }
  assert (HW : 0 < W) by (unfold W; apply sqrt_lt_R0; exact Hw).
  assert (Hcl : (cos l) ^ 2 + (sin l) ^ 2 = 1) by (pose proof (sin2_cos2 l) as H; unfold Rsqr in H; lra).
  assert (Hcb : (cos b) ^ 2 = 1 - (sin b) ^ 2) by (pose proof (sin2_cos2 b) as H; unfold Rsqr in H; lra).
  unfold x, y, z, N.
  replace ((A / W * cos b * cos l) ^ 2 + (A / W * cos b * sin l) ^ 2) with (A ^ 2 / W ^ 2 * (cos b) ^ 2 * ((cos l) ^ 2 + (sin l) ^ 2)) by (field; lra).
  rewrite Hcl, Hcb.
  replace ((A / W * (1 - e2) * sin b) ^ 2) with (A ^ 2 / W ^ 2 * (1 - e2) ^ 2 * (sin b) ^ 2) by (field; lra).
  rewrite HW2. field. split; lra.
Qed.

(* the height is recovered exactly from the true latitude: p = (N + h) cos b *)
Theorem height_formula_exact N h cb p : cb <> 0 -> p = (N + h) * cb -> p / cb - N = h.
Proof. intros Hc ->. field. exact Hc. Qed.

(* sexagesimal fields of a non-negative angle given as a whole number T of units u = 10^prec per arcsecond:
   the decomposition by integer division has valid field ranges and reproduces T (this is what the carry in
   gon2deg restores) *)
Local Open Scope Z_scope.
Theorem dms_fields_in_range (T u : Z) : 0 <= T -> 0 < u ->
  let d := T / (3600 * u) in let m := (T / (60 * u)) mod 60 in let s := T mod (60 * u) in
  0 <= d /\ 0 <= m < 60 /\ 0 <= s < 60 * u /\ T = (d * 3600 + m * 60) * u + s.
Proof.
  intros HT Hu d m s.
  assert (H1 : 0 < 60 * u) by lia. assert (H2 : 0 < 3600 * u) by lia.
  pose proof (Z.div_mod T (60 * u) ltac:(lia)) as E1.
  pose proof (Z.mod_pos_bound T (60 * u) H1) as B1.
  pose proof (Z.div_mod (T / (60 * u)) 60 ltac:(lia)) as E2.
  pose proof (Z.mod_pos_bound (T / (60 * u)) 60 ltac:(lia)) as B2.
  assert (E3 : T / (60 * u) / 60 = T / (3600 * u)).
  { rewrite Z.div_div by lia. f_equal. lia. }
  unfold d, m, s. rewrite <- E3.
  assert (0 <= T / (60 * u)) by (apply Z.div_pos; lia).
  assert (0 <= T / (60 * u) / 60) by (apply Z.div_pos; lia).
  repeat split; try lia.
Qed.

(* ---------- Bowring's closed formula is exact on the ellipsoid ---------- *)
(* A point of the meridian ellipse is (p, z) = (a cos u, b sin u), u its parametric latitude; its geodetic latitude phi
   satisfies tan phi = (a / b) tan u.  Ellipsoid::xyz2blh computes tan u = (a/b) z/p -- exact for h = 0 -- and then
   atan2 (z + e'^2 b sin^3 u, p - e^2 a cos^3 u); the two arguments are in the ratio (a sin u) : (b cos u), i.e. the
   formula returns phi exactly for every point of the ellipsoid (the truncation error appears only with the height). *)
From Coq Require Import Nsatz.
Local Open Scope R_scope.
Theorem bowring_exact_on_the_ellipsoid (a b u : R) : 0 < a -> 0 < b ->
  let e2 := (a * a - b * b) / (a * a) in
  let e22 := (a * a - b * b) / (b * b) in
  let p := a * cos u in let z := b * sin u in
  (z + e22 * b * (sin u * sin u) * sin u) * (b * cos u) = (p - e2 * a * (cos u * cos u) * cos u) * (a * sin u).
Proof.
  intros Ha Hb. cbv zeta.
  pose proof (sin2_cos2 u) as T. unfold Rsqr in T.
  set (s := sin u) in *. set (c := cos u) in *.
  assert (Ea : a * a <> 0) by nra. assert (Eb : b * b <> 0) by nra.
  field_simplify_eq; [|split; lra].
  apply Rminus_diag_uniq.
  replace (- b ^ 2 * s ^ 3 * c + b ^ 2 * s * c + s ^ 3 * a ^ 2 * c - (b ^ 2 * s * c ^ 3 - s * a ^ 2 * c ^ 3 + s * a ^ 2 * c))
    with (s * c * (a ^ 2 - b ^ 2) * (s * s + c * c - 1)) by ring.
  rewrite T. ring.
Qed.

(* the parametric latitude the code starts from is the true one when h = 0 *)
Theorem bowring_parametric_latitude_exact (a b u : R) : 0 < a -> 0 < b -> cos u <> 0 ->
  a / b * (b * sin u) / (a * cos u) = tan u.
Proof. intros Ha Hb Hc. unfold tan. field. repeat split; lra. Qed.
