(* Specification-level least squares theory over an arbitrary real field (MathComp matrices).
   Used by C01, C02, C03, C06, C07, C08, C09, C10, C19, C20. *)
From mathcomp Require Import all_ssreflect all_algebra.
Set Implicit Arguments.
Unset Strict Implicit.
Unset Printing Implicit Defensive.
Import Order.TotalTheory Order.POrderTheory GRing.Theory Num.Theory.
Local Open Scope ring_scope.

Section QuadForm.
Variable F : realFieldType.
Variable m : nat.
Implicit Types (P : 'M[F]_m) (u w : 'cV[F]_m).

Definition sc (M : 'M[F]_1) : F := M 0 0.
Lemma scD (M N : 'M[F]_1) : sc (M + N) = sc M + sc N. Proof. by rewrite /sc mxE. Qed.
Lemma scN (M : 'M[F]_1) : sc (- M) = - sc M. Proof. by rewrite /sc mxE. Qed.
Lemma scT (M : 'M[F]_1) : sc M^T = sc M. Proof. by rewrite /sc mxE. Qed.
Lemma sc0 : sc 0 = 0. Proof. by rewrite /sc mxE. Qed.
Lemma scZ (a : F) (M : 'M[F]_1) : sc (a *: M) = a * sc M. Proof. by rewrite /sc mxE. Qed.

Definition bil P u w : F := sc (u^T *m P *m w).
Definition qf P u : F := bil P u u.

Lemma bil_sym P u w : P^T = P -> bil P u w = bil P w u.
Proof.
move=> Ps; rewrite /bil -scT !trmx_mul trmxK Ps mulmxA //.
Qed.

Lemma bilDl P u1 u2 w : bil P (u1 + u2) w = bil P u1 w + bil P u2 w.
Proof. by rewrite /bil linearD /= !mulmxDl scD. Qed.
Lemma bilDr P u w1 w2 : bil P u (w1 + w2) = bil P u w1 + bil P u w2.
Proof. by rewrite /bil mulmxDr scD. Qed.
Lemma bilNl P u w : bil P (- u) w = - bil P u w.
Proof. by rewrite /bil linearN /= !mulNmx scN. Qed.
Lemma bilNr P u w : bil P u (- w) = - bil P u w.
Proof. by rewrite /bil mulmxN scN. Qed.
Lemma bil0r P u : bil P u 0 = 0. Proof. by rewrite /bil mulmx0 sc0. Qed.
Lemma bil0l P w : bil P 0 w = 0. Proof. by rewrite /bil trmx0 !mul0mx sc0. Qed.

Lemma qfD P u w : P^T = P -> qf P (u + w) = qf P u + 2%:R * bil P w u + qf P w.
Proof.
move=> Ps; rewrite /qf bilDl !bilDr (bil_sym u w Ps) mulr2n mulrDl !mul1r.
by rewrite !addrA.
Qed.
End QuadForm.

Section Lsq.
Variable F : realFieldType.
Variables m n : nat.
Variable A : 'M[F]_(m,n).
Variable P : 'M[F]_m.
Variable b : 'cV[F]_m.
Implicit Types (x y g : 'cV[F]_n).

Definition res x : 'cV[F]_m := A *m x - b.
Definition wss x : F := qf P (res x).
Definition normal_eq x : Prop := A^T *m P *m res x = 0.
Definition psd : Prop := forall v : 'cV[F]_m, 0 <= qf P v.
Definition pd : Prop := forall v : 'cV[F]_m, qf P v = 0 -> v = 0.

Lemma res_diff x y : res y = res x + A *m (y - x).
Proof. by rewrite /res mulmxBr [RHS]addrC addrA subrK. Qed.

Lemma bil_grad x d : bil P (A *m d) (res x) = sc (d^T *m (A^T *m P *m res x)).
Proof. by rewrite /bil trmx_mul !mulmxA. Qed.

(* exact expansion of the objective around any point *)
Lemma wss_expand x y : P^T = P ->
  wss y = wss x + 2%:R * sc ((y - x)^T *m (A^T *m P *m res x)) + qf P (A *m (y - x)).
Proof. by move=> Ps; rewrite /wss (res_diff x y) qfD // bil_grad. Qed.

(* C01: the normal equations characterise the minimum *)
Theorem normal_eq_minimises x : P^T = P -> psd -> normal_eq x -> forall y, wss x <= wss y.
Proof.
move=> Ps Pp Hn y; rewrite (wss_expand x y Ps) Hn mulmx0 sc0 mulr0 addr0.
by rewrite ler_addl; apply: Pp.
Qed.

(* C02/C08: all solutions of the normal equations have the same residuals (weights positive definite) *)
Theorem minimisers_same_residuals x y : P^T = P -> psd -> pd ->
  normal_eq x -> normal_eq y -> res x = res y.
Proof.
move=> Ps Pp Pd Hx Hy.
have E := wss_expand x y Ps; rewrite Hx mulmx0 sc0 mulr0 addr0 in E.
have E' := wss_expand y x Ps; rewrite Hy mulmx0 sc0 mulr0 addr0 in E'.
have S : qf P (A *m (x - y)) + qf P (A *m (y - x)) = 0.
  move: E; rewrite E' -addrA => /eqP.
  by rewrite -{1}[wss y]addr0 => /eqP /addrI.
have H0 : qf P (A *m (y - x)) = 0.
  move/eqP: S; rewrite paddr_eq0; [by case/andP=> _ /eqP | exact: Pp | exact: Pp].
have Z := Pd _ H0.
by rewrite (res_diff x y) Z addr0.
Qed.
End Lsq.

Section MinNorm.
Variable F : realFieldType.
Variables m n : nat.
Variable A : 'M[F]_(m,n).
Variable P : 'M[F]_m.
Variable b : 'cV[F]_m.
Variable S : 'M[F]_n.     (* selects the coordinates whose corrections are to be minimal *)
Hypothesis Ps : P^T = P.
Hypothesis Pp : psd P.
Hypothesis Pd : pd P.
Hypothesis Ss : S^T = S.
Hypothesis Sp : forall g : 'cV[F]_n, 0 <= qf S g.

Definition null_orthogonal (x : 'cV[F]_n) : Prop := forall g : 'cV[F]_n, A *m g = 0 -> bil S g x = 0.
Definition resolves_defect : Prop := forall g : 'cV[F]_n, A *m g = 0 -> qf S g = 0 -> g = 0.

Lemma minimisers_differ_in_null x y :
  normal_eq A P b x -> normal_eq A P b y -> A *m (y - x) = 0.
Proof.
move=> Hx Hy; have E := minimisers_same_residuals Ps Pp Pd Hx Hy.
move: (res_diff A b x y); rewrite -E => /eqP.
by rewrite -{1}[res A b x]addr0 => /eqP /addrI.
Qed.

(* C01/C08: a minimiser orthogonal (in the S inner product) to the null space of A has the smallest
   S-norm among all minimisers *)
Theorem null_orthogonal_is_minnorm x y :
  normal_eq A P b x -> normal_eq A P b y -> null_orthogonal x -> qf S x <= qf S y.
Proof.
move=> Hx Hy Ho; have Hg := minimisers_differ_in_null Hx Hy.
have -> : y = x + (y - x) by rewrite addrC subrK.
by rewrite qfD // (Ho _ Hg) mulr0 addr0 ler_addl; apply: Sp.
Qed.

(* C02: if the selection resolves the defect, the minimum-norm minimiser is unique *)
Theorem minnorm_unique x y : resolves_defect ->
  normal_eq A P b x -> normal_eq A P b y -> null_orthogonal x -> null_orthogonal y -> x = y.
Proof.
move=> Hr Hx Hy Hox Hoy; have Hg := minimisers_differ_in_null Hx Hy.
have Q0 : qf S (y - x) = 0.
  by rewrite /qf bilDr bilNr (Hox _ Hg) (Hoy _ Hg) subrr.
by move: (Hr _ Hg Q0) => /eqP; rewrite subr_eq0 => /eqP.
Qed.

(* C08: the adjusted observations A x (hence residuals and the sum of squares) do not depend on the
   regularisation at all *)
Theorem datum_invariance x y :
  normal_eq A P b x -> normal_eq A P b y -> A *m x = A *m y /\ wss A P b x = wss A P b y.
Proof.
move=> Hx Hy; have Hg := minimisers_differ_in_null Hx Hy.
split; last by rewrite /wss (minimisers_same_residuals Ps Pp Pd Hx Hy).
by move/eqP: Hg; rewrite mulmxBr subr_eq0 => /eqP.
Qed.
End MinNorm.

Section Transformations.
Variable F : realFieldType.
Variables m n : nat.
Variable A : 'M[F]_(m,n).
Variable P : 'M[F]_m.
Variable b : 'cV[F]_m.

(* C06: consistent observations (zero right-hand side) are solved by the zero correction, with zero residuals *)
Theorem zero_rhs_zero_solution : b = 0 -> normal_eq A P b 0 /\ res A b 0 = 0 /\ wss A P b 0 = 0.
Proof.
move=> ->; rewrite /normal_eq /wss /res mulmx0 subr0 mulmx0; split=> //; split=> //.
by rewrite /qf bil0r.
Qed.

(* C13: a stationary point (A' P b = 0) needs no correction *)
Theorem stationary_point_zero_correction : A^T *m P *m b = 0 -> normal_eq A P b 0.
Proof. by move=> H; rewrite /normal_eq /res mulmx0 sub0r mulmxN H oppr0. Qed.

(* C09: changing the a priori reference deviation multiplies all weights by a common factor: same minimisers,
   sum of squares scaled *)
Theorem weight_scaling (k : F) x : k != 0 ->
  (normal_eq A (k *: P) b x <-> normal_eq A P b x) /\ wss A (k *: P) b x = k * wss A P b x.
Proof.
move=> k0; split; last by rewrite /wss /qf /bil -scalemxAr -scalemxAl scZ.
rewrite /normal_eq -scalemxAr -scalemxAl; split=> [/eqP|->]; last by rewrite scaler0.
by rewrite scaler_eq0 (negbTE k0) /= => /eqP.
Qed.

(* C10: weighting by a full covariance matrix = ordinary least squares on the whitened system *)
Theorem whitening_equiv (W : 'M[F]_m) x : P = W^T *m W ->
  (normal_eq (W *m A) 1%:M (W *m b) x <-> normal_eq A P b x) /\
  wss (W *m A) 1%:M (W *m b) x = wss A P b x /\
  res (W *m A) (W *m b) x = W *m res A b x.
Proof.
move=> ->; have R : res (W *m A) (W *m b) x = W *m res A b x.
  by rewrite /res mulmxBr mulmxA.
split; [|split=> //].
  by rewrite /normal_eq R trmx_mul mulmx1 !mulmxA.
by rewrite /wss /qf /bil R mulmx1 trmx_mul !mulmxA.
Qed.

(* C07: reordering observations (any orthogonal row transformation R, in particular a permutation,
   applied consistently to A, b and the weight matrix) does not change the normal equations *)
Theorem row_transformation_equivariant (R : 'M[F]_m) x : R^T *m R = 1%:M ->
  (normal_eq (R *m A) (R *m P *m R^T) (R *m b) x <-> normal_eq A P b x) /\
  wss (R *m A) (R *m P *m R^T) (R *m b) x = wss A P b x.
Proof.
move=> RR; have E : res (R *m A) (R *m b) x = R *m res A b x by rewrite /res mulmxBr mulmxA.
split.
  rewrite /normal_eq E trmx_mul.
  have -> : A^T *m R^T *m (R *m P *m R^T) *m (R *m res A b x) = A^T *m (R^T *m R) *m P *m (R^T *m R) *m res A b x.
    by rewrite !mulmxA.
  by rewrite RR !mulmx1.
rewrite /wss /qf /bil E trmx_mul.
have -> : (res A b x)^T *m R^T *m (R *m P *m R^T) *m (R *m res A b x)
          = (res A b x)^T *m (R^T *m R) *m P *m (R^T *m R) *m res A b x by rewrite !mulmxA.
by rewrite RR !mulmx1.
Qed.

(* C07: renaming / reordering / mirroring the unknowns (any invertible column transformation T) maps
   minimisers to minimisers with identical residuals *)
Theorem column_transformation_equivariant (T : 'M[F]_n) x : T \in unitmx ->
  (normal_eq A P b x -> normal_eq (A *m T) P b (invmx T *m x)) /\
  res (A *m T) b (invmx T *m x) = res A b x.
Proof.
move=> Tu; have E : res (A *m T) b (invmx T *m x) = res A b x.
  by rewrite /res -mulmxA [T *m _]mulmxA mulmxV // mul1mx.
split=> // H.
by rewrite /normal_eq E trmx_mul -!mulmxA [A^T *m _]mulmxA H mulmx0.
Qed.
End Transformations.

Section Cofactors.
Variable F : realFieldType.
Variables m n : nat.
Variable A : 'M[F]_(m,n).       (* homogenised design matrix (unit weights) *)
Let N : 'M[F]_n := A^T *m A.
Variable Q : 'M[F]_n.
Hypothesis Qs : Q^T = Q.
Hypothesis QNQ : Q *m N *m Q = Q.

Definition hat : 'M[F]_m := A *m Q *m A^T.

Lemma hat_sym : hat^T = hat.
Proof. by rewrite /hat !trmx_mul trmxK Qs mulmxA. Qed.

Lemma hat_idem : hat *m hat = hat.
Proof.
rewrite /hat; have -> : A *m Q *m A^T *m (A *m Q *m A^T) = A *m (Q *m (A^T *m A) *m Q) *m A^T by rewrite !mulmxA.
by rewrite -/N QNQ.
Qed.

(* C03: cofactors of adjusted observations form a projector: diagonal in [0,1] *)
Theorem hat_diag_range i : 0 <= hat i i <= 1.
Proof.
have E : hat i i = \sum_j hat i j ^+ 2.
  rewrite -{1}hat_idem mxE; apply: eq_bigr => j _.
  have -> : hat j i = hat i j by rewrite -{1}hat_sym mxE.
  by rewrite expr2.
have H0 : 0 <= hat i i by rewrite E; apply: sumr_ge0 => j _; apply: sqr_ge0.
rewrite H0 /=.
have H2 : hat i i ^+ 2 <= hat i i.
  rewrite {2}E (bigD1 i) //= ler_addl; apply: sumr_ge0 => j _; apply: sqr_ge0.
case: (lerP (hat i i) 1) => // H1.
have: hat i i * 1 < hat i i * hat i i by rewrite ltr_pmul2l // (lt_trans ltr01 H1).
by rewrite mulr1 -expr2 ltNge H2.
Qed.

(* C03: redundancy numbers sum to m - tr(Q N) *)
Theorem hat_trace : \tr hat = \tr (Q *m N).
Proof. by rewrite /hat -mulmxA mxtrace_mulC mulmxA. Qed.

(* C03: transforming a g-inverse of N by T with N T = N (T = I - G G' S, A G = 0) gives a reflexive
   g-inverse again: the cofactors of x = T x0 *)
Theorem ginv_transform (Q0 T : 'M[F]_n) : N *m Q0 *m N = N -> Q0 *m N *m Q0 = Q0 -> N *m T = N -> N^T = N ->
  let Q' := T *m Q0 *m T^T in N *m Q' *m N = N /\ Q' *m N *m Q' = Q'.
Proof.
move=> NQN Q0NQ0 NT Ns Q'.
have TN : T^T *m N = N by rewrite -{1}Ns -trmx_mul NT Ns.
split.
  have -> : N *m Q' *m N = (N *m T) *m Q0 *m (T^T *m N) by rewrite /Q' !mulmxA.
  by rewrite NT TN.
have -> : Q' *m N *m Q' = T *m (Q0 *m ((T^T *m N) *m T) *m Q0) *m T^T by rewrite /Q' !mulmxA.
by rewrite TN NT Q0NQ0.
Qed.
End Cofactors.
