(* C09 -- reported statistics are consistent with the adjustment they describe: property theorems only. *)
From mathcomp Require Import all_ssreflect all_algebra.
From mathcomp Require Import ring.
From Gama Require Import LsqSpec.
Import GRing.Theory Num.Theory.
Local Open Scope ring_scope.

(* changing only the a priori reference deviation multiplies every weight by the same k = (m0'/m0)^2:
   the minimisers are the same and v'Pv is multiplied by k *)
Theorem C09_sigma_apr_rescales_only_the_sum_of_squares (F : realFieldType) (m n : nat) (A : 'M[F]_(m,n))
  (P : 'M[F]_m) (b : 'cV[F]_m) (k : F) (x : 'cV[F]_n) : k != 0 ->
  (normal_eq A (k *: P) b x <-> normal_eq A P b x) /\ wss A (k *: P) b x = k * wss A P b x.
Proof. exact: weight_scaling. Qed.
Print Assumptions C09_sigma_apr_rescales_only_the_sum_of_squares.

(* for the homogenised system (unit weights) the cofactors of the residuals are I - H, H = A Q A' the projector:
   for uncorrelated observations this is  q_vv = 1/p - q_L  after de-homogenisation; here: residual cofactors
   are the complementary projector, with diagonal in [0,1] *)
Theorem C09_residual_cofactors_complementary_projector (F : realFieldType) (m n : nat)
  (A : 'M[F]_(m,n)) (Q : 'M[F]_n) : Q^T = Q -> Q *m (A^T *m A) *m Q = Q ->
  (1%:M - hat A Q) *m (1%:M - hat A Q) = 1%:M - hat A Q /\ forall i, 0 <= (1%:M - hat A Q) i i <= 1.
Proof.
move=> Qs QNQ; split.
  by rewrite mulmxBl !mulmxBr !mulmx1 mul1mx (hat_idem QNQ) subrr subr0.
move=> i; have /andP [H0 H1] := hat_diag_range Qs QNQ i.
have E : (1%:M - hat A Q) i i = 1 - hat A Q i i by rewrite mxE [X in _ + X]mxE [X in X + _]mxE eqxx.
by rewrite E subr_ge0 H1 /= ler_subl_addr ler_addl H0.
Qed.
Print Assumptions C09_residual_cofactors_complementary_projector.

(* error ellipse: for a symmetric 2x2 cofactor block [[a, c], [c, b]] the numbers
   l1, l2 = ((a+b) +- s)/2 with s^2 = (a-b)^2 + 4 c^2 are its eigenvalues (sum = trace, product = determinant),
   and for an angle al with s cos 2al = a - b, s sin 2al = 2c (what atan2(2c, a-b)/2 delivers), written with
   u = cos al, w = sin al, the direction (u, w) is an eigenvector of the larger eigenvalue *)
Theorem C09_ellipse_semi_axes_are_eigenvalues (F : realFieldType) (a b c s : F) :
  s ^+ 2 = (a - b) ^+ 2 + 4%:R * c ^+ 2 ->
  let l1 := (a + b + s) / 2%:R in let l2 := (a + b - s) / 2%:R in
  l1 + l2 = a + b /\ l1 * l2 = a * b - c * c.
Proof.
move=> Hs l1 l2; split; first by rewrite /l1 /l2; field.
have -> : l1 * l2 = ((a + b) ^+ 2 - s ^+ 2) / 4%:R by rewrite /l1 /l2; field.
by rewrite Hs; field.
Qed.
Print Assumptions C09_ellipse_semi_axes_are_eigenvalues.

Theorem C09_ellipse_bearing_is_eigenvector (F : realFieldType) (a b c s u w : F) :
  u ^+ 2 + w ^+ 2 = 1 -> s * (u ^+ 2 - w ^+ 2) = a - b -> s * (2%:R * u * w) = 2%:R * c ->
  let l1 := (a + b + s) / 2%:R in
  a * u + c * w = l1 * u /\ c * u + b * w = l1 * w.
Proof.
move=> H1 H2 H3 l1; rewrite /l1.
have Ha : a = b + s * (u ^+ 2 - w ^+ 2) by rewrite H2; ring.
have Hc : c = s * u * w by apply: (mulfI (x := 2%:R)); rewrite ?pnatr_eq0 // -H3; ring.
have Hw : w ^+ 2 = 1 - u ^+ 2 by rewrite -H1; ring.
split.
- rewrite Ha Hc.
  have -> : (b + s * (u ^+ 2 - w ^+ 2)) * u + s * u * w * w = b * u + s * u * (u ^+ 2 - w ^+ 2 + w ^+ 2) by ring.
  have -> : (b + s * (u ^+ 2 - w ^+ 2) + b + s) / 2%:R * u = b * u + s * u * ((u ^+ 2 - w ^+ 2 + 1) / 2%:R) by field.
  by rewrite Hw; field.
- rewrite Ha Hc.
  have -> : s * u * w * u + b * w = b * w + s * w * (u ^+ 2) by ring.
  have -> : (b + s * (u ^+ 2 - w ^+ 2) + b + s) / 2%:R * w = b * w + s * w * ((u ^+ 2 - w ^+ 2 + 1) / 2%:R) by field.
  by rewrite Hw; field.
Qed.
Print Assumptions C09_ellipse_bearing_is_eigenvector.
