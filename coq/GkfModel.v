(* C11: tag-level model of an expat-driven parser.
   Generic part (no reference to the generated tables):
     - documents as trees, their event streams (open / close / non-blank text),
     - a grammar given by per-element content models (small deterministic automata over child tags),
     - the tree validator of the grammar, the stack machine of the grammar, and the theorem that the stack
       machine accepts the event stream of a tree exactly when the validator accepts the tree;
     - grammar inclusion by a simulation between content-model states.
   GkfProofs.v instantiates it with the tables regenerated from gkfparser.cpp (GkfGen.v). *)
From Coq Require Import List Bool Arith Lia.
Import ListNotations.

Section Grammar.
Variable T : Type.

Inductive node := Elt (t : T) (cs : list node) | Txt.
Inductive ev := Open (t : T) | Close | Text.

Section node_ind2.
  Variable P : node -> Prop.
  Hypothesis HT : P Txt.
  Hypothesis HE : forall t cs, Forall P cs -> P (Elt t cs).
  Fixpoint node_ind2 (n : node) : P n :=
    match n with
    | Txt => HT
    | Elt t cs => HE t cs ((fix f (l : list node) : Forall P l :=
                              match l with [] => Forall_nil P | c :: r => Forall_cons c (node_ind2 c) (f r) end) cs)
    end.
End node_ind2.

Fixpoint flat (n : node) : list ev :=
  match n with
  | Txt => [Text]
  | Elt t cs => Open t :: (fix fk (l : list node) : list ev := match l with [] => [Close] | c :: r => flat c ++ fk r end) cs
  end.
Fixpoint fkids (l : list node) : list ev := match l with [] => [Close] | c :: r => flat c ++ fkids r end.
Lemma flat_elt t cs : flat (Elt t cs) = Open t :: fkids cs.
Proof. reflexivity. Qed.

(* context: None = the document itself, Some t = inside element t *)
Definition ctx := option T.
Record grammar := {
  cm : ctx -> nat -> T -> option nat;      (* content model: state -> child tag -> next state *)
  fin : ctx -> nat -> bool;                (* may the element end here *)
  txt : ctx -> bool }.                     (* is non-blank text allowed *)

Variable G : grammar.

Fixpoint vnode (n : node) : bool :=
  match n with
  | Txt => true
  | Elt t cs =>
    (fix vk (q : nat) (l : list node) : bool :=
       match l with
       | [] => fin G (Some t) q
       | Txt :: r => txt G (Some t) && vk q r
       | (Elt t' _ as c) :: r => match cm G (Some t) q t' with Some q' => vnode c && vk q' r | None => false end
       end) 0 cs
  end.
Fixpoint vkids (c : ctx) (q : nat) (l : list node) : bool :=
  match l with
  | [] => fin G c q
  | Txt :: r => txt G c && vkids c q r
  | (Elt t' _ as n) :: r => match cm G c q t' with Some q' => vnode n && vkids c q' r | None => false end
  end.
Lemma vnode_elt t cs : vnode (Elt t cs) = vkids (Some t) 0 cs.
Proof.
  simpl. generalize 0. induction cs as [|c r IH]; intro q; simpl; [reflexivity|].
  destruct c as [t' cs'|]; [destruct (cm G (Some t) q t'); [rewrite IH|]; reflexivity | now rewrite IH].
Qed.

Lemma vkids_cons_elt c q t cs r :
  vkids c q (Elt t cs :: r) = match cm G c q t with Some q' => vnode (Elt t cs) && vkids c q' r | None => false end.
Proof. reflexivity. Qed.
Lemma vkids_cons_txt c q r : vkids c q (Txt :: r) = txt G c && vkids c q r.
Proof. reflexivity. Qed.

(* a document: one root element, validated in the document context *)
Definition vdoc (d : node) : bool :=
  match d with
  | Elt t _ => match cm G None 0 t with Some q' => vnode d && fin G None q' | None => false end
  | Txt => false
  end.

(* ---- the stack machine ---- *)
Definition stack := list (ctx * nat).
Definition sstep (k : stack) (e : ev) : option stack :=
  match k with
  | [] => None
  | (c, q) :: rest =>
    match e with
    | Open t => match cm G c q t with Some q' => Some ((Some t, 0) :: (c, q') :: rest) | None => None end
    | Close => match rest with [] => None | _ => if fin G c q then Some rest else None end
    | Text => if txt G c then Some k else None
    end
  end.
Fixpoint smrun (k : option stack) (w : list ev) : option stack :=
  match w with
  | [] => k
  | e :: w' => match k with None => None | Some k' => smrun (sstep k' e) w' end
  end.
Lemma smrun_none w : smrun None w = None.
Proof. destruct w; reflexivity. Qed.
Lemma smrun_app k w1 w2 : smrun k (w1 ++ w2) = smrun (smrun k w1) w2.
Proof. revert k; induction w1 as [|e w IH]; intro k; simpl; [reflexivity|]. destruct k; [apply IH | now rewrite smrun_none]. Qed.

(* the children of an open element, then its end tag *)
Lemma smrun_kids : forall (l : list node), Forall (fun n => forall c q rest w,
      smrun (Some ((c, q) :: rest)) (flat n ++ w) =
      match n with
      | Txt => if txt G c then smrun (Some ((c, q) :: rest)) w else None
      | Elt t _ => match cm G c q t with
                   | Some q' => if vnode n then smrun (Some ((c, q') :: rest)) w else None
                   | None => None end
      end) l ->
  forall c q rest w, rest <> [] ->
    smrun (Some ((c, q) :: rest)) (fkids l ++ w) = if vkids c q l then smrun (Some rest) w else None.
Proof.
  induction l as [|n r IH]; intros HF c q rest w Hr.
  - simpl. destruct rest as [|f rest']; [contradiction|]. destruct (fin G c q); [reflexivity | now rewrite smrun_none].
  - inversion HF as [|n' r' Hn Hrest]; subst. simpl fkids. rewrite <- app_assoc. rewrite Hn.
    destruct n as [t cs|].
    + rewrite vkids_cons_elt. destruct (cm G c q t) as [q'|]; [|reflexivity].
      destruct (vnode (Elt t cs)); [|reflexivity]. rewrite andb_true_l. apply IH; assumption.
    + rewrite vkids_cons_txt. destruct (txt G c); [|reflexivity]. rewrite andb_true_l. apply IH; assumption.
Qed.

Lemma smrun_node : forall n c q rest w,
  smrun (Some ((c, q) :: rest)) (flat n ++ w) =
  match n with
  | Txt => if txt G c then smrun (Some ((c, q) :: rest)) w else None
  | Elt t _ => match cm G c q t with
               | Some q' => if vnode n then smrun (Some ((c, q') :: rest)) w else None
               | None => None end
  end.
Proof.
  induction n as [|t cs IH] using node_ind2; intros c q rest w.
  - simpl. destruct (txt G c); [reflexivity | now rewrite smrun_none].
  - rewrite flat_elt. simpl app. simpl smrun. destruct (cm G c q t) as [q'|]; [|now rewrite smrun_none].
    rewrite vnode_elt. apply smrun_kids; [exact IH | discriminate].
Qed.

(* the stack machine accepts the event stream of a document exactly when the validator accepts the tree *)
Definition sm_accepts (w : list ev) : bool :=
  match smrun (Some [(None, 0)]) w with Some [(None, q)] => fin G None q | _ => false end.

(* (a well-formed XML document has exactly one root element) *)
Theorem sm_accepts_flat t cs : sm_accepts (flat (Elt t cs)) = vdoc (Elt t cs).
Proof.
  unfold sm_accepts. rewrite <- (app_nil_r (flat (Elt t cs))). rewrite smrun_node. unfold vdoc.
  destruct (cm G None 0 t) as [q'|]; [|reflexivity]. destruct (vnode (Elt t cs)); reflexivity.
Qed.
End Grammar.

Arguments Elt {T}. Arguments Txt {T}. Arguments Open {T}. Arguments Close {T}. Arguments Text {T}.
Arguments flat {T}. Arguments fkids {T}. Arguments vnode {T}. Arguments vkids {T}. Arguments vdoc {T}.
Arguments sstep {T}. Arguments smrun {T}. Arguments sm_accepts {T}. Arguments cm {T}. Arguments fin {T}. Arguments txt {T}.
Arguments Build_grammar {T}.

(* ---- grammar inclusion: every tree valid for G1 is valid for G2, given a simulation between content-model states ---- *)
Section Inclusion.
Variable T : Type.
Variables G1 G2 : grammar T.
Variable rel : ctx T -> nat -> nat -> Prop.
Hypothesis rel0 : forall t, rel (Some t) 0 0.
Hypothesis rel_cm : forall c q1 q2 t q1', rel c q1 q2 -> cm G1 c q1 t = Some q1' -> exists q2', cm G2 c q2 t = Some q2' /\ rel c q1' q2'.
Hypothesis rel_fin : forall c q1 q2, rel c q1 q2 -> fin G1 c q1 = true -> fin G2 c q2 = true.
Hypothesis rel_txt : forall c, txt G1 c = true -> txt G2 c = true.

Lemma vkids_incl : forall l, Forall (fun n => vnode G1 n = true -> vnode G2 n = true) l ->
  forall c q1 q2, rel c q1 q2 -> vkids G1 c q1 l = true -> vkids G2 c q2 l = true.
Proof.
  induction l as [|n r IH]; intros HF c q1 q2 R H; simpl in *.
  - eapply rel_fin; eassumption.
  - inversion HF as [|n' r' Hn Hr]; subst. destruct n as [t cs|].
    + destruct (cm G1 c q1 t) as [q1'|] eqn:E; [|discriminate].
      destruct (rel_cm _ _ _ _ _ R E) as [q2' [E2 R']]. rewrite E2.
      apply andb_true_iff in H. destruct H as [H1 H2]. apply andb_true_iff. split; [apply Hn; exact H1 | eapply IH; eassumption].
    + apply andb_true_iff in H. destruct H as [H1 H2]. apply andb_true_iff. split; [apply rel_txt; exact H1 | eapply IH; eassumption].
Qed.

Theorem vnode_incl : forall n, vnode G1 n = true -> vnode G2 n = true.
Proof.
  induction n as [|t cs IH] using node_ind2; [reflexivity|].
  rewrite !vnode_elt. apply vkids_incl; [exact IH | apply rel0].
Qed.

Hypothesis rel_root : rel None 0 0.
Theorem vdoc_incl d : vdoc G1 d = true -> vdoc G2 d = true.
Proof.
  destruct d as [t cs|]; simpl; [|discriminate].
  destruct (cm G1 None 0 t) as [q1'|] eqn:E; [|discriminate].
  destruct (rel_cm _ _ _ _ _ rel_root E) as [q2' [E2 R']]. rewrite E2. intro H.
  apply andb_true_iff in H. destruct H as [H1 H2]. apply andb_true_iff. split.
  - apply (vnode_incl (Elt t cs)). exact H1.
  - eapply rel_fin; eassumption.
Qed.
End Inclusion.

(* ---- inclusion decided by a finite check: a set of pairs of content-model states (below: those reachable together,
   computed by a fuel-bounded closure; only the CHECK is relied on, not the closure) that forms a simulation ---- *)
Definition pmem (p : nat * nat) (l : list (nat * nat)) : bool :=
  existsb (fun x => Nat.eqb (fst x) (fst p) && Nat.eqb (snd x) (snd p)) l.
Lemma pmem_in p l : pmem p l = true -> In p l.
Proof.
  unfold pmem. intro H. apply existsb_exists in H. destruct H as [x [Hx E]].
  apply andb_true_iff in E. destruct E as [E1 E2]. apply Nat.eqb_eq in E1. apply Nat.eqb_eq in E2.
  destruct x as [a b]. destruct p as [c d]. simpl in *. subst. exact Hx.
Qed.

Section CheckedInclusion.
Variable T : Type.
Variable all : list T.
Hypothesis all_complete : forall t, In t all.
Variables G1 G2 : grammar T.
Variable reach : ctx T -> list (nat * nat).

Definition pair_ok (c : ctx T) (p : nat * nat) : bool :=
  forallb (fun t => match cm G1 c (fst p) t with
                    | None => true
                    | Some q1' => match cm G2 c (snd p) t with None => false | Some q2' => pmem (q1', q2') (reach c) end
                    end) all &&
  implb (fin G1 c (fst p)) (fin G2 c (snd p)).
Definition ctx_ok (c : ctx T) : bool :=
  pmem (0, 0) (reach c) && forallb (pair_ok c) (reach c) && implb (txt G1 c) (txt G2 c).
Definition incl_ok : bool := ctx_ok None && forallb (fun t => ctx_ok (Some t)) all.

Hypothesis ok : incl_ok = true.
Lemma ctx_ok_all c : ctx_ok c = true.
Proof.
  pose proof ok as K. unfold incl_ok in K. apply andb_true_iff in K. destruct K as [H0 H1].
  destruct c as [t|]; [|exact H0]. rewrite forallb_forall in H1. apply H1. apply all_complete.
Qed.
Lemma ctx_parts c :
  pmem (0, 0) (reach c) = true /\ (forall p, In p (reach c) -> pair_ok c p = true) /\ (txt G1 c = true -> txt G2 c = true).
Proof.
  pose proof (ctx_ok_all c) as H. unfold ctx_ok in H.
  apply andb_true_iff in H. destruct H as [H H3]. apply andb_true_iff in H. destruct H as [H1 H2].
  split; [exact H1|]. split.
  - intros p Hp. rewrite forallb_forall in H2. apply H2. exact Hp.
  - intro F. rewrite F in H3. exact H3.
Qed.
Theorem checked_incl d : vdoc G1 d = true -> vdoc G2 d = true.
Proof.
  apply (vdoc_incl T G1 G2 (fun c q1 q2 => pmem (q1, q2) (reach c) = true)).
  - intro t. apply (ctx_parts (Some t)).
  - intros c q1 q2 t q1' R E. destruct (ctx_parts c) as [_ [P _]].
    specialize (P (q1, q2) (pmem_in _ _ R)). unfold pair_ok in P.
    apply andb_true_iff in P. destruct P as [P _]. rewrite forallb_forall in P. specialize (P t (all_complete t)).
    cbn [fst snd] in P. rewrite E in P. destruct (cm G2 c q2 t) as [q2'|]; [|discriminate].
    exists q2'. split; [reflexivity | exact P].
  - intros c q1 q2 R F. destruct (ctx_parts c) as [_ [P _]].
    specialize (P (q1, q2) (pmem_in _ _ R)). unfold pair_ok in P.
    apply andb_true_iff in P. destruct P as [_ P]. cbn [fst snd] in P. rewrite F in P. exact P.
  - intros c F. destruct (ctx_parts c) as [_ [_ P]]. apply P. exact F.
  - apply (ctx_parts None).
Qed.
End CheckedInclusion.

(* the pairs reachable together *)
Section Reach.
Variable T : Type.
Variable all : list T.
Variables G1 G2 : grammar T.
Definition succs (c : ctx T) (p : nat * nat) : list (nat * nat) :=
  flat_map (fun t => match cm G1 c (fst p) t, cm G2 c (snd p) t with Some a, Some b => [(a, b)] | _, _ => [] end) all.
Fixpoint close (fuel : nat) (c : ctx T) (todo seen : list (nat * nat)) : list (nat * nat) :=
  match fuel with
  | 0 => seen
  | S f => match todo with
           | [] => seen
           | p :: r => if pmem p seen then close f c r seen else close f c (succs c p ++ r) (p :: seen)
           end
  end.
Definition reach_together (c : ctx T) : list (nat * nat) := close 400 c [(0, 0)] [].
End Reach.
