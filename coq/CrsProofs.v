(* C16: SparseMatrix::transpose (CrsModel.transpose) keeps every entry, for every storage (any number of rows and
   columns, empty rows, repeated and unsorted column indices). *)
From Coq Require Import List Arith QArith Lia Bool.
From Gama Require Import CrsModel.
Import ListNotations.
Local Open Scope nat_scope.

Lemma put_length b k e : length (put b k e) = length b.
Proof. revert k; induction b as [|r b IH]; intros [|k]; cbn; auto. Qed.

Lemma put_nth_same b k e : k < length b -> nth k (put b k e) [] = nth k b [] ++ [e].
Proof.
  revert k; induction b as [|r b IH]; intros [|k] H; cbn in *; try lia; [reflexivity|].
  apply IH; lia.
Qed.

Lemma put_nth_other b k j e : j <> k -> nth j (put b k e) [] = nth j b [].
Proof.
  revert k j; induction b as [|r b IH]; intros [|k] [|j] H; cbn; try reflexivity; try lia.
  apply IH; lia.
Qed.

Lemma scatter_row_length r row b : length (scatter_row r row b) = length b.
Proof.
  unfold scatter_row. revert b; induction row as [|ce row IH]; intro b; cbn; auto.
  rewrite IH. apply put_length.
Qed.

Lemma pick_cons c r ce row : pick c r (ce :: row) = (if Nat.eqb (fst ce) c then [(r, snd ce)] else []) ++ pick c r row.
Proof. unfold pick; cbn. destruct (Nat.eqb (fst ce) c); reflexivity. Qed.

Lemma scatter_row_nth cols r row b j : wf_row cols row = true -> length b = cols -> j < cols ->
  nth j (scatter_row r row b) [] = nth j b [] ++ pick (S j) r row.
Proof.
  unfold scatter_row. revert b; induction row as [|ce row IH]; intros b Hwf Hl Hj.
  - cbn. rewrite app_nil_r. reflexivity.
  - cbn [fold_left]. cbn [wf_row forallb] in Hwf. apply andb_prop in Hwf. destruct Hwf as [Hce Hrow].
    apply andb_prop in Hce. destruct Hce as [H1 H2]. apply Nat.leb_le in H1. apply Nat.leb_le in H2.
    rewrite IH; [| exact Hrow | rewrite put_length; exact Hl | exact Hj].
    rewrite pick_cons.
    destruct (Nat.eqb (fst ce) (S j)) eqn:E.
    + apply Nat.eqb_eq in E. replace (fst ce - 1) with j by lia.
      rewrite put_nth_same by lia. rewrite <- !app_assoc. reflexivity.
    + apply Nat.eqb_neq in E. rewrite put_nth_other by lia. reflexivity.
Qed.

Lemma scatter_length r A b : length (scatter r A b) = length b.
Proof. revert r b; induction A as [|row A IH]; intros r b; cbn; auto. rewrite IH. apply scatter_row_length. Qed.

Lemma scatter_nth cols r A b j : wf cols A = true -> length b = cols -> j < cols ->
  nth j (scatter r A b) [] = nth j b [] ++ spec_row (S j) r A.
Proof.
  revert r b; induction A as [|row A IH]; intros r b Hwf Hl Hj.
  - cbn. rewrite app_nil_r. reflexivity.
  - cbn [scatter spec_row]. cbn [wf forallb] in Hwf. apply andb_prop in Hwf. destruct Hwf as [Hrow HA].
    rewrite IH; [| exact HA | rewrite scatter_row_length; exact Hl | exact Hj].
    rewrite (scatter_row_nth cols) by assumption. rewrite <- app_assoc. reflexivity.
Qed.

Lemma nth_repeat_nil n j : nth j (repeat ([] : crow) n) [] = [].
Proof. revert j; induction n as [|n IH]; intros [|j]; cbn; auto. Qed.

(* row c of the transpose = the entries of column c, row by row, in storage order *)
Theorem transpose_rows cols A c : wf cols A = true -> 1 <= c <= cols ->
  nth (c - 1) (transpose cols A) [] = spec_row c 1 A.
Proof.
  intros Hwf Hc. unfold transpose.
  rewrite (scatter_nth cols) by (try assumption; try (rewrite repeat_length; reflexivity); lia).
  rewrite nth_repeat_nil. replace (S (c - 1)) with c by lia. reflexivity.
Qed.

Theorem transpose_row_count cols A : length (transpose cols A) = cols.
Proof. unfold transpose. rewrite scatter_length. apply repeat_length. Qed.

Lemma vals_at_app k a b : vals_at k (a ++ b) = vals_at k a ++ vals_at k b.
Proof. unfold vals_at. rewrite filter_app, map_app. reflexivity. Qed.

Lemma vals_at_pick k c r row : vals_at k (pick c r row) = if Nat.eqb r k then vals_at c row else [].
Proof.
  unfold vals_at, pick. induction row as [|ce row IH]; cbn.
  - destruct (Nat.eqb r k); reflexivity.
  - destruct (Nat.eqb (fst ce) c); cbn; [| exact IH].
    destruct (Nat.eqb r k) eqn:E; cbn; [f_equal |]; exact IH.
Qed.

Lemma vals_at_spec_row k c r0 A : r0 <= k -> vals_at k (spec_row c r0 A) = vals_at c (nth (k - r0) A []).
Proof.
  revert r0; induction A as [|row A IH]; intros r0 H.
  - cbn. destruct (k - r0); reflexivity.
  - cbn [spec_row]. rewrite vals_at_app, vals_at_pick.
    destruct (Nat.eqb r0 k) eqn:E.
    + apply Nat.eqb_eq in E. subst. rewrite Nat.sub_diag. cbn [nth].
      assert (Hn : forall A' r1, k < r1 -> vals_at k (spec_row c r1 A') = []).
      { clear. induction A' as [|row' A' IH']; intros r1 H1; cbn [spec_row]; [reflexivity|].
        rewrite vals_at_app, vals_at_pick. replace (Nat.eqb r1 k) with false by (symmetry; apply Nat.eqb_neq; lia).
        apply IH'. lia. }
      rewrite Hn by lia. apply app_nil_r.
    + apply Nat.eqb_neq in E. rewrite IH by lia. cbn [app].
      replace (k - r0) with (S (k - S r0)) by lia. reflexivity.
Qed.

(* every entry is preserved: what is stored at (c, r) of the transpose is, value by value and in order, what is stored
   at (r, c) of the matrix; nothing else is stored (row indices outside 1..rows do not occur) *)
Theorem transpose_entries cols A r c : wf cols A = true -> 1 <= c <= cols -> 1 <= r ->
  vals_at r (nth (c - 1) (transpose cols A) []) = vals_at c (nth (r - 1) A []).
Proof. intros Hwf Hc Hr. rewrite transpose_rows by assumption. apply vals_at_spec_row. exact Hr. Qed.

Lemma spec_row_indices c r0 A e : In e (spec_row c r0 A) -> r0 <= fst e < r0 + length A.
Proof.
  revert r0; induction A as [|row A IH]; intros r0 H; cbn in H; [contradiction|].
  apply in_app_or in H. destruct H as [H|H].
  - unfold pick in H. apply in_map_iff in H. destruct H as [ce [<- _]]. cbn. lia.
  - apply IH in H. cbn [length]. lia.
Qed.

Theorem transpose_wf cols A : wf cols A = true -> wf (length A) (transpose cols A) = true.
Proof.
  intro Hwf. unfold wf. apply forallb_forall. intros row Hin.
  apply In_nth with (d := []) in Hin. destruct Hin as [j [Hj <-]]. rewrite transpose_row_count in Hj.
  replace j with (S j - 1) by lia. rewrite transpose_rows by (try assumption; lia).
  apply forallb_forall. intros e He. apply spec_row_indices in He.
  apply andb_true_intro. split; apply Nat.leb_le; lia.
Qed.

(* transposing twice gives back every entry (the storage order inside a row becomes the stable order by column) *)
Theorem transpose_twice_entries cols A r c : wf cols A = true -> 1 <= c <= cols -> 1 <= r <= length A ->
  vals_at c (nth (r - 1) (transpose (length A) (transpose cols A)) []) = vals_at c (nth (r - 1) A []).
Proof.
  intros Hwf Hc Hr.
  rewrite transpose_entries; [| apply transpose_wf; exact Hwf | exact Hr | lia].
  apply transpose_entries; try assumption; lia.
Qed.

(* the hypotheses are satisfiable: repeated and unsorted indices, an empty row *)
Example transpose_example :
  let A : crs := [[(3, 1#1); (1, 2#1); (3, 5#1)]; []; [(2, 7#1)]] in
  wf 3 A = true /\ transpose 3 A = [[(1, 2#1)]; [(3, 7#1)]; [(1, 1#1); (1, 5#1)]].
Proof. split; reflexivity. Qed.

(* the number of stored elements is preserved (the code keeps ncnt_): nothing is dropped or duplicated globally *)
Lemma put_count b k e : k < length b -> length (concat (put b k e)) = S (length (concat b)).
Proof.
  revert k; induction b as [|r b IH]; intros [|k] H; cbn [put concat length] in *; try lia.
  - rewrite !app_length. cbn. lia.
  - rewrite !app_length. rewrite IH by lia. lia.
Qed.

Lemma scatter_row_count cols r row b : wf_row cols row = true -> length b = cols ->
  length (concat (scatter_row r row b)) = length (concat b) + length row.
Proof.
  unfold scatter_row. revert b; induction row as [|ce row IH]; intros b Hwf Hl.
  - cbn. lia.
  - cbn [fold_left length]. cbn [wf_row forallb] in Hwf. apply andb_prop in Hwf. destruct Hwf as [Hce Hrow].
    apply andb_prop in Hce. destruct Hce as [H1 H2]. apply Nat.leb_le in H1. apply Nat.leb_le in H2.
    rewrite IH; [| exact Hrow | rewrite put_length; exact Hl].
    rewrite put_count by lia. lia.
Qed.

Lemma scatter_count cols r A b : wf cols A = true -> length b = cols ->
  length (concat (scatter r A b)) = length (concat b) + length (concat A).
Proof.
  revert r b; induction A as [|row A IH]; intros r b Hwf Hl.
  - cbn. lia.
  - cbn [scatter concat]. cbn [wf forallb] in Hwf. apply andb_prop in Hwf. destruct Hwf as [Hrow HA].
    rewrite IH; [| exact HA | rewrite scatter_row_length; exact Hl].
    rewrite (scatter_row_count cols) by assumption. rewrite app_length. lia.
Qed.

Lemma concat_repeat_nil n : concat (repeat ([] : crow) n) = [].
Proof. induction n as [|n IH]; cbn; auto. Qed.

Theorem transpose_count cols A : wf cols A = true -> length (concat (transpose cols A)) = length (concat A).
Proof.
  intro Hwf. unfold transpose. rewrite (scatter_count cols) by (try assumption; apply repeat_length).
  rewrite concat_repeat_nil. reflexivity.
Qed.
