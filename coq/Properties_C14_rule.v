(* C14 -- the rule for gross absolute terms as documented and as LocalNetwork::test_abs_term applies it (recorded finding
   C14:abs-term-weight-scaled), over the integers to keep it free of rounding: misclosure |rhs| * d compared with tol * rho.
   The code evaluates the rule on the right-hand side AFTER the weights have been applied, i.e. on rhs * m0 / sd. *)
From Coq Require Import ZArith Lia.
Local Open Scope Z_scope.

Definition doc_excludes (rhs d tol rho : Z) : Prop := tol * rho < Z.abs rhs * d.
Definition code_excludes (rhs d tol rho sd m0 : Z) : Prop := tol * rho * sd < Z.abs rhs * m0 * d.

(* with the standard deviation equal to sigma-apr the two rules coincide ... *)
Theorem C14_rules_agree_for_unit_weight (rhs d tol rho m0 : Z) : 0 < m0 ->
  (code_excludes rhs d tol rho m0 m0 <-> doc_excludes rhs d tol rho).
Proof. unfold code_excludes, doc_excludes. intro H. nia. Qed.
Print Assumptions C14_rules_agree_for_unit_weight.

(* ... otherwise they do not: a misclosure of twice the tolerance is kept when sd = 25 and sigma-apr = 10, and a misclosure
   of 0.9 x tolerance is excluded when sd = 2 (the two witnesses the end-to-end check replays on gama-local) *)
Theorem C14_weight_scaled_rule_refuted :
  (exists rhs d tol rho sd m0, 0 < sd /\ 0 < m0 /\ doc_excludes rhs d tol rho /\ ~ code_excludes rhs d tol rho sd m0) /\
  (exists rhs d tol rho sd m0, 0 < sd /\ 0 < m0 /\ ~ doc_excludes rhs d tol rho /\ code_excludes rhs d tol rho sd m0).
Proof.
  split.
  - exists 2000, 1, 1000, 1, 25, 10. unfold doc_excludes, code_excludes. simpl. lia.
  - exists 900, 1, 1000, 1, 2, 10. unfold doc_excludes, code_excludes. simpl. lia.
Qed.
Print Assumptions C14_weight_scaled_rule_refuted.

(* both rules are monotone in the size of the absolute term *)
Theorem C14_code_rule_monotone (r1 r2 d tol rho sd m0 : Z) : 0 <= d -> 0 <= m0 -> Z.abs r1 <= Z.abs r2 ->
  code_excludes r1 d tol rho sd m0 -> code_excludes r2 d tol rho sd m0.
Proof.
  unfold code_excludes. intros Hd Hm H12 H.
  assert (K : Z.abs r1 * m0 * d <= Z.abs r2 * m0 * d).
  { apply Z.mul_le_mono_nonneg_r; [exact Hd|]. apply Z.mul_le_mono_nonneg_r; [exact Hm | exact H12]. }
  lia.
Qed.
