(* C11, attribute layer: definitions over the tables regenerated from gkfparser.cpp (start_attrs: the names each handler
   compares before its `else return error(...)`) and from xml/gama-local.xsd (xsd_attrs), GkfGen.v.
   Model of a handler: it walks the attributes and refuses (located: CoreParser::error records the line) the first name
   that is not in its table; a handler with no table does not look at the attributes. *)
From Coq Require Import List Bool String.
From Gama Require Import GkfGen.
Import ListNotations.
Local Open Scope string_scope.

Definition accepts_attr (s : st) (t : tag) (a : string) : bool :=
  match start_attrs s t with None => true | Some l => existsb (String.eqb a) l end.

(* the names the attribute walk of the transition (s, t) lets through: None = refused at the first unknown name *)
Definition attr_walk (s : st) (t : tag) (names : list string) : bool := forallb (accepts_attr s t) names.

Definition opens (s : st) (t : tag) : bool := match start_step s t with SGo _ => true | SErr _ => false end.
(* element names that tag() maps to t *)
Definition names_of (t : tag) : list string := map (fun x => snd (fst x)) (filter (fun x => tag_beq (snd x) t) tag_table).
Definition xsd_of (e : string) : list (string * bool) :=
  flat_map (fun ea => if String.eqb (fst ea) e then snd ea else []) xsd_attrs.

(* every attribute the schema declares for an element is let through wherever the element opens *)
Definition xsd_attrs_known_at (s : st) (t : tag) : bool :=
  negb (opens s t) || forallb (fun e => forallb (fun ar => accepts_attr s t (fst ar)) (xsd_of e)) (names_of t).
Definition xsd_attrs_known : bool := forallb (fun s => forallb (xsd_attrs_known_at s) all_tags) all_states.

(* the counterexamples, for the search of the check: (state, tag, element, attribute) *)
Definition xsd_attrs_missing : list (st * tag * string * string) :=
  flat_map (fun s => flat_map (fun t => if opens s t then
     flat_map (fun e => flat_map (fun ar => if accepts_attr s t (fst ar) then [] else [(s, t, e, fst ar)]) (xsd_of e)) (names_of t) else []) all_tags) all_states.
