(* C16: dense reference definitions for the sparse kernels, evaluated exactly over Q inside coqc. *)
From Coq Require Import List QArith Qabs ZArith Bool Arith.
From Gama Require Import QLsq MatRun.
Import ListNotations.
Local Open Scope Q_scope.

Definition entryq (M : mat) (i j : nat) : Q := nthq (nth i M []) j.

(* column graph: columns i <> j are adjacent iff some row has both entries non-zero *)
Definition share_row (A : mat) (i j : nat) : bool := existsb (fun r => negb (qzero (nthq r i)) && negb (qzero (nthq r j))) A.
Definition graph_of (A : mat) (n : nat) : list (list nat) :=
  map (fun i => map (fun j => if negb (Nat.eqb i j) && share_row A i j then 1%nat else 0%nat) (seq 0 n)) (seq 0 n).

(* reachability from node 0 *)
Fixpoint reach (fuel : nat) (G : list (list nat)) (seen : list nat) : list nat :=
  match fuel with
  | O => seen
  | S f =>
    let n := length G in
    let next := filter (fun j => negb (existsb (Nat.eqb j) seen) &&
                                 existsb (fun i => negb (Nat.eqb (nth j (nth i G []) 0%nat) 0)) seen) (seq 0 n) in
    match next with [] => seen | _ => reach f G (seen ++ next) end
  end.
Definition connected_ref (G : list (list nat)) : bool :=
  match length G with O => true | n => Nat.eqb (length (reach n G [0%nat])) n end.

Definition is_perm (n : nat) (p : list nat) : bool :=
  Nat.eqb (length p) n && forallb (fun k => existsb (Nat.eqb k) p) (seq 1 n).
Definition inverse_ok (p ip : list nat) : bool :=
  forallb (fun i => Nat.eqb (nth (nth i p 0%nat - 1) ip 0%nat) (S i)) (seq 0 (length p)).

(* dense L D L' with the rule "pivot 0 => the column of L is zero" (dependent pivots) *)
Fixpoint dotld (l1 l2 d : vec) : Q :=
  match l1, l2, d with a :: r1, b :: r2, c :: r3 => qadd (qmul (qmul a b) c) (dotld r1 r2 r3) | _, _, _ => 0 end.
(* rows of L (strict lower part, row k has k entries) and the diagonal d are built row by row *)
Fixpoint ldl_rows (N : mat) (k : nat) (L : list vec) (d : vec) (fuel : nat) : list vec * vec :=
  match fuel with
  | O => (L, d)
  | S f =>
    let row := nth k N [] in
    (* entries L_kj for j < k *)
    let lk := fold_left (fun acc j =>
                 let dj := nthq d j in
                 if qzero dj then acc ++ [0]
                 else acc ++ [qdiv (qsub (nthq row j) (dotld acc (nth j L []) d)) dj]) (seq 0 k) [] in
    let dk := qsub (nthq row k) (dotld lk lk d) in
    ldl_rows N (S k) (L ++ [lk]) (d ++ [dk]) f
  end.
Definition ldl (N : mat) : list vec * vec := ldl_rows N 0 [] [] (length N).

Definition zero_pivots (d : vec) : list nat := filter (fun k => qzero (nthq d k)) (seq 0 (length d)).

Definition ldl_solve (N : mat) (b : vec) : vec :=
  let (L, d) := ldl N in
  let n := length N in
  (* forward *)
  let y := fold_left (fun acc k => acc ++ [qsub (nthq b k) (dot (nth k L []) acc)]) (seq 0 n) [] in
  let z := map (fun k => if qzero (nthq d k) then 0 else qdiv (nthq y k) (nthq d k)) (seq 0 n) in
  (* backward: x_k = z_k - sum_{i>k} L_ik x_i *)
  fold_right (fun k acc =>
     (* acc holds x_{k+1..n-1} *)
     let s := fold_left (fun t i => qadd t (qmul (nthq (nth i L []) k) (nthq acc (i - k - 1)))) (seq (S k) (n - k - 1)) 0 in
     qsub (nthq z k) s :: acc) [] (seq 0 n).

Record scase := mkscase {
  s_n : nat; s_A : mat; s_rhs : vec;
  i_T : mat; i_R : mat; i_G : list (list nat); i_C : bool; i_P : list nat; i_I : list nat;
  i_D : nat; i_Z : list nat; i_X : vec; i_V : list (nat * nat * Q) }.

Definition permuted_normal (c : scase) : mat :=
  let n := s_n c in
  let N := mm (mT (s_A c)) (s_A c) in
  map (fun i => map (fun j => entryq N (nth i (i_P c) 1%nat - 1) (nth j (i_P c) 1%nat - 1)) (seq 0 n)) (seq 0 n).

(* failure codes: 1 transpose, 2 replicate, 3 graph, 4 connectivity, 5 permutation, 6 inverse permutation, 7 defect / zero pivots,
   8 solution, 9 sparse inverse *)
Definition judge_s (c : scase) : list nat :=
  let n := s_n c in
  let G := graph_of (s_A c) n in
  let okperm := is_perm n (i_P c) in
  (if meq (mT (s_A c)) (i_T c) then [] else [1%nat]) ++
  (if meq (s_A c) (i_R c) then [] else [2%nat]) ++
  (if forallb (fun p => forallb (fun q => Nat.eqb (fst q) (snd q)) (combine (fst p) (snd p))) (combine G (i_G c)) && Nat.eqb (length (i_G c)) n then [] else [3%nat]) ++
  (if Bool.eqb (connected_ref G) (i_C c) then [] else [4%nat]) ++
  (if okperm then [] else [5%nat]) ++
  (if okperm && inverse_ok (i_P c) (i_I c) then [] else [6%nat]) ++
  (if okperm then
     let Np := permuted_normal c in
     let (L, d) := ldl Np in
     let zp := map S (zero_pivots d) in
     let bp := map (fun i => nthq (s_rhs c) (nth i (i_P c) 1%nat - 1)) (seq 0 n) in
     (if Nat.eqb (length zp) (i_D c) && forallb (fun p => Nat.eqb (fst p) (snd p)) (combine zp (i_Z c)) && Nat.eqb (length zp) (length (i_Z c)) then [] else [7%nat]) ++
     (if close_vec (1 # 1000000000) (ldl_solve Np bp) (i_X c) then [] else [8%nat]) ++
     (match zp, inverse n Np with
      | [], Some Iv => if forallb (fun t => match t with (i, j, v) => close_q (1 # 1000000000) (vmaxabs (map vmaxabs Iv)) (entryq Iv (i - 1) (j - 1)) v end) (i_V c) then [] else [9%nat]
      | _, _ => []
      end)
   else []).

Fixpoint judge_all_s (k : nat) (cs : list scase) : list (nat * list nat) :=
  match cs with [] => [] | c :: r => match judge_s c with [] => judge_all_s (S k) r | l => (k, l) :: judge_all_s (S k) r end end.

(* block-diagonal Cholesky: the factor values, unpacked like the input, must reproduce the block: R' R = C with R upper band *)
Definition upper_from_band (dim band : nat) (vals : vec) : mat :=
  let rows := band_rows dim band 0 vals dim in
  map (fun i => map (fun j => if Nat.leb i j && Nat.leb (j - i) band then nthq (nth i rows []) (j - i) else 0) (seq 0 dim)) (seq 0 dim).
Definition block_ok (b : nat * nat * vec * vec) : bool :=
  match b with (dim, band, cvals, fvals) =>
    let C := band_to_dense dim band cvals in
    let R := upper_from_band dim band fvals in
    mclose (1 # 1000000000) C (mm (mT R) R)
  end.
