(* C18 -- geodetic primitives round-trip: property theorems only. *)
From Coq Require Import Reals Lra ZArith List NArith.
From Gama Require Import GeoProofs Strings StringsProofs.
Import ListNotations.

Theorem C18_bearing_antisymmetric (s d dx dy : R) :
  (d * cos s = dx -> d * sin s = dy -> d * cos (s + PI) = - dx /\ d * sin (s + PI) = - dy)%R.
Proof. exact (bearing_antisymmetric s d dx dy). Qed.
Print Assumptions C18_bearing_antisymmetric.

Theorem C18_bearing_distance_consistent (s d dx dy : R) :
  (0 <= d -> d * cos s = dx -> d * sin s = dy -> d = sqrt (dx ^ 2 + dy ^ 2))%R.
Proof. exact (bearing_distance_consistent s d dx dy). Qed.

Theorem C18_geodetic_to_cartesian_lies_on_the_ellipsoid (A e2 b l : R) :
  (0 < A -> 0 <= e2 < 1 ->
  let W := sqrt (1 - e2 * (sin b) ^ 2) in let N := A / W in
  let x := N * cos b * cos l in let y := N * cos b * sin l in let z := N * (1 - e2) * sin b in
  (x ^ 2 + y ^ 2) / A ^ 2 + z ^ 2 / (A ^ 2 * (1 - e2)) = 1)%R.
Proof. exact (blh2xyz_on_ellipsoid A e2 b l). Qed.
Print Assumptions C18_geodetic_to_cartesian_lies_on_the_ellipsoid.

Theorem C18_height_recovered_exactly (N h cb p : R) : (cb <> 0 -> p = (N + h) * cb -> p / cb - N = h)%R.
Proof. exact (height_formula_exact N h cb p). Qed.

Theorem C18_sexagesimal_fields_in_range (T u : Z) : (0 <= T -> 0 < u ->
  let d := T / (3600 * u) in let m := (T / (60 * u)) mod 60 in let s := T mod (60 * u) in
  0 <= d /\ 0 <= m < 60 /\ 0 <= s < 60 * u /\ T = (d * 3600 + m * 60) * u + s)%Z.
Proof. exact (dms_fields_in_range T u). Qed.
Print Assumptions C18_sexagesimal_fields_in_range.

(* literal recognisers: the integer recogniser of the pinned commit accepted a string outside the documented
   grammar (a bare sign); fixed in /repo (see KNOWN_FINDINGS.txt), and the fixed model rejects it *)
Theorem C18_pinned_integer_recogniser_refuted : exists s, is_integer_pinned s = true /\ ~ integer_literal s.
Proof. exact is_integer_pinned_refuted. Qed.
Example C18_fixed_integer_recogniser_rejects_bare_sign : is_integer [43%N] = false /\ is_integer [45%N] = false.
Proof. split; reflexivity. Qed.

(* Bowring's closed formula (Ellipsoid::xyz2blh) is exact on the ellipsoid: for the meridian point (a cos u, b sin u) the two
   arguments of its atan2 are in the ratio (a sin u) : (b cos u), the tangent of the geodetic latitude; the parametric latitude
   it starts from is the true one.  (With a height the formula is approximate: the size of that error is sampled, C18 partial.) *)
Theorem C18_bowring_exact_on_the_ellipsoid (a b u : R) : (0 < a -> 0 < b ->
  let e2 := (a * a - b * b) / (a * a) in
  let e22 := (a * a - b * b) / (b * b) in
  let p := a * cos u in let z := b * sin u in
  (z + e22 * b * (sin u * sin u) * sin u) * (b * cos u) = (p - e2 * a * (cos u * cos u) * cos u) * (a * sin u))%R.
Proof. exact (bowring_exact_on_the_ellipsoid a b u). Qed.
Print Assumptions C18_bowring_exact_on_the_ellipsoid.
Theorem C18_bowring_parametric_latitude_exact (a b u : R) : (0 < a -> 0 < b -> cos u <> 0 ->
  a / b * (b * sin u) / (a * cos u) = tan u)%R.
Proof. exact (bowring_parametric_latitude_exact a b u). Qed.
