(* C14 -- exclusions are reported and equal to deleting the excluded items: property theorems only. *)
From mathcomp Require Import all_ssreflect all_algebra.
From Gama Require Import LsqSpec.
Import Order.TotalTheory Order.POrderTheory GRing.Theory Num.Theory.
Local Open Scope ring_scope.

(* Leaving observations out = giving them weight zero = deleting their rows: with a 0/1 selection matrix E of the
   rows that stay (E idempotent, symmetric, commuting with the weights of the clusters concerned), the normal
   equations of the selected sub-system are those of the full system with weights E P E. *)
Theorem C14_excluding_rows_equals_deleting_them (F : realFieldType) (m n : nat) (A : 'M[F]_(m,n)) (P E : 'M[F]_m)
  (b : 'cV[F]_m) (x : 'cV[F]_n) : E^T = E -> E *m E = E ->
  (normal_eq (E *m A) P (E *m b) x <-> normal_eq A (E *m P *m E) b x).
Proof.
move=> Es Ei; rewrite /normal_eq /res.
have -> : E *m A *m x - E *m b = E *m (A *m x - b) by rewrite mulmxBr mulmxA.
by rewrite trmx_mul Es !mulmxA.
Qed.
Print Assumptions C14_excluding_rows_equals_deleting_them.

(* the rule for gross absolute terms: an observation is excluded exactly when its positional misclosure exceeds tol-abs;
   for an angular observation the misclosure is |rhs| (cc) * distance / (10 * 200/pi) in millimetres, and this is
   monotone in |rhs|: a larger absolute term is never kept when a smaller one is excluded *)
Definition angular_misclosure {F : realFieldType} (rhs d rho10 : F) : F := `|rhs| * d / rho10.
Theorem C14_exclusion_rule_monotone (F : realFieldType) (r1 r2 d rho10 tol : F) :
  0 <= d -> 0 < rho10 -> `|r1| <= `|r2| ->
  tol < angular_misclosure r1 d rho10 -> tol < angular_misclosure r2 d rho10.
Proof.
move=> Hd Hr H12 H1; apply: (lt_le_trans H1); rewrite /angular_misclosure.
by rewrite ler_pmul2r ?invr_gt0 // ler_wpmul2r.
Qed.
Print Assumptions C14_exclusion_rule_monotone.
