(* C10 (storage part) -- packed addressing of CovMat / BlockDiagonal: property theorems only. *)
From Coq Require Import ZArith.
From Gama Require Import BandProofs.
(* packed addressing of CovMat / BlockDiagonal: consecutive rows, no gaps, expected total size *)
Theorem C10_packed_rows_are_consecutive (dim band r : Z) : (0 <= band < dim -> 0 <= r < dim ->
  covmat_offset2 dim band (r + 1) = covmat_offset2 dim band r + 2 * row_len dim band r)%Z.
Proof. exact (covmat_offset_step dim band r). Qed.
Theorem C10_packed_size (dim band : Z) : (0 <= band < dim ->
  covmat_offset2 dim band dim = 2 * dim * (band + 1) - band * (band + 1))%Z.
Proof. exact (covmat_size dim band). Qed.
Print Assumptions C10_packed_size.
