(* binary64 transcendental functions in Gallina over PrimFloat -- EXECUTION ONLY.
   No theorem links them to the real functions; they only have to agree with libm within the
   correspondence tolerance (1e-9 relative), which every K run measures (DESIGN 1.2).
   Target accuracy ~1e-14 relative on the ranges used. *)
From Coq Require Import Floats ZArith List Uint63.
Import ListNotations.
Local Open Scope float_scope.

Definition fpi : float := 0x1.921fb54442d18p+1.
Definition fpi2 : float := 0x1.921fb54442d18p+0.
Definition f2pi : float := 0x1.921fb54442d18p+2.
Definition fln2 : float := 0x1.62e42fefa39efp-1.
Definition two52 : float := 0x1p+52.

(* round to nearest integer, valid for |x| < 2^51 *)
Definition fl_rint (x : float) : float :=
  if PrimFloat.ltb x 0 then (x - two52) + two52 else (x + two52) - two52.
Definition fl_floor (x : float) : float :=
  let r := fl_rint x in if PrimFloat.ltb x r then r - 1 else r.
(* C's (int) cast: truncation towards zero *)
Definition fl_trunc (x : float) : float :=
  if PrimFloat.ltb x 0 then - (fl_floor (- x)) else fl_floor x.

(* float (integer valued, |x| < 2^62) -> Z *)
Definition float_to_Z (x : float) : Z :=
  let a := PrimFloat.abs x in
  let (m, e) := PrimFloat.frshiftexp a in   (* a = m * 2^(e - shift), m in [0.5,1) *)
  let mi := Uint63.to_Z (PrimFloat.normfr_mantissa m) in  (* m * 2^53 *)
  let ex := (Uint63.to_Z e - 2101 - 53)%Z in  (* shift = 2101 *)
  let v := (if (0 <=? ex)%Z then mi * 2 ^ ex else mi / 2 ^ (- ex))%Z in
  if PrimFloat.ltb x 0 then (- v)%Z else v.

Definition Z_to_float (z : Z) : float :=
  match z with
  | Z0 => 0
  | Zpos p => PrimFloat.of_uint63 (Uint63.of_Z (Zpos p))
  | Zneg p => - PrimFloat.of_uint63 (Uint63.of_Z (Zpos p))
  end.

(* Horner evaluation of sum c_k y^k *)
Fixpoint horner (cs : list float) (y : float) : float :=
  match cs with
  | [] => 0
  | c :: r => c + y * horner r y
  end.

(* sin/cos kernels on |r| <= pi/4 *)
Definition sin_k (r : float) : float :=
  let y := r * r in
  r * horner [0x1.0000000000000p+0; -0x1.5555555555555p-3; 0x1.1111111111111p-7; -0x1.a01a01a01a01ap-13; 0x1.71de3a556c734p-19; -0x1.ae64567f544e4p-26; 0x1.6124613a86d09p-33; -0x1.ae7f3e733b81fp-41; 0x1.952c77030ad4ap-49] y.
Definition cos_k (r : float) : float :=
  let y := r * r in
  horner [0x1.0000000000000p+0; -0x1.0000000000000p-1; 0x1.5555555555555p-5; -0x1.6c16c16c16c17p-10; 0x1.a01a01a01a01ap-16; -0x1.27e4fb7789f5cp-22; 0x1.1eed8eff8d898p-29; -0x1.93974a8c07c9dp-37; 0x1.ae7f3e733b81fp-45; -0x1.6827863b97d97p-53] y.

(* reduction x = k*(pi/2) + r with a two-part pi/2 *)
Definition pio2_hi : float := 0x1.921fb50000000p+0.
Definition pio2_lo : float := 0x1.110b4611a6263p-26.
Definition fl_sincos (x : float) : float * float :=
  let k := fl_rint (x / fpi2) in
  let r := (x - k * pio2_hi) - k * pio2_lo in
  let q := Z.modulo (float_to_Z k) 4 in
  let s := sin_k r in let c := cos_k r in
  if (q =? 0)%Z then (s, c) else if (q =? 1)%Z then (c, - s)
  else if (q =? 2)%Z then (- s, - c) else (- c, s).
Definition fl_sin (x : float) : float := fst (fl_sincos x).
Definition fl_cos (x : float) : float := snd (fl_sincos x).
Definition fl_tan (x : float) : float := let (s, c) := fl_sincos x in s / c.

(* atan: |x|>1 -> pi/2 - atan(1/x); two half-angle reductions; odd series *)
Definition atan_half (x : float) : float := x / (1 + PrimFloat.sqrt (1 + x * x)).
Definition atan_series (x : float) : float :=
  let y := x * x in
  x * horner [0x1.0000000000000p+0; -0x1.5555555555555p-2; 0x1.999999999999ap-3; -0x1.2492492492492p-3; 0x1.c71c71c71c71cp-4; -0x1.745d1745d1746p-4; 0x1.3b13b13b13b14p-4; -0x1.1111111111111p-4; 0x1.e1e1e1e1e1e1ep-5; -0x1.af286bca1af28p-5; 0x1.8618618618618p-5; -0x1.642c8590b2164p-5; 0x1.47ae147ae147bp-5] y.
Definition fl_atan_pos (x : float) : float :=   (* x >= 0 *)
  if PrimFloat.ltb 1 x
  then fpi2 - 4 * atan_series (atan_half (atan_half (1 / x)))
  else 4 * atan_series (atan_half (atan_half x)).
Definition fl_atan (x : float) : float :=
  if PrimFloat.ltb x 0 then - fl_atan_pos (- x) else fl_atan_pos x.

(* C atan2(y,x) for finite arguments (signed zeros not distinguished) *)
Definition fl_atan2 (y x : float) : float :=
  if PrimFloat.ltb 0 x then fl_atan (y / x)
  else if PrimFloat.ltb x 0 then
         (if PrimFloat.ltb y 0 then fl_atan (y / x) - fpi else fl_atan (y / x) + fpi)
  else (if PrimFloat.ltb 0 y then fpi2 else if PrimFloat.ltb y 0 then - fpi2 else 0).

(* exp: x = k ln2 + r, |r| <= ln2/2 *)
Definition ln2_hi : float := 0x1.62e42f8000000p-1.
Definition ln2_lo : float := 0x1.be8e7bcd5e4f2p-27.
Definition fl_exp (x : float) : float :=
  if PrimFloat.ltb x (-745) then 0 else
  if PrimFloat.ltb 0x1.62d999999999ap+9 x then infinity else
  let k := fl_rint (x / fln2) in
  let r := (x - k * ln2_hi) - k * ln2_lo in
  let e := horner [0x1.0000000000000p+0; 0x1.0000000000000p+0; 0x1.0000000000000p-1; 0x1.5555555555555p-3; 0x1.5555555555555p-5; 0x1.1111111111111p-7; 0x1.6c16c16c16c17p-10; 0x1.a01a01a01a01ap-13; 0x1.a01a01a01a01ap-16; 0x1.71de3a556c734p-19; 0x1.27e4fb7789f5cp-22; 0x1.ae64567f544e4p-26; 0x1.1eed8eff8d898p-29; 0x1.6124613a86d09p-33] r in
  PrimFloat.ldshiftexp e (Uint63.of_Z (float_to_Z k + 2101)).

(* ln: x = m 2^e, m in [sqrt(1/2), sqrt 2); ln m = 2 atanh((m-1)/(m+1)) *)
Definition fl_ln (x : float) : float :=
  if PrimFloat.leb x 0 then (if PrimFloat.eqb x 0 then neg_infinity else nan) else
  let (m0, e0) := PrimFloat.frshiftexp x in
  let e := (Uint63.to_Z e0 - 2101)%Z in
  let '(m, e) := if PrimFloat.ltb m0 0x1.6a09e667f3bcdp-1 then (m0 * 2, (e - 1)%Z) else (m0, e) in
  let t := (m - 1) / (m + 1) in
  let y := t * t in
  let s := 2 * t * horner [0x1.0000000000000p+0; 0x1.5555555555555p-2; 0x1.999999999999ap-3; 0x1.2492492492492p-3; 0x1.c71c71c71c71cp-4; 0x1.745d1745d1746p-4; 0x1.3b13b13b13b14p-4; 0x1.1111111111111p-4; 0x1.e1e1e1e1e1e1ep-5; 0x1.af286bca1af28p-5; 0x1.8618618618618p-5; 0x1.642c8590b2164p-5; 0x1.47ae147ae147bp-5; 0x1.2f684bda12f68p-5] y in
  Z_to_float e * fln2 + s.

Definition fl_pow (x y : float) : float := fl_exp (y * fl_ln x).
