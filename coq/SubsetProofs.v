(* C02 / C01: the regularisation subset.  The solvers receive the unknowns over which the norm is minimised as a LIST of
   indexes (min_x(n, list)).  The selection matrix S = diag [i in list] depends on the list only as a set: repeated indexes
   and the order are immaterial (AdjCholDec and AdjEnvelope used the raw list before the repair and gave other cofactors for
   {1,1,2,2} than for {1,2}). *)
From mathcomp Require Import all_ssreflect all_algebra.
Import GRing.Theory Num.Theory.
Local Open Scope ring_scope.

Section Subset.
Variable F : realFieldType.
Variable n : nat.

Definition selmx (l : seq 'I_n) : 'M[F]_n := \matrix_(i, j) ((i == j) && (i \in l))%:R.

Lemma selmx_eq_mem (l1 l2 : seq 'I_n) : l1 =i l2 -> selmx l1 = selmx l2.
Proof. by move=> E; apply/matrixP=> i j; rewrite !mxE E. Qed.

Lemma selmx_undup (l : seq 'I_n) : selmx (undup l) = selmx l.
Proof. by apply: selmx_eq_mem => i; rewrite mem_undup. Qed.

Lemma selmx_perm (l1 l2 : seq 'I_n) : perm_eq l1 l2 -> selmx l1 = selmx l2.
Proof. by move=> P; apply: selmx_eq_mem; apply: perm_mem. Qed.

Lemma selmx_sym (l : seq 'I_n) : (selmx l)^T = selmx l.
Proof.
apply/matrixP=> i j; rewrite !mxE eq_sym.
by case E: (i == j) => //=; rewrite (eqP E).
Qed.

(* the quadratic form of the selection is the sum of squares over the selected unknowns (each counted once) *)
Lemma selmx_idem (l : seq 'I_n) : selmx l *m selmx l = selmx l.
Proof.
apply/matrixP=> i j; rewrite !mxE (bigD1 i) //= !mxE eqxx /=.
rewrite big1 ?addr0; last first.
  by move=> k ki; rewrite !mxE eq_sym (negbTE ki) /= mul0r.
by case il: (i \in l); case ij: (i == j) => /=; rewrite ?mulr0 ?mul0r ?mulr1 // -?(eqP ij) ?il ?mulr1.
Qed.
End Subset.
