(* Exact rational reference model of a weighted least-squares adjustment with block covariance and
   subset regularisation (C01, C02, C03, C08, C10, C20): definitions only, executable by vm_compute.
   Matrices are lists of rows over Q (always kept reduced by Qred). *)
From Coq Require Import List QArith Qabs ZArith Bool Arith Lia.
Import ListNotations.
Local Open Scope Q_scope.

Definition vec := list Q.
Definition mat := list vec.

Definition qadd a b := Qred (a + b).
Definition qsub a b := Qred (a - b).
Definition qmul a b := Qred (a * b).
Definition qdiv a b := Qred (a / b).
Definition qzero (a : Q) : bool := Z.eqb (Qnum a) 0.
Definition qabs (a : Q) : Q := Qabs a.
Definition qleb (a b : Q) : bool := match Qcompare a b with Gt => false | _ => true end.

Fixpoint dot (a b : vec) : Q :=
  match a, b with x :: a', y :: b' => qadd (qmul x y) (dot a' b') | _, _ => 0 end.
Definition mvec (M : mat) (v : vec) : vec := map (fun r => dot r v) M.
Definition vsub (a b : vec) : vec := map (fun p => qsub (fst p) (snd p)) (combine a b).
Definition vadd (a b : vec) : vec := map (fun p => qadd (fst p) (snd p)) (combine a b).
Definition vscale (k : Q) (a : vec) : vec := map (qmul k) a.
Definition nthq (v : vec) (i : nat) : Q := nth i v 0.

Fixpoint mtrans_aux (n : nat) (M : mat) : mat :=
  match n with O => [] | S n' => map (fun r => hd 0 r) M :: mtrans_aux n' (map (@tl Q) M) end.
Definition mtrans (ncols : nat) (M : mat) : mat := mtrans_aux ncols M.
Definition mmul (ncolsB : nat) (A B : mat) : mat :=
  let Bt := mtrans ncolsB B in map (fun r => map (fun c => dot r c) Bt) A.
Definition unit_vec (n i : nat) : vec := map (fun j => if Nat.eqb i j then 1 else 0) (seq 0 n).
Definition ident (n : nat) : mat := map (unit_vec n) (seq 0 n).
Definition vzero (v : vec) : bool := forallb qzero v.
Definition mzero (M : mat) : bool := forallb vzero M.

(* ---- band storage of a symmetric matrix (CovMat / BlockDiagonal): upper band by rows ---- *)
Fixpoint take {A} (n : nat) (l : list A) : list A :=
  match n, l with S n', x :: r => x :: take n' r | _, _ => [] end.
Fixpoint drop {A} (n : nat) (l : list A) : list A :=
  match n, l with S n', _ :: r => drop n' r | _, _ => l end.
(* rows of the upper band: row i (0-based) holds min(band, dim-1-i)+1 entries *)
Fixpoint band_rows (dim band i : nat) (vals : vec) (fuel : nat) : list vec :=
  match fuel with
  | O => []
  | S f => let k := S (Nat.min band (dim - 1 - i)) in take k vals :: band_rows dim band (S i) (drop k vals) f
  end.
Definition band_entry (rows : list vec) (band i j : nat) : Q :=
  let (a, b) := if Nat.leb i j then (i, j) else (j, i) in
  if Nat.leb (b - a) band then nthq (nth a rows []) (b - a) else 0.
Definition band_to_dense (dim band : nat) (vals : vec) : mat :=
  let rows := band_rows dim band 0 vals dim in
  map (fun i => map (fun j => band_entry rows band i j) (seq 0 dim)) (seq 0 dim).
Definition band_count (dim band : nat) : nat := (dim * (band + 1) - band * (band + 1) / 2)%nat.

(* block diagonal assembly *)
Fixpoint blockdiag_aux (before total : nat) (blocks : list (nat * mat)) : mat :=
  match blocks with
  | [] => []
  | (d, B) :: r =>
    map (fun row => repeat 0 before ++ row ++ repeat 0 (total - before - d)) B ++ blockdiag_aux (before + d) total r
  end.
Definition blockdiag (blocks : list (nat * mat)) : mat :=
  blockdiag_aux 0 (fold_right (fun b s => (fst b + s)%nat) 0%nat blocks) blocks.

(* ---- Gauss-Jordan reduction (exact) ---- *)
(* state: rows already holding a pivot (with the pivot column), and the remaining rows *)
Fixpoint find_pivot (j : nat) (rows : mat) (acc : mat) : option (vec * mat) :=
  match rows with
  | [] => None
  | r :: rest => if qzero (nthq r j) then find_pivot j rest (acc ++ [r]) else Some (r, acc ++ rest)
  end.
Definition eliminate (j : nat) (p : vec) (r : vec) : vec :=
  let f := nthq r j in if qzero f then r else vsub r (vscale f p).
Fixpoint gj (cols : list nat) (done : list (nat * vec)) (rest : mat) : list (nat * vec) * mat :=
  match cols with
  | [] => (done, rest)
  | j :: cs =>
    match find_pivot j rest [] with
    | None => gj cs done rest
    | Some (r, rest') =>
      let p := vscale (qdiv 1 (nthq r j)) r in
      gj cs (map (fun d => (fst d, eliminate j p (snd d))) done ++ [(j, p)]) (map (eliminate j p) rest')
    end
  end.
(* reduce the first [n] columns of an augmented matrix *)
Definition rref (n : nat) (M : mat) : list (nat * vec) * mat := gj (seq 0 n) [] M.

Definition pivots (R : list (nat * vec)) : list nat := map fst R.
Definition free_cols (n : nat) (R : list (nat * vec)) : list nat :=
  filter (fun j => negb (existsb (Nat.eqb j) (pivots R))) (seq 0 n).
Fixpoint lookup (j : nat) (R : list (nat * vec)) : option vec :=
  match R with [] => None | (p, r) :: t => if Nat.eqb p j then Some r else lookup j t end.

(* inverse of a nonsingular n x n matrix; None if singular *)
Definition inverse (n : nat) (M : mat) : option mat :=
  let aug := map (fun p => fst p ++ snd p) (combine M (ident n)) in
  let (R, _) := rref n aug in
  if Nat.eqb (length R) n
  then Some (map (fun j => match lookup j R with Some r => drop n r | None => [] end) (seq 0 n))
  else None.

(* particular solution (free unknowns = 0) of N x = u from the reduced [N | u] *)
Definition particular (n : nat) (R : list (nat * vec)) : vec :=
  map (fun j => match lookup j R with Some r => nthq r n | None => 0 end) (seq 0 n).
(* null-space basis: one vector per free column f: g_f = 1, g_p = - R_p[f] *)
Definition null_basis (n : nat) (R : list (nat * vec)) : list vec :=
  map (fun f => map (fun j => if Nat.eqb j f then 1 else
                              match lookup j R with Some r => Qred (- nthq r f) | None => 0 end) (seq 0 n))
      (free_cols n R).

Inductive result :=
| Solved (x v : vec) (ssq : Q) (defect : nat) (Qxx : mat) (G : list vec)
| BadRegularization (defect : nat)
| NotPositiveDefinite.

Definition submat (idx : list nat) (M : mat) : mat :=
  map (fun i => map (fun j => nthq (nth i M []) j) idx) idx.
(* embed a |idx| x |idx| matrix into n x n, zeros elsewhere *)
Fixpoint index_of (j : nat) (idx : list nat) (k : nat) : option nat :=
  match idx with [] => None | i :: r => if Nat.eqb i j then Some k else index_of j r (S k) end.
Definition embed (n : nat) (idx : list nat) (M : mat) : mat :=
  map (fun i => map (fun j => match index_of i idx 0, index_of j idx 0 with
                              | Some a, Some b => nthq (nth a M []) b | _, _ => 0 end) (seq 0 n)) (seq 0 n).

(* S as a 0/1 diagonal given by the list of selected unknowns (0-based) *)
Definition sel (n : nat) (S : list nat) : vec := map (fun j => if existsb (Nat.eqb j) S then 1 else 0) (seq 0 n).
Definition smul (s v : vec) : vec := map (fun p => qmul (fst p) (snd p)) (combine s v).

(* the adjustment: A (m x n), b, covariance C (m x m dense, from the blocks), selection S *)
Definition adjust (m n : nat) (A : mat) (b : vec) (C : mat) (S : list nat) : result :=
  match inverse m C with
  | None => NotPositiveDefinite
  | Some P =>
    let At := mtrans n A in
    let AtP := mmul m At P in
    let N := mmul n AtP A in
    let u := mvec AtP b in
    let aug := map (fun p => fst p ++ [snd p]) (combine N u) in
    let (R, _) := rref n aug in
    let x0 := particular n R in
    let G := null_basis n R in
    let d := length G in
    let s := sel n S in
    let piv := pivots R in
    let Q0 := match inverse (length piv) (submat piv N) with Some Iv => embed n piv Iv | None => [] end in
    match d with
    | O =>
      let v := vsub (mvec A x0) b in
      Solved x0 v (dot v (mvec P v)) 0 Q0 []
    | _ =>
      let GS := map (smul s) G in                          (* rows: (S g_k)' *)
      let M := map (fun gs => map (fun g => dot gs g) G) GS in   (* G' S G *)
      match inverse d M with
      | None => BadRegularization d
      | Some Mi =>
        (* T = I - G Mi G'S ;  x = T x0 *)
        let c := mvec Mi (mvec GS x0) in                   (* Mi G'S x0 *)
        let x := vsub x0 (fold_right vadd (repeat 0 n) (map (fun p => vscale (fst p) (snd p)) (combine c G))) in
        let Gm := G in                                     (* d rows of length n = G' *)
        let MiGS := mmul n Mi GS in                        (* d x n *)
        let GMiGS := mmul n (mtrans n Gm) MiGS in          (* n x n *)
        let T := map (fun p => vsub (fst p) (snd p)) (combine (ident n) GMiGS) in
        let Qx := mmul n (mmul n T Q0) (mtrans n T) in
        let v := vsub (mvec A x) b in
        Solved x v (dot v (mvec P v)) d Qx G
      end
    end
  end.

(* exact optimality certificates for a candidate solution (kind C): normal equations and
   orthogonality to the null space in the S inner product *)
Definition check_normal_eq (m n : nat) (A : mat) (b : vec) (P : mat) (x : vec) : bool :=
  vzero (mvec (mmul m (mtrans n A) P) (vsub (mvec A x) b)).
Definition check_null_orth (n : nat) (G : list vec) (S : list nat) (x : vec) : bool :=
  forallb (fun g => qzero (dot (smul (sel n S) g) x)) G.
Definition check_null (A : mat) (G : list vec) : bool := forallb (fun g => vzero (mvec A g)) G.

(* comparison of implementation numbers (exact dyadic rationals) with the reference, tolerance
   tol * max(1, max |ref|) *)
Definition vmaxabs (v : vec) : Q := fold_right (fun a m => if qleb m (qabs a) then qabs a else m) 0 v.
Definition close_vec (tol : Q) (ref impl : vec) : bool :=
  Nat.eqb (length ref) (length impl) &&
  let sc := if qleb 1 (vmaxabs ref) then vmaxabs ref else 1 in
  forallb (fun p => qleb (qabs (fst p - snd p)) (tol * sc)) (combine ref impl).
Definition close_q (tol : Q) (sc ref impl : Q) : bool :=
  qleb (qabs (ref - impl)) (tol * (if qleb 1 (qabs sc) then qabs sc else 1)).
