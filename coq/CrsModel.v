(* C16: compressed-row storage as the code keeps it, and SparseMatrix::transpose as the stable distribution it performs.
   A row is the list of (column index (1-based), value) pairs in storage order -- duplicates and unsorted columns are
   allowed, as new_row()/add_element() allow them.  transpose() counts the entries of every column, turns the counts into
   start positions and then walks the rows in order, appending (row index, value) at the current end of the bucket of
   the element's column (trptr[k]++): `put`/`scatter` below are that walk with the buckets kept as lists instead of as
   segments of one array (the pointer arithmetic of the counting pass is what the exact K comparison of the storage
   order checks on every run).  No proofs here: the model still runs when a proof breaks. *)
From Coq Require Import List Arith QArith.
Import ListNotations.

Definition crow := list (nat * Q).
Definition crs := list crow.

Fixpoint put (b : list crow) (k : nat) (e : nat * Q) : list crow :=
  match b, k with
  | [], _ => []
  | r :: b', O => (r ++ [e]) :: b'
  | r :: b', S k' => r :: put b' k' e
  end.

Definition scatter_row (r : nat) (row : crow) (b : list crow) : list crow :=
  fold_left (fun b ce => put b (fst ce - 1) (r, snd ce)) row b.

Fixpoint scatter (r : nat) (A : crs) (b : list crow) : list crow :=
  match A with [] => b | row :: A' => scatter (S r) A' (scatter_row r row b) end.

Definition transpose (cols : nat) (A : crs) : crs := scatter 1 A (repeat [] cols).

(* what the code requires of its input: column indices in 1..cols (add_element does not check; outside it writes
   outside the arrays -- excluded by the guard of the theorems, exercised under ASan by the harness) *)
Definition wf_row (cols : nat) (row : crow) : bool := forallb (fun ce => Nat.leb 1 (fst ce) && Nat.leb (fst ce) cols) row.
Definition wf (cols : nat) (A : crs) : bool := forallb (wf_row cols) A.

(* specification: row c of the transpose lists, row by row and in storage order, the entries of column c *)
Definition pick (c r : nat) (row : crow) : crow := map (fun ce => (r, snd ce)) (filter (fun ce => Nat.eqb (fst ce) c) row).
Fixpoint spec_row (c r : nat) (A : crs) : crow :=
  match A with [] => [] | row :: A' => pick c r row ++ spec_row c (S r) A' end.

(* the values stored at index k of a row (several when the index is repeated; the dense entry is their sum) *)
Definition vals_at (k : nat) (row : crow) : list Q := map snd (filter (fun ce => Nat.eqb (fst ce) k) row).

(* exact comparison used by the correspondence (Qeq_bool would identify 1/2 and 2/4; the harness sends reduced dyadics,
   so syntactic equality of numerator/denominator after Qred is the comparison) *)
Definition eq_entry (a b : nat * Q) : bool := Nat.eqb (fst a) (fst b) && Qeq_bool (snd a) (snd b).
Fixpoint eq_row (a b : crow) : bool :=
  match a, b with [], [] => true | x :: a', y :: b' => eq_entry x y && eq_row a' b' | _, _ => false end.
Fixpoint eq_crs (a b : crs) : bool :=
  match a, b with [], [] => true | x :: a', y :: b' => eq_row x y && eq_crs a' b' | _, _ => false end.

(* case: cols, input storage, the implementation's transpose and double transpose (storage order) *)
Definition judge_crs (c : nat * crs * crs * crs) : list nat :=
  match c with (cols, A, T, TT) =>
    (if wf cols A then [] else [0%nat]) ++
    (if eq_crs (transpose cols A) T then [] else [1%nat]) ++
    (if eq_crs (transpose (length A) (transpose cols A)) TT then [] else [2%nat])
  end.
Fixpoint judge_all_crs (k : nat) (cs : list (nat * crs * crs * crs)) : list (nat * list nat) :=
  match cs with [] => [] | c :: r => match judge_crs c with [] => judge_all_crs (S k) r | l => (k, l) :: judge_all_crs (S k) r end end.
