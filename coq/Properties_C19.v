(* C19 -- gama-g3 reproduces consistent global networks: property theorems only. *)
From Coq Require Import Reals Lra.
Local Open Scope R_scope.

(* local north-east-up frame at latitude b, longitude l: rows of the rotation from ECEF *)
Definition north b l := (- sin b * cos l, - sin b * sin l, cos b).
Definition east (b l : R) := (- sin l, cos l, 0).
Definition up b l := (cos b * cos l, cos b * sin l, sin b).
Definition dot3 (u v : R * R * R) : R :=
  let '(a, b, c) := u in let '(x, y, z) := v in a * x + b * y + c * z.

(* the frame is orthonormal everywhere on the ellipsoid (poles and antimeridian included) *)
Theorem C19_neu_frame_is_orthonormal b l :
  dot3 (north b l) (north b l) = 1 /\ dot3 (east b l) (east b l) = 1 /\ dot3 (up b l) (up b l) = 1 /\
  dot3 (north b l) (east b l) = 0 /\ dot3 (north b l) (up b l) = 0 /\ dot3 (east b l) (up b l) = 0.
Proof.
  unfold dot3, north, east, up.
  pose proof (sin2_cos2 b) as Hb. pose proof (sin2_cos2 l) as Hl. unfold Rsqr in Hb, Hl.
  set (sb := sin b) in *. set (cb := cos b) in *. set (sl := sin l) in *. set (cl := cos l) in *.
  repeat split.
  - replace (- sb * cl * (- sb * cl) + - sb * sl * (- sb * sl) + cb * cb) with (sb * sb * (sl * sl + cl * cl) + cb * cb) by ring. rewrite Hl. lra.
  - replace (- sl * - sl + cl * cl + 0 * 0) with (sl * sl + cl * cl) by ring. exact Hl.
  - replace (cb * cl * (cb * cl) + cb * sl * (cb * sl) + sb * sb) with (cb * cb * (sl * sl + cl * cl) + sb * sb) by ring. rewrite Hl. lra.
  - ring.
  - ring_simplify. replace (- sb * cl ^ 2 * cb - sb * cb * sl ^ 2 + sb * cb) with (sb * cb * (1 - (sl * sl + cl * cl))) by ring. rewrite Hl. ring.
  - ring.
Qed.
Print Assumptions C19_neu_frame_is_orthonormal.

(* hence corrections (dn, de, du) and (dx, dy, dz) have the same length: a consistent vector observation between two
   points has the same misclosure in either frame, in particular zero *)
Theorem C19_rotation_preserves_length b l (x y z : R) :
  let v := (x, y, z) in
  (dot3 (north b l) v) ^ 2 + (dot3 (east b l) v) ^ 2 + (dot3 (up b l) v) ^ 2 = x ^ 2 + y ^ 2 + z ^ 2.
Proof.
  cbv zeta. unfold dot3, north, east, up.
  pose proof (sin2_cos2 b) as Hb. pose proof (sin2_cos2 l) as Hl. unfold Rsqr in Hb, Hl.
  set (sb := sin b) in *. set (cb := cos b) in *. set (sl := sin l) in *. set (cl := cos l) in *.
  replace ((- sb * cl * x + - sb * sl * y + cb * z) ^ 2 + (- sl * x + cl * y + 0 * z) ^ 2 + (cb * cl * x + cb * sl * y + sb * z) ^ 2)
    with ((sb * sb + cb * cb) * ((cl * x + sl * y) ^ 2 + z ^ 2) + (- sl * x + cl * y) ^ 2) by ring.
  rewrite Hb.
  replace (1 * ((cl * x + sl * y) ^ 2 + z ^ 2) + (- sl * x + cl * y) ^ 2) with ((sl * sl + cl * cl) * (x ^ 2 + y ^ 2) + z ^ 2) by ring.
  rewrite Hl. ring.
Qed.

(* redundancy as reported: equations - parameters + defect (an identity of the statistics block, stated for the record) *)
Theorem C19_redundancy_formula (equations parameters defect : nat) :
  (parameters <= equations + defect)%nat -> (equations + defect - parameters + parameters = equations + defect)%nat.
Proof. intro H. apply Nat.sub_add. exact H. Qed.
