(* C19 -- gama-g3 reproduces consistent global networks, independent of algorithm: property theorems only.
   Proofs are in G3Proofs.v (real analysis) and LsqSpec.v (linear algebra, shared with C01/C02/C06);
   G3Run.v is the executable transliteration the correspondence check evaluates. *)
From Coq Require Import Reals Lra.
From Coquelicot Require Import Coquelicot.
From Gama Require Import LinProofs G3Proofs.
Local Open Scope R_scope.

(* the local north-east-up frame is orthonormal everywhere on the ellipsoid (poles and antimeridian included) *)
Theorem C19_neu_frame_is_orthonormal b l :
  dot (north b l) (north b l) = 1 /\ dot (east b l) (east b l) = 1 /\ dot (up b l) (up b l) = 1 /\
  dot (north b l) (east b l) = 0 /\ dot (north b l) (up b l) = 0 /\ dot (east b l) (up b l) = 0.
Proof. exact (neu_frame_is_orthonormal b l). Qed.
Print Assumptions C19_neu_frame_is_orthonormal.

(* hence corrections (dn, de, du) and (dx, dy, dz) have the same length: a consistent vector has the same
   misclosure in either frame, in particular zero *)
Theorem C19_rotation_preserves_length b l (x y z : R) :
  let v := (x, y, z) in
  (dot (north b l) v) ^ 2 + (dot (east b l) v) ^ 2 + (dot (up b l) v) ^ 2 = x ^ 2 + y ^ 2 + z ^ 2.
Proof. exact (rotation_preserves_length b l x y z). Qed.
Print Assumptions C19_rotation_preserves_length.

(* coefficients of the zenith angle (target; the station has the opposite signs) *)
Theorem C19_zenith_partials n e u : (n <> 0 \/ e <> 0) ->
  is_derive (fun t => g3zen t e u) n (n * u * (1 / (hor n e * (n ^ 2 + e ^ 2 + u ^ 2)))) /\
  is_derive (fun t => g3zen n t u) e (e * u * (1 / (hor n e * (n ^ 2 + e ^ 2 + u ^ 2)))) /\
  is_derive (fun t => g3zen n e t) u (- (hor n e / (n ^ 2 + e ^ 2 + u ^ 2))).
Proof. intro H. exact (conj (g3_zenith_dn n e u H) (conj (g3_zenith_de n e u H) (g3_zenith_du n e u H))). Qed.
Print Assumptions C19_zenith_partials.

(* the coefficients without the factor u (the code before the repair) are not the partial derivatives *)
Theorem C19_zenith_old_coefficient_refuted :
  exists n e u, (n <> 0 \/ e <> 0) /\
    ~ is_derive (fun t => g3zen t e u) n (n * (1 / (hor n e * (n ^ 2 + e ^ 2 + u ^ 2)))).
Proof. exact g3_zenith_old_coefficient_refuted. Qed.
Print Assumptions C19_zenith_old_coefficient_refuted.

(* horizontal directions and angles *)
Theorem C19_direction_coefficients s d n e : 0 < d -> n = d * cos s -> e = d * sin s ->
  - (sin s / d) = - e / (n ^ 2 + e ^ 2) /\ cos s / d = n / (n ^ 2 + e ^ 2).
Proof. exact (g3_direction_coefficients s d n e). Qed.
Print Assumptions C19_direction_coefficients.

Theorem C19_angle_left_target_sign (fl : R -> R) (sr x dfl : R) :
  is_derive fl x dfl -> is_derive (fun t => sr - fl t) x (- dfl).
Proof. exact (g3_angle_left_target_sign fl sr x dfl). Qed.
Print Assumptions C19_angle_left_target_sign.

Theorem C19_reflex_angle_recovered (t : R) : 0 <= t < 2 * PI ->
  (if Rlt_dec (sin t) 0 then 2 * PI - acos (cos t) else acos (cos t)) = t.
Proof. exact (g3_reflex_angle_recovered t). Qed.
Print Assumptions C19_reflex_angle_recovered.

Theorem C19_angle_triple_product b l al ar :
  let VL := cross (up b l) (horiz b l al) in let VR := cross (up b l) (horiz b l ar) in
  dot VL VR = cos (ar - al) /\ dot (cross VL VR) (up b l) = - sin (ar - al).
Proof. exact (g3_angle_triple_product b l al ar). Qed.
Print Assumptions C19_angle_triple_product.

(* approximate coordinates through a vector with antenna heights *)
Theorem C19_vector_init_without_heights_refuted :
  exists (f t w d hf ht : R), d = (t + w * ht) - (f + w * hf) /\ f + d <> t.
Proof. exact g3_vector_init_without_heights_refuted. Qed.
Print Assumptions C19_vector_init_without_heights_refuted.

(* non-vacuity: the premises of the partials hold on a concrete line of sight *)
Example C19_zenith_premise_holds : (3 <> 0 \/ 4 <> 0) /\ hor 3 4 = 5.
Proof.
  split; [left; lra|]. unfold hor. replace (3 ^ 2 + 4 ^ 2) with (5 * 5) by ring. apply sqrt_square. lra.
Qed.

(* redundancy as reported: equations - parameters + defect (an identity of the statistics block, stated for the record) *)
Theorem C19_redundancy_formula (equations parameters defect : nat) :
  (parameters <= equations + defect)%nat -> (equations + defect - parameters + parameters = equations + defect)%nat.
Proof. intro H. apply Nat.sub_add. exact H. Qed.
Print Assumptions C19_redundancy_formula.
