(* C11: the automaton regenerated from gkfparser.cpp (GkfGen.v) is the stack machine of the grammar in GkfDefs.v.
   Everything that depends on the generated tables is discharged by a finite check over all states and tags
   (vm_compute) and lifted to event sequences of any length by induction. *)
From Coq Require Import List Bool Arith Lia String.
From Gama Require Import GkfGen GkfModel GkfDefs.
Import ListNotations.

Lemma all_states_complete s : In s all_states.
Proof. destruct s; unfold all_states; simpl; tauto. Qed.
Lemma all_tags_complete t : In t all_tags.
Proof. destruct t; unfold all_tags; simpl; tauto. Qed.

Lemma sim_ok_true : sim_ok = true.
Proof. vm_compute. reflexivity. Qed.

Lemma sim_state_true s : sim_state s = true.
Proof. pose proof sim_ok_true as H. unfold sim_ok in H. rewrite forallb_forall in H. apply H. apply all_states_complete. Qed.

(* one step *)
Lemma step_refines s k e : abs s = Some k ->
  match step (Running s) e with
  | Running s' => abs s' = sstep code_grammar k e /\ abs s' <> None
  | Failed _ => sstep code_grammar k e = None
  end.
Proof.
  intro A. pose proof (sim_state_true s) as H. unfold sim_state in H. rewrite A in H.
  apply andb_true_iff in H. destruct H as [H Htxt]. apply andb_true_iff in H. destruct H as [Hop Hcl].
  destruct e as [t| |]; simpl step.
  - rewrite forallb_forall in Hop. specialize (Hop t (all_tags_complete t)).
    destruct (start_step s t) as [s'|l].
    + apply andb_true_iff in Hop. destruct Hop as [N E]. apply ostack_eqb_eq in E. split; [exact E|].
      destruct (abs s'); [discriminate | discriminate].
    + destruct (sstep code_grammar k (Open t)); [discriminate | reflexivity].
  - destruct (end_step s) as [s' f|l].
    + apply andb_true_iff in Hcl. destruct Hcl as [N E]. apply ostack_eqb_eq in E. split; [exact E|].
      destruct (abs s'); [discriminate | discriminate].
    + destruct (sstep code_grammar k Close); [discriminate | reflexivity].
  - apply Bool.eqb_prop in Htxt. destruct (takes_text s).
    + destruct (sstep code_grammar k Text) as [k'|] eqn:E; [|discriminate].
      split; [|rewrite A; discriminate].
      (* text leaves the stack unchanged *)
      unfold sstep in E. destruct k as [|[c q] rest]; [discriminate|]. destruct (txt code_grammar c); [|discriminate].
      rewrite A. exact (eq_sym (f_equal Some (eq_sym (f_equal (fun x => match x with Some y => y | None => [] end) E)))).
    + destruct (sstep code_grammar k Text); [discriminate | reflexivity].
Qed.

(* any number of steps *)
Theorem run_refines : forall w s k, abs s = Some k ->
  match run (Running s) w with
  | Running s' => abs s' = smrun code_grammar (Some k) w /\ abs s' <> None
  | Failed _ => smrun code_grammar (Some k) w = None
  end.
Proof.
  induction w as [|e w IH]; intros s k A.
  - simpl. split; [exact A | rewrite A; discriminate].
  - pose proof (step_refines s k e A) as S.
    change (run (Running s) (e :: w)) with (run (step (Running s) e) w).
    change (smrun code_grammar (Some k) (e :: w)) with (smrun code_grammar (sstep code_grammar k e) w).
    destruct (step (Running s) e) as [s'|l].
    + destruct S as [E N]. destruct (abs s') as [k'|] eqn:A'; [|contradiction].
      rewrite <- E. apply IH. exact A'.
    + rewrite S. rewrite run_failed. apply smrun_none.
Qed.

(* states abstracted to the closed document *)
Lemma abs_doc1 s : abs s = Some k_doc1 -> s = state_stop.
Proof. destruct s; simpl; intro H; try discriminate; reflexivity. Qed.

(* the parser reaches state_stop on the events of a document exactly when the document is in the code's grammar *)
Theorem accepts_iff_grammar t cs :
  run (Running state_start) (flat (Elt t cs)) = Running state_stop <-> vdoc code_grammar (Elt t cs) = true.
Proof.
  rewrite <- sm_accepts_flat. unfold sm_accepts.
  pose proof (run_refines (flat (Elt t cs)) state_start [(None, 0)] eq_refl) as R.
  destruct (run (Running state_start) (flat (Elt t cs))) as [s'|l].
  - destruct R as [E N]. unfold stack, ctx in *. rewrite <- E. split.
    + intro H. injection H as ->. reflexivity.
    + intro H. f_equal. apply abs_doc1.
      destruct (abs s') as [[|[[c|] q] [|f r]]|] eqn:A; try discriminate.
      (* [(None, q)] with fin None q: q = 1 *)
      simpl in H. destruct q as [|[|q]]; try discriminate. reflexivity.
  - unfold stack, ctx in *. rewrite R. split; discriminate.
Qed.

(* ---------- every refusal at tag level goes through error(): it carries a line ---------- *)
Definition located_tables : bool :=
  forallb (fun s => forallb (fun t => match start_step s t with SErr false => false | _ => true end) all_tags &&
                    match end_step s with EErr false => false | _ => true end) all_states.
Lemma located_tables_true : located_tables = true.
Proof. vm_compute. reflexivity. Qed.

Theorem rejections_located : forall w o l, (forall l', o = Failed l' -> l' = true) -> run o w = Failed l -> l = true.
Proof.
  induction w as [|e w IH]; intros o l Ho H.
  - simpl in H. apply Ho. exact H.
  - change (run o (e :: w)) with (run (step o e) w) in H. apply (IH (step o e) l); [|exact H].
    intros l' E. destruct o as [s|l0]; [|simpl in E; apply Ho; exact E].
    pose proof located_tables_true as T. unfold located_tables in T. rewrite forallb_forall in T.
    specialize (T s (all_states_complete s)). apply andb_true_iff in T. destruct T as [T1 T2].
    destruct e as [t| |]; simpl in E.
    + rewrite forallb_forall in T1. specialize (T1 t (all_tags_complete t)).
      destruct (start_step s t) as [s'|[|]]; [discriminate | injection E as <-; reflexivity | discriminate].
    + destruct (end_step s) as [s' f|[|]]; [discriminate | injection E as <-; reflexivity | discriminate].
    + destruct (takes_text s); [discriminate | injection E as <-; reflexivity].
Qed.

(* ---------- the error state is absorbing (CoreParser::error keeps the first error; the handlers refuse everything) ---------- *)
Theorem error_state_refuses_everything :
  (forall t, exists l, start_step state_error t = SErr l) /\ (exists l, end_step state_error = EErr l) /\ takes_text state_error = false.
Proof.
  pose proof (sim_state_true state_error) as H. unfold sim_state in H. simpl abs in H.
  apply andb_true_iff in H. destruct H as [H H3]. apply andb_true_iff in H. destruct H as [H1 H2].
  split; [|split].
  - intro t. rewrite forallb_forall in H1. specialize (H1 t (all_tags_complete t)).
    destruct (start_step state_error t) as [s|l]; [discriminate | exists l; reflexivity].
  - destruct (end_step state_error) as [s f|l]; [discriminate | exists l; reflexivity].
  - destruct (takes_text state_error); [discriminate | reflexivity].
Qed.

(* ---------- documents valid for the XSD (element structure) are in the code's grammar ---------- *)
(* decided by a finite check over the regenerated content automata (GkfModel.checked_incl): the pairs of states the two
   grammars reach together form a simulation *)
Definition xsd_reach := reach_together tag all_tags xsd_grammar code_grammar.
Lemma xsd_incl_ok : incl_ok tag all_tags xsd_grammar code_grammar xsd_reach = true.
Proof. vm_compute. reflexivity. Qed.
Theorem xsd_documents_are_in_the_code_grammar d : vdoc xsd_grammar d = true -> vdoc code_grammar d = true.
Proof. exact (checked_incl tag all_tags all_tags_complete xsd_grammar code_grammar xsd_reach xsd_incl_ok d). Qed.

(* the code's tag-level grammar is strictly more liberal than the XSD (later stages may still refuse these) *)
Example code_accepts_two_networks :
  let d := Elt tag_gama_xml [Elt tag_network []; Elt tag_network []] in
  vdoc code_grammar d = true /\ vdoc xsd_grammar d = false.
Proof. split; reflexivity. Qed.
Example code_accepts_coordinates_without_points :
  let d := Elt tag_gama_xml [Elt tag_network [Elt tag_points_observations [Elt tag_coordinates [Elt tag_cov_mat [Txt]]]]] in
  vdoc code_grammar d = true /\ vdoc xsd_grammar d = false.
Proof. split; reflexivity. Qed.
Example both_refuse_coordinates_without_cov_mat :
  let d := Elt tag_gama_xml [Elt tag_network [Elt tag_points_observations [Elt tag_coordinates [Elt tag_point []]]]] in
  vdoc code_grammar d = false /\ vdoc xsd_grammar d = false.
Proof. split; reflexivity. Qed.
Example a_typical_document_is_accepted :
  let d := Elt tag_gama_xml [Elt tag_network [Elt tag_description [Txt]; Elt tag_parameters [];
             Elt tag_points_observations [Elt tag_point []; Elt tag_obs [Elt tag_direction []; Elt tag_distance []; Elt tag_cov_mat [Txt]];
                                          Elt tag_vectors [Elt tag_vec []; Elt tag_cov_mat [Txt]]]]] in
  vdoc xsd_grammar d = true /\ run (Running state_start) (flat d) = Running state_stop.
Proof. split; reflexivity. Qed.

(* ---------- the tag recogniser ---------- *)
Local Open Scope string_scope.
Definition first_char_ok (e : string * string * tag) : bool :=
  let '(c, n, _) := e in match c, n with String a EmptyString, String b _ => Ascii.eqb a b | _, _ => false end.
(* what tag() returns for a name: the first entry of the switch whose case character and name match *)
Fixpoint tag_of (tbl : list (string * string * tag)) (name : string) : tag :=
  match tbl with
  | [] => tag_unknown
  | (c, n, t) :: r => if first_char_ok (c, n, t) && String.eqb n name then t else tag_of r name
  end.
Definition documented_names : list (string * tag) :=
  [("gama-local", tag_gama_xml); ("gama-xml", tag_gama_xml); ("network", tag_network); ("description", tag_description);
   ("parameters", tag_parameters); ("points-observations", tag_points_observations); ("point", tag_point); ("obs", tag_obs);
   ("cov-mat", tag_cov_mat); ("direction", tag_direction); ("distance", tag_distance); ("angle", tag_angle);
   ("s-distance", tag_s_distance); ("z-angle", tag_z_angle); ("height-differences", tag_height_differences); ("dh", tag_dh);
   ("coordinates", tag_coordinates); ("vectors", tag_vectors); ("vec", tag_vec); ("azimuth", tag_azimuth)].
Fixpoint lookup (l : list (string * tag)) (name : string) : tag :=
  match l with [] => tag_unknown | (n, t) :: r => if String.eqb n name then t else lookup r name end.

Definition tag_table_ok : bool :=
  forallb first_char_ok tag_table &&
  forallb (fun e => let '(n, t) := e in tag_beq (tag_of tag_table n) t) documented_names &&
  forallb (fun e => let '(_, n, t) := e in tag_beq (lookup documented_names n) t) tag_table.
Lemma tag_table_ok_true : tag_table_ok = true.
Proof. vm_compute. reflexivity. Qed.

Lemma tag_of_in tbl name : tag_of tbl name <> tag_unknown -> exists c, In (c, name, tag_of tbl name) tbl.
Proof.
  induction tbl as [|[[c n] t] r IH]; intro H; [simpl in H; contradiction|].
  change (tag_of ((c, n, t) :: r) name) with (if first_char_ok (c, n, t) && String.eqb n name then t else tag_of r name) in *.
  destruct (first_char_ok (c, n, t) && String.eqb n name) eqn:E.
  - apply andb_true_iff in E. destruct E as [_ E]. apply String.eqb_eq in E. subst. exists c. left. reflexivity.
  - destruct (IH H) as [c' Hc]. exists c'. right. exact Hc.
Qed.

(* every element name of the documented vocabulary is recognised as its tag, every other string is tag_unknown *)
Theorem tag_recogniser_exact name : tag_of tag_table name = lookup documented_names name.
Proof.
  pose proof tag_table_ok_true as H. unfold tag_table_ok in H.
  apply andb_true_iff in H. destruct H as [H H3]. apply andb_true_iff in H. destruct H as [H1 H2].
  rewrite forallb_forall in H2, H3.
  destruct (tag_beq (lookup documented_names name) tag_unknown) eqn:U.
  - apply internal_tag_dec_bl in U. rewrite U.
    destruct (tag_beq (tag_of tag_table name) tag_unknown) eqn:V; [now apply internal_tag_dec_bl in V|].
    exfalso. assert (N : tag_of tag_table name <> tag_unknown).
    { intro E. rewrite E in V. discriminate. }
    destruct (tag_of_in _ _ N) as [c Hin]. specialize (H3 _ Hin). cbv beta iota in H3.
    apply internal_tag_dec_bl in H3. rewrite U in H3. apply N. symmetry. exact H3.
  - (* name is documented: find it *)
    assert (L : forall l, tag_beq (lookup l name) tag_unknown = false -> In (name, lookup l name) l).
    { induction l as [|[n t] r IH]; simpl; [discriminate|]. destruct (String.eqb n name) eqn:E.
      - apply String.eqb_eq in E. subst. intros _. left. reflexivity.
      - intro K. right. apply IH. exact K. }
    specialize (H2 _ (L _ U)). cbv beta iota in H2. apply internal_tag_dec_bl in H2. exact H2.
Qed.
