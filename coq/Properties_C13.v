(* C13 -- exported input reproduces the adjustment and is a fixed point: property theorems only (linear-algebra core). *)
From mathcomp Require Import all_ssreflect all_algebra.
From Gama Require Import LsqSpec.
Import GRing.Theory Num.Theory.
Local Open Scope ring_scope.

(* the exported approximate coordinates are the adjusted ones: a stationary point of the problem (A' P b = 0 for the system
   linearised there) needs no correction, whatever algorithm re-adjusts it ... *)
Theorem C13_stationary_point_needs_no_correction (F : realFieldType) (m n : nat) (A : 'M[F]_(m,n)) (P : 'M[F]_m)
  (b : 'cV[F]_m) : A^T *m P *m b = 0 -> normal_eq A P b 0.
Proof. exact: stationary_point_zero_correction. Qed.
Print Assumptions C13_stationary_point_needs_no_correction.

(* ... the residuals are then the right-hand side itself (unchanged observations, unchanged statistics), and every
   other minimiser differs from zero by a datum transformation only *)
Theorem C13_readjustment_changes_nothing (F : realFieldType) (m n : nat) (A : 'M[F]_(m,n)) (P : 'M[F]_m)
  (b : 'cV[F]_m) (x : 'cV[F]_n) : P^T = P -> psd P -> pd P -> A^T *m P *m b = 0 -> normal_eq A P b x ->
  res A b x = - b /\ A *m x = 0.
Proof.
move=> Ps Pp Pd Hs Hx; have H0 := stationary_point_zero_correction Hs.
have E := minimisers_same_residuals Ps Pp Pd H0 Hx.
have R0 : res A b 0 = - b by rewrite /res mulmx0 sub0r.
split; first by rewrite -E R0.
have := minimisers_differ_in_null Ps Pp Pd H0 Hx.
by rewrite subr0.
Qed.
Print Assumptions C13_readjustment_changes_nothing.
