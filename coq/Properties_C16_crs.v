(* C16 (storage part): property theorems only.  SparseMatrix::transpose, modelled on the compressed-row storage itself
   (CrsModel.v: rows of (index, value) pairs in storage order, any order, repeated indices allowed), preserves every
   entry; for every number of rows and columns and every storage. *)
From Coq Require Import List Arith QArith.
From Gama Require Import CrsModel CrsProofs.
Import ListNotations.
Local Open Scope nat_scope.

Theorem C16_crs_transpose_rows cols A c : wf cols A = true -> 1 <= c <= cols ->
  nth (c - 1) (transpose cols A) [] = spec_row c 1 A.
Proof. exact (transpose_rows cols A c). Qed.
Print Assumptions C16_crs_transpose_rows.

Theorem C16_crs_transpose_preserves_every_entry cols A r c : wf cols A = true -> 1 <= c <= cols -> 1 <= r ->
  vals_at r (nth (c - 1) (transpose cols A) []) = vals_at c (nth (r - 1) A []).
Proof. exact (transpose_entries cols A r c). Qed.
Print Assumptions C16_crs_transpose_preserves_every_entry.

Theorem C16_crs_transpose_shape cols A : length (transpose cols A) = cols /\ (wf cols A = true -> wf (length A) (transpose cols A) = true).
Proof. split; [exact (transpose_row_count cols A) | exact (transpose_wf cols A)]. Qed.
Print Assumptions C16_crs_transpose_shape.

Theorem C16_crs_transpose_twice cols A r c : wf cols A = true -> 1 <= c <= cols -> 1 <= r <= length A ->
  vals_at c (nth (r - 1) (transpose (length A) (transpose cols A)) []) = vals_at c (nth (r - 1) A []).
Proof. exact (transpose_twice_entries cols A r c). Qed.
Print Assumptions C16_crs_transpose_twice.

(* globally nothing is dropped or duplicated: the number of stored elements (the code's ncnt_) is preserved *)
Theorem C16_crs_transpose_keeps_the_element_count cols A : wf cols A = true ->
  length (concat (transpose cols A)) = length (concat A).
Proof. exact (transpose_count cols A). Qed.
Print Assumptions C16_crs_transpose_keeps_the_element_count.
