(* C11 -- any input is either adjusted or refused with a located diagnostic: property theorems only.
   GkfGen.v is regenerated from lib/gnu_gama/xml/gkfparser.{h,cpp} by tools/gkf_translate.py on every run;
   GkfModel.v (generic grammar / stack machine) and GkfProofs.v (the hand-written grammars and the abstraction)
   hold the proofs.  Events are those expat delivers for a well-formed document: open tag, close tag, non-blank text. *)
From Coq Require Import List Bool String.
From Gama Require Import GkfGen GkfModel GkfDefs GkfProofs Strings StringsProofs.
Import ListNotations.

(* the automaton of GKFparser::startElement / endElement / characterDataHandler reaches state_stop on the event
   stream of a document exactly when the document belongs to the element grammar the code implements
   (attribute values and covariance contents permitting: those are the handlers' own located refusals) *)
Theorem C11_parser_accepts_exactly_its_grammar (t : tag) (cs : list (node tag)) :
  run (Running state_start) (flat (Elt t cs)) = Running state_stop <-> vdoc code_grammar (Elt t cs) = true.
Proof. exact (accepts_iff_grammar t cs). Qed.
Print Assumptions C11_parser_accepts_exactly_its_grammar.

(* at every prefix of every event stream the parser state is the stack of open elements of that grammar *)
Theorem C11_parser_state_is_the_grammar_stack (w : list (ev tag)) (s : st) (k : stack tag) : abs s = Some k ->
  match run (Running s) w with
  | Running s' => abs s' = smrun code_grammar (Some k) w /\ abs s' <> None
  | Failed _ => smrun code_grammar (Some k) w = None
  end.
Proof. exact (run_refines w s k). Qed.
Print Assumptions C11_parser_state_is_the_grammar_stack.

(* documents that follow the element structure of xml/gama-local.xsd are accepted at tag level *)
Theorem C11_xsd_documents_are_accepted (t : tag) (cs : list (node tag)) :
  vdoc xsd_grammar (Elt t cs) = true -> run (Running state_start) (flat (Elt t cs)) = Running state_stop.
Proof. intro H. apply accepts_iff_grammar. apply xsd_documents_are_in_the_code_grammar. exact H. Qed.
Print Assumptions C11_xsd_documents_are_accepted.

(* every refusal decided by the automaton goes through CoreParser::error, which records the line *)
Theorem C11_every_tag_level_refusal_is_located (w : list (ev tag)) (l : bool) :
  run (Running state_start) w = Failed l -> l = true.
Proof. apply rejections_located. intros l' H. discriminate. Qed.
Print Assumptions C11_every_tag_level_refusal_is_located.

(* the first error wins and the error state refuses every further event *)
Theorem C11_error_is_absorbing (l : bool) (w : list (ev tag)) : run (Failed l) w = Failed l.
Proof. exact (run_failed l w). Qed.
Theorem C11_error_state_refuses_everything :
  (forall t, exists l, start_step state_error t = SErr l) /\ (exists l, end_step state_error = EErr l) /\ takes_text state_error = false.
Proof. exact error_state_refuses_everything. Qed.
Print Assumptions C11_error_state_refuses_everything.

(* GKFparser::tag recognises exactly the documented element names *)
Theorem C11_tag_recogniser_exact (name : string) : tag_of tag_table name = lookup documented_names name.
Proof. exact (tag_recogniser_exact name). Qed.
Print Assumptions C11_tag_recogniser_exact.

(* non-vacuity: a typical document satisfies the premises and is accepted; the code's grammar is strictly more
   liberal than the XSD in two documented places *)
Example C11_typical_document :
  let d := Elt tag_gama_xml [Elt tag_network [Elt tag_description [Txt]; Elt tag_parameters [];
             Elt tag_points_observations [Elt tag_point []; Elt tag_obs [Elt tag_direction []; Elt tag_distance []; Elt tag_cov_mat [Txt]];
                                          Elt tag_vectors [Elt tag_vec []; Elt tag_cov_mat [Txt]]]]] in
  vdoc xsd_grammar d = true /\ run (Running state_start) (flat d) = Running state_stop.
Proof. exact a_typical_document_is_accepted. Qed.

(* the literal recogniser at the pinned commit accepted a bare sign (repaired by ef4aedf) *)
Theorem C11_pinned_integer_recogniser_refuted : exists s, is_integer_pinned s = true /\ ~ integer_literal s.
Proof. exact is_integer_pinned_refuted. Qed.
Print Assumptions C11_pinned_integer_recogniser_refuted.

(* the literal recognisers applied before atof / atoi, as repaired: IsInteger accepts exactly the documented integer
   literals, and whatever IsFloat accepts is a documented floating-point literal (so atof never sees anything else) *)
Theorem C11_integer_recogniser_exact (s : str) : is_integer s = true <-> integer_literal s.
Proof. exact (is_integer_spec s). Qed.
Print Assumptions C11_integer_recogniser_exact.
Theorem C11_float_recogniser_sound (s : str) : is_float s = true -> float_literal s.
Proof. exact (is_float_sound s). Qed.
Print Assumptions C11_float_recogniser_sound.
