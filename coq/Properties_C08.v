(* C08 -- choice of datum in a free network changes only the datum: property theorems only. *)
From mathcomp Require Import all_ssreflect all_algebra.
From Gama Require Import LsqSpec.
Import GRing.Theory Num.Theory.
Local Open Scope ring_scope.

(* Whatever selections S1, S2 regularise the singular problem, the two solutions have the same adjusted
   observations A x, the same residuals and the same sum of squares (they are both minimisers). *)
Theorem C08_datum_changes_only_the_datum (F : realFieldType) (m n : nat) (A : 'M[F]_(m,n)) (P : 'M[F]_m)
  (b : 'cV[F]_m) (x1 x2 : 'cV[F]_n) : P^T = P -> psd P -> pd P ->
  normal_eq A P b x1 -> normal_eq A P b x2 ->
  A *m x1 = A *m x2 /\ res A b x1 = res A b x2 /\ wss A P b x1 = wss A P b x2.
Proof.
move=> Ps Pp Pd H1 H2; have [E1 E2] := datum_invariance Ps Pp Pd H1 H2.
by split=> //; split=> //; apply: (minimisers_same_residuals Ps Pp Pd).
Qed.
Print Assumptions C08_datum_changes_only_the_datum.

(* the difference of the two solutions is a datum transformation (an element of the null space of A) *)
Theorem C08_solutions_differ_by_a_datum_transformation (F : realFieldType) (m n : nat) (A : 'M[F]_(m,n))
  (P : 'M[F]_m) (b : 'cV[F]_m) (x1 x2 : 'cV[F]_n) : P^T = P -> psd P -> pd P ->
  normal_eq A P b x1 -> normal_eq A P b x2 -> A *m (x2 - x1) = 0.
Proof. move=> Ps Pp Pd H1 H2; exact: (minimisers_differ_in_null Ps Pp Pd H1 H2). Qed.
Print Assumptions C08_solutions_differ_by_a_datum_transformation.

(* corrections of the constrained coordinates: orthogonal to the datum transformations <=> minimal *)
Theorem C08_constrained_corrections_minimal (F : realFieldType) (m n : nat) (A : 'M[F]_(m,n)) (P : 'M[F]_m)
  (b : 'cV[F]_m) (S : 'M[F]_n) (x y : 'cV[F]_n) :
  P^T = P -> psd P -> pd P -> S^T = S -> (forall g : 'cV[F]_n, 0 <= qf S g) ->
  normal_eq A P b x -> normal_eq A P b y -> null_orthogonal A S x -> qf S x <= qf S y.
Proof. move=> Ps Pp Pd Ss Sp; exact: null_orthogonal_is_minnorm. Qed.
Print Assumptions C08_constrained_corrections_minimal.

(* cofactors of adjusted observations do not depend on the datum: A T = A for T = I - G(...)G'S with A G = 0 *)
Theorem C08_adjusted_observation_cofactors_datum_free (F : realFieldType) (m n : nat) (A : 'M[F]_(m,n))
  (Q0 T : 'M[F]_n) : A *m T = A -> A *m (T *m Q0 *m T^T) *m A^T = A *m Q0 *m A^T.
Proof.
move=> AT; have -> : A *m (T *m Q0 *m T^T) *m A^T = (A *m T) *m Q0 *m (A *m T)^T by rewrite trmx_mul !mulmxA.
by rewrite AT.
Qed.
Print Assumptions C08_adjusted_observation_cofactors_datum_free.
