(* C16 (graph part): property theorems only. *)
From Coq Require Import List Arith.
From Gama Require Import QLsq SparseRun SparseProofs.
Import ListNotations.
Theorem C16_column_graph_is_symmetric A n i j : i < n -> j < n ->
  nth j (nth i (graph_of A n) []) 0 = nth i (nth j (graph_of A n) []) 0.
Proof. exact (graph_symmetric A n i j). Qed.
Theorem C16_column_graph_has_no_loops A n i : i < n -> nth i (nth i (graph_of A n) []) 0 = 0.
Proof. exact (graph_no_loops A n i). Qed.
Print Assumptions C16_column_graph_is_symmetric.

(* "the computed ordering is a permutation with a consistent inverse": what the boolean judges of the correspondence accept is
   exactly that (the judge is part of the tie; these theorems remove it from what has to be trusted by reading) *)
From Coq Require Import Permutation.
Theorem C16_accepted_ordering_is_a_permutation n p : is_perm n p = true <-> Permutation (seq 1 n) p.
Proof. split; [exact (is_perm_sound n p) | exact (is_perm_complete n p)]. Qed.
Theorem C16_accepted_inverse_undoes_the_ordering p ip : inverse_ok p ip = true ->
  forall i, i < length p -> nth (nth i p 0 - 1) ip 0 = S i.
Proof. exact (inverse_ok_spec p ip). Qed.
Print Assumptions C16_accepted_ordering_is_a_permutation.
Print Assumptions C16_accepted_inverse_undoes_the_ordering.
