(* C16 (graph part): property theorems only. *)
From Coq Require Import List Arith.
From Gama Require Import QLsq SparseRun SparseProofs.
Import ListNotations.
Theorem C16_column_graph_is_symmetric A n i j : i < n -> j < n ->
  nth j (nth i (graph_of A n) []) 0 = nth i (nth j (graph_of A n) []) 0.
Proof. exact (graph_symmetric A n i j). Qed.
Theorem C16_column_graph_has_no_loops A n i : i < n -> nth i (nth i (graph_of A n) []) 0 = 0.
Proof. exact (graph_no_loops A n i). Qed.
Print Assumptions C16_column_graph_is_symmetric.
