(* C10 -- correlated observations are weighted by their full covariance matrix: property theorems only. *)
From mathcomp Require Import all_ssreflect all_algebra.
From Gama Require Import LsqSpec BandProofs.
Import GRing.Theory Num.Theory.
Local Open Scope ring_scope.

(* a cluster given with the covariance C = L L' (weights P = W' W, W = L^-1) is adjusted exactly as the decorrelated
   (whitened) problem with unit weights: same normal equations, same v'Pv, residuals related by W *)
Theorem C10_cluster_equals_its_whitened_reformulation (F : realFieldType) (m n : nat) (A : 'M[F]_(m,n)) (P W : 'M[F]_m)
  (b : 'cV[F]_m) (x : 'cV[F]_n) : P = W^T *m W ->
  (normal_eq (W *m A) 1%:M (W *m b) x <-> normal_eq A P b x) /\
  wss (W *m A) 1%:M (W *m b) x = wss A P b x /\ res (W *m A) (W *m b) x = W *m res A b x.
Proof. exact: whitening_equiv. Qed.
Print Assumptions C10_cluster_equals_its_whitened_reformulation.

(* the band copied by Cluster::activeCov (|i - j| <= band in the numbering of the ACTIVE observations) contains every
   non-zero entry of the sub-matrix: positions grow at least as fast as ranks *)
Theorem C10_active_band_suffices (T : Type) (zero : T) (cov : nat -> nat -> T) (band : nat) :
  (forall p q, (band < q - p)%N -> cov p q = zero) ->
  forall idx i j, increasing idx -> (i <= j)%coq_nat -> (j < length idx)%coq_nat -> (band < j - i)%coq_nat ->
  active_cov T cov idx i j = zero.
Proof.
move=> Hb idx i j Hinc Hij Hj Hbd; apply: (active_band_suffices T zero cov band _ idx i j Hinc Hij Hj Hbd).
by move=> p q Hpq; apply: Hb; apply/ltP.
Qed.
Print Assumptions C10_active_band_suffices.


(* the factor the whitening uses exists and is what the code computes in place: L D L' by successive Schur complements
   reconstructs every symmetric matrix without a vanishing pivot, L is unit lower triangular, D diagonal, and the band of
   the matrix is the band of its factor (so the packed band of CovMat loses nothing) -- CholProofs.v *)
From Gama Require Import CholProofs.
Theorem C10_ldl_reconstructs (F : fieldType) (n : nat) (A : 'M[F]_n.+1) :
  A^T = A -> regular A -> let LD := ldl A in LD.1 *m LD.2 *m LD.1^T = A.
Proof. exact: ldl_correct. Qed.
Print Assumptions C10_ldl_reconstructs.
Theorem C10_ldl_factor_shape (F : fieldType) (n : nat) (A : 'M[F]_n.+1) (i j : 'I_n.+1) :
  ((i <= j)%N -> (ldl A).1 i j = (i == j)%:R) /\ (i != j -> (ldl A).2 i j = 0).
Proof. by split; [exact: ldl_L_unit_lower | exact: ldl_D_diagonal]. Qed.
Print Assumptions C10_ldl_factor_shape.
Theorem C10_ldl_keeps_the_band (F : fieldType) (n w : nat) (A : 'M[F]_n.+1) : banded w A -> banded w (ldl A).1.
Proof. exact: ldl_L_banded. Qed.
Print Assumptions C10_ldl_keeps_the_band.
