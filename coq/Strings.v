(* Byte-string models: character classes, literal recognisers (lib/gnu_gama/intfloat.h),
   XML escaping (lib/gnu_gama/xml/str2xml.cpp) and a reference XML unescape.
   Bytes are [N] (0..255); strings are [list nat].  Definitions only (proofs: StringsProofs.v). *)
From Coq Require Import List NArith Arith Bool Lia.
Import ListNotations.
Local Open Scope N_scope.

Definition byte := N.
Definition str := list byte.

(* "C" locale <cctype> *)
Definition isspace (c : byte) : bool := (c =? 32) || ((9 <=? c) && (c <=? 13)).
Definition isdigit (c : byte) : bool := (48 <=? c) && (c <=? 57).
Definition is_sign (c : byte) : bool := (c =? 43) || (c =? 45).
Definition is_e (c : byte) : bool := (c =? 101) || (c =? 69).

Fixpoint dropw (p : byte -> bool) (l : str) : str :=
  match l with [] => [] | c :: r => if p c then dropw p r else l end.
Fixpoint takew (p : byte -> bool) (l : str) : str :=
  match l with [] => [] | c :: r => if p c then c :: takew p r else [] end.

(* TrimWhiteSpaces(b,e): b skips leading spaces, e moves behind the last non-space *)
Definition trim (s : str) : str := rev (dropw isspace (rev (dropw isspace s))).

Definition skip_sign (l : str) : str :=
  match l with c :: r => if is_sign c then r else l | [] => [] end.

Definition is_nil {A} (l : list A) : bool := match l with [] => true | _ => false end.

(* ---- IsInteger, as at the pinned commit (sign-only strings accepted) ---- *)
Definition is_integer_pinned (s : str) : bool :=
  let t := trim s in
  match t with [] => false | _ => forallb isdigit (skip_sign t) end.

(* ---- IsInteger after "fix: IsInteger requires a digit" ---- *)
Definition is_integer (s : str) : bool :=
  let t := trim s in
  match t with
  | [] => false
  | _ => let d := skip_sign t in negb (is_nil d) && forallb isdigit d
  end.

(* ---- IsFloat ---- *)
Definition is_float (s : str) : bool :=
  let t := trim s in
  match t with
  | [] => false
  | _ =>
    let t1 := skip_sign t in
    let d1 := takew isdigit t1 in let t2 := dropw isdigit t1 in
    let t3 := match t2 with 46 :: r => r | _ => t2 end in
    let d2 := takew isdigit t3 in let t4 := dropw isdigit t3 in
    let hasdigit := negb (is_nil d1) || negb (is_nil d2) in
    match t4 with
    | [] => hasdigit
    | c :: r =>
      if is_e c then
        match r with
        | [] => false
        | _ => let r1 := skip_sign r in
               match r1 with [] => false | _ => forallb isdigit r1 && hasdigit end
        end
      else false
    end
  end.

(* ---- documented literal grammars, as decompositions ---- *)
Definition all (p : byte -> bool) (l : str) : Prop := forallb p l = true.
Definition opt_sign (l : str) : Prop := l = [] \/ l = [43] \/ l = [45].

(* integer ::= ws* [+-]? digit+ ws* *)
Definition integer_literal (s : str) : Prop :=
  exists w1 sg ds w2, s = w1 ++ sg ++ ds ++ w2 /\ all isspace w1 /\ all isspace w2 /\
                      opt_sign sg /\ ds <> [] /\ all isdigit ds.

(* float ::= ws* [+-]? (digit* [.] digit*  with at least one digit) ([eE] [+-]? digit+)? ws* *)
Definition exponent (l : str) : Prop :=
  l = [] \/ exists c sg ds, l = c :: sg ++ ds /\ is_e c = true /\ opt_sign sg /\ ds <> [] /\ all isdigit ds.
Definition opt_dot (l : str) : Prop := l = [] \/ l = [46].
Definition float_literal (s : str) : Prop :=
  exists w1 sg d1 dot d2 ex w2,
    s = w1 ++ sg ++ d1 ++ dot ++ d2 ++ ex ++ w2 /\ all isspace w1 /\ all isspace w2 /\
    opt_sign sg /\ all isdigit d1 /\ opt_dot dot /\ all isdigit d2 /\ (d1 <> [] \/ d2 <> []) /\
    exponent ex.

(* ---- str2xml ---- *)
Definition amp : byte := 38. Definition lt : byte := 60. Definition gt : byte := 62.
Definition apos : byte := 39. Definition quot : byte := 34.
Definition s_lt : str := [38; 108; 116; 59].          (* &lt;   *)
Definition s_gt : str := [38; 103; 116; 59].          (* &gt;   *)
Definition s_amp : str := [38; 97; 109; 112; 59].     (* &amp;  *)
Definition s_quot : str := [38; 113; 117; 111; 116; 59]. (* &quot; *)
Definition s_apos : str := [38; 97; 112; 111; 115; 59].  (* &apos; *)

(* as at the pinned commit: the apostrophe becomes &quot; and the double quote is left alone *)
Definition esc1_pinned (c : byte) : str :=
  if c =? lt then s_lt else if c =? gt then s_gt else if c =? amp then s_amp
  else if c =? apos then s_quot else [c].
Definition str2xml_pinned (s : str) : str := flat_map esc1_pinned s.

(* after "fix: str2xml escapes quotes correctly" *)
Definition esc1 (c : byte) : str :=
  if c =? lt then s_lt else if c =? gt then s_gt else if c =? amp then s_amp
  else if c =? apos then s_apos else if c =? quot then s_quot else [c].
Definition str2xml (s : str) : str := flat_map esc1 s.

(* reference decoder for the five predefined XML entities (what any XML reader does with
   character data / attribute values that contain no other references) *)
Fixpoint starts_with (p s : str) : option str :=
  match p, s with
  | [], _ => Some s
  | a :: p', b :: s' => if a =? b then starts_with p' s' else None
  | _, [] => None
  end.
Definition entity_table : list (str * byte) :=
  [(s_lt, lt); (s_gt, gt); (s_amp, amp); (s_quot, quot); (s_apos, apos)].
Fixpoint match_entity (tbl : list (str * byte)) (s : str) : option (byte * str) :=
  match tbl with
  | [] => None
  | (e, c) :: r => match starts_with e s with Some rest => Some (c, rest) | None => match_entity r s end
  end.
(* fuelled by the length of the input; None = malformed (a raw '&' or '<') *)
Fixpoint unescape_fuel (n : nat) (s : str) : option str :=
  match n with
  | O => match s with [] => Some [] | _ => None end
  | S n' =>
    match s with
    | [] => Some []
    | c :: r =>
      if c =? amp then
        match match_entity entity_table s with
        | Some (d, rest) => option_map (cons d) (unescape_fuel n' rest)
        | None => None
        end
      else if c =? lt then None
      else option_map (cons c) (unescape_fuel n' r)
    end
  end.
Definition unescape (s : str) : option str := unescape_fuel (length s) s.

(* ---- enumeration of all strings of length <= n over an alphabet (shared with the harness:
        shorter strings first, then lexicographic in alphabet order, first char most significant) *)
Fixpoint strings_of_len (alpha : str) (n : nat) : list str :=
  match n with
  | O => [[]]
  | S n' => flat_map (fun c => map (cons c) (strings_of_len alpha n')) alpha
  end.
Fixpoint strings_upto (alpha : str) (n : nat) : list str :=
  match n with
  | O => [[]]
  | S n' => strings_upto alpha n' ++ strings_of_len alpha n
  end.
