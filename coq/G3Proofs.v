(* C19: the closed-form coefficients of GNU_gama::g3::Model::linearization are the partial derivatives of the
   observation functions in the local north-east-up components (n, e, u) of the line of sight, the horizontal
   angle is recovered from acos and the sign of a triple product, and approximate coordinates obtained from a
   vector with antenna heights are exact when the two verticals coincide.  (G3Run.v is the binary64
   transliteration the correspondence check runs; the formulas are the same.) *)
From Coq Require Import Reals Lra Lia ZArith Nsatz.
From Coquelicot Require Import Coquelicot.
From Gama Require Import LinProofs.
Local Open Scope R_scope.

(* ---------- zenith angle  z = pi/2 - atan (u / r),  r = sqrt (n^2 + e^2)  (= acos (u / |v|) for r > 0) ---------- *)
Definition hor (n e : R) : R := sqrt (n ^ 2 + e ^ 2).
Definition g3zen (n e u : R) : R := zen (hor n e) u.

Lemma hor_pos n e : n <> 0 \/ e <> 0 -> 0 < hor n e.
Proof. intro H. unfold hor. apply sqrt_lt_R0. apply sq_pos_sum. exact H. Qed.

Lemma hor_sq n e : hor n e ^ 2 = n ^ 2 + e ^ 2.
Proof. unfold hor. rewrite <- Rsqr_pow2. apply Rsqr_sqrt. nra. Qed.

Lemma hor_dn n e : (n <> 0 \/ e <> 0) -> is_derive (fun t => hor t e) n (n / hor n e).
Proof.
  intro H. pose proof (sq_pos_sum _ _ H) as P. unfold hor.
  auto_derive; [first [exact P | (repeat split; try exact I; nra)]|].
  norm_sqrt (n ^ 2 + e ^ 2). field. apply Rgt_not_eq. apply sqrt_lt_R0. exact P.
Qed.
Lemma hor_de n e : (n <> 0 \/ e <> 0) -> is_derive (fun t => hor n t) e (e / hor n e).
Proof.
  intro H. pose proof (sq_pos_sum _ _ H) as P. unfold hor.
  auto_derive; [first [exact P | (repeat split; try exact I; nra)]|].
  norm_sqrt (n ^ 2 + e ^ 2). field. apply Rgt_not_eq. apply sqrt_lt_R0. exact P.
Qed.

(* the code: r = sqrt(n^2+e^2), s = n^2+e^2+u^2, q = 1/(r s); for the TARGET (n u q, e u q, -r/s), for the
   station the opposite signs *)
Theorem g3_zenith_dn n e u : (n <> 0 \/ e <> 0) ->
  is_derive (fun t => g3zen t e u) n (n * u * (1 / (hor n e * (n ^ 2 + e ^ 2 + u ^ 2)))).
Proof.
  intro H. pose proof (hor_pos _ _ H) as Hr. pose proof (hor_sq n e) as Hs.
  unfold g3zen.
  apply (is_derive_ext (fun t => zen (hor t e) u)); [reflexivity|].
  evar (d : R).
  assert (D : is_derive (fun t => zen (hor t e) u) n d).
  { apply (is_derive_comp (fun r => zen r u) (fun t => hor t e)).
    - apply zen_dd. exact Hr.
    - apply hor_dn. exact H. }
  replace (n * u * (1 / (hor n e * (n ^ 2 + e ^ 2 + u ^ 2)))) with d; [exact D|].
  unfold d, scal; simpl; unfold mult; simpl.
  replace (hor n e * (hor n e * 1)) with (hor n e ^ 2) by ring. rewrite Hs. field. split; [nra | lra].
Qed.

Theorem g3_zenith_de n e u : (n <> 0 \/ e <> 0) ->
  is_derive (fun t => g3zen n t u) e (e * u * (1 / (hor n e * (n ^ 2 + e ^ 2 + u ^ 2)))).
Proof.
  intro H. pose proof (hor_pos _ _ H) as Hr. pose proof (hor_sq n e) as Hs.
  unfold g3zen.
  evar (d : R).
  assert (D : is_derive (fun t => zen (hor n t) u) e d).
  { apply (is_derive_comp (fun r => zen r u) (fun t => hor n t)).
    - apply zen_dd. exact Hr.
    - apply hor_de. exact H. }
  replace (e * u * (1 / (hor n e * (n ^ 2 + e ^ 2 + u ^ 2)))) with d; [exact D|].
  unfold d, scal; simpl; unfold mult; simpl.
  replace (hor n e * (hor n e * 1)) with (hor n e ^ 2) by ring. rewrite Hs. field. split; [nra | lra].
Qed.

Theorem g3_zenith_du n e u : (n <> 0 \/ e <> 0) ->
  is_derive (fun t => g3zen n e t) u (- (hor n e / (n ^ 2 + e ^ 2 + u ^ 2))).
Proof.
  intro H. pose proof (hor_pos _ _ H) as Hr. pose proof (hor_sq n e) as Hs.
  unfold g3zen.
  replace (- (hor n e / (n ^ 2 + e ^ 2 + u ^ 2))) with (- hor n e / (hor n e ^ 2 + u ^ 2)).
  - apply zen_ddz. exact Hr.
  - rewrite Hs. field. nra.
Qed.

(* the coefficients that lost the factor u (the code before the repair) are NOT the partial derivatives:
   at (n, e, u) = (3, 4, 12) the derivative with respect to n is 36/845, the old coefficient 3/845 *)
Theorem g3_zenith_old_coefficient_refuted :
  exists n e u, (n <> 0 \/ e <> 0) /\
    ~ is_derive (fun t => g3zen t e u) n (n * (1 / (hor n e * (n ^ 2 + e ^ 2 + u ^ 2)))).
Proof.
  exists 3, 4, 12. split; [left; lra|]. intro D.
  assert (H : 3 <> 0 \/ 4 <> 0) by (left; lra).
  pose proof (g3_zenith_dn 3 4 12 H) as D'.
  pose proof (is_derive_unique _ _ _ D) as U1. pose proof (is_derive_unique _ _ _ D') as U2.
  rewrite U1 in U2.
  assert (Hh : hor 3 4 = 5).
  { unfold hor. replace (3 ^ 2 + 4 ^ 2) with (5 * 5) by ring. apply sqrt_square. lra. }
  rewrite Hh in U2. lra.
Qed.

(* ---------- horizontal direction s = atan2 (e, n) and horizontal angle = s_right - s_left ---------- *)
(* code: ps = sin s / d, pc = cos s / d, coefficient of the target (-ps, pc): the partials of brg in either chart *)
Theorem g3_direction_coefficients s d n e : 0 < d -> n = d * cos s -> e = d * sin s ->
  - (sin s / d) = - e / (n ^ 2 + e ^ 2) /\ cos s / d = n / (n ^ 2 + e ^ 2).
Proof.
  intros Hd Hn He. pose proof (sin2_cos2 s) as T. unfold Rsqr in T.
  assert (Q : n ^ 2 + e ^ 2 = d ^ 2).
  { rewrite Hn, He. replace ((d * cos s) ^ 2 + (d * sin s) ^ 2) with (d ^ 2 * (sin s * sin s + cos s * cos s)) by ring. rewrite T. ring. }
  rewrite Q. rewrite Hn, He. split; field; lra.
Qed.

(* the angle is right direction minus left direction: whatever the directions' partials are, the left target enters
   with the opposite sign (the repaired sign), the station with minus the sum *)
Theorem g3_angle_left_target_sign (fl : R -> R) (sr x dfl : R) :
  is_derive fl x dfl -> is_derive (fun t => sr - fl t) x (- dfl).
Proof.
  intro D. evar (d : R).
  assert (E : is_derive (fun t => sr - fl t) x d).
  { unfold Rminus. apply (is_derive_plus (fun _ => sr) (fun t => - fl t)).
    - apply is_derive_const.
    - apply (is_derive_opp fl). exact D. }
  replace (- dfl) with d; [exact E|]. unfold d, plus, zero, opp; simpl. ring.
Qed.

Theorem g3_angle_right_target_sign (fr : R -> R) (sl x dfr : R) :
  is_derive fr x dfr -> is_derive (fun t => fr t - sl) x dfr.
Proof.
  intro D. evar (d : R).
  assert (E : is_derive (fun t => fr t - sl) x d).
  { unfold Rminus. apply (is_derive_plus fr (fun _ => - sl)).
    - exact D.
    - apply is_derive_const. }
  replace dfr with d; [exact E|]. unfold d, plus, zero; simpl. ring.
Qed.

(* acos gives the angle or its complement to the full circle; the sign of sin selects *)
Theorem g3_reflex_angle_recovered (t : R) : 0 <= t < 2 * PI ->
  (if Rlt_dec (sin t) 0 then 2 * PI - acos (cos t) else acos (cos t)) = t.
Proof.
  intros [H0 H2]. destruct (Rlt_dec (sin t) 0) as [Hs | Hs].
  - (* sin t < 0: pi < t < 2 pi *)
    assert (Ht : PI < t).
    { destruct (Rle_lt_dec t PI) as [Hle | Hgt]; [|exact Hgt].
      exfalso. pose proof (sin_ge_0 t H0 Hle). lra. }
    replace (cos t) with (cos (2 * PI - t)).
    + rewrite acos_cos; [ring | lra].
    + replace (2 * PI - t) with (- t + 2 * INR 1 * PI) by (simpl; ring). rewrite cos_period. apply cos_neg.
  - assert (Ht : t <= PI).
    { destruct (Rle_lt_dec t PI) as [Hle | Hgt]; [exact Hle|].
      exfalso. apply Hs. apply sin_lt_0; lra. }
    apply acos_cos. lra.
Qed.

(* in the (left-handed) north-east-up frame of a point, with the vertical FV = up and horizontal unit vectors at
   azimuths al, ar:  VL = FV x FL, VR = FV x FR  satisfy  VL . VR = cos (ar - al)  and  (VL x VR) . FV = - sin (ar - al):
   the triple product the code tests is positive exactly for reflex angles *)
Definition v3 := (R * R * R)%type.
Definition cross (a b : v3) : v3 :=
  let '(a1, a2, a3) := a in let '(b1, b2, b3) := b in (a2 * b3 - a3 * b2, a3 * b1 - a1 * b3, a1 * b2 - a2 * b1).
Definition dot (a b : v3) : R := let '(a1, a2, a3) := a in let '(b1, b2, b3) := b in a1 * b1 + a2 * b2 + a3 * b3.
Definition north b l : v3 := (- sin b * cos l, - sin b * sin l, cos b).
Definition east (b l : R) : v3 := (- sin l, cos l, 0).
Definition up b l : v3 := (cos b * cos l, cos b * sin l, sin b).
Definition horiz b l a : v3 :=
  let '(n1, n2, n3) := north b l in let '(e1, e2, e3) := east b l in
  (cos a * n1 + sin a * e1, cos a * n2 + sin a * e2, cos a * n3 + sin a * e3).

Theorem g3_angle_triple_product b l al ar :
  let VL := cross (up b l) (horiz b l al) in let VR := cross (up b l) (horiz b l ar) in
  dot VL VR = cos (ar - al) /\ dot (cross VL VR) (up b l) = - sin (ar - al).
Proof.
  cbv zeta. unfold cross, dot, horiz, up, north, east. rewrite cos_minus, sin_minus.
  pose proof (sin2_cos2 b) as Hb. pose proof (sin2_cos2 l) as Hl. unfold Rsqr in Hb, Hl.
  set (sb := sin b) in *. set (cb := cos b) in *. set (sl := sin l) in *. set (cl := cos l) in *.
  set (sa := sin al). set (ca := cos al). set (sr := sin ar). set (cr := cos ar).
  assert (Hb' : cb * cb = 1 - sb * sb) by lra. assert (Hl' : cl * cl = 1 - sl * sl) by lra.
  split; nsatz.
Qed.

(* ---------- approximate coordinates from a vector with antenna heights (Init::visit of a Vector) ---------- *)
(* the vector joins the antennas; with one common vertical w the missing end is recovered exactly *)
Theorem g3_vector_init_exact (pf pt w d : v3) (hf ht : R) :
  let '(f1, f2, f3) := pf in let '(t1, t2, t3) := pt in let '(w1, w2, w3) := w in let '(d1, d2, d3) := d in
  d1 = (t1 + w1 * ht) - (f1 + w1 * hf) -> d2 = (t2 + w2 * ht) - (f2 + w2 * hf) -> d3 = (t3 + w3 * ht) - (f3 + w3 * hf) ->
  (f1 + w1 * (hf - ht)) + d1 = t1 /\ (f2 + w2 * (hf - ht)) + d2 = t2 /\ (f3 + w3 * (hf - ht)) + d3 = t3 /\
  (t1 + w1 * (ht - hf)) - d1 = f1 /\ (t2 + w2 * (ht - hf)) - d2 = f2 /\ (t3 + w3 * (ht - hf)) - d3 = f3.
Proof.
  destruct pf as [[f1 f2] f3], pt as [[t1 t2] t3], w as [[w1 w2] w3], d as [[d1 d2] d3].
  intros H1 H2 H3. subst. repeat split; ring.
Qed.

(* ... and ignoring the antenna heights (the code before the repair) misses by (ht - hf) along the vertical *)
Theorem g3_vector_init_without_heights_refuted :
  exists (f t w d hf ht : R), d = (t + w * ht) - (f + w * hf) /\ f + d <> t.
Proof. exists 0, 10, 1, 12, 0, 2. split; lra. Qed.

(* ---------- the local frame ---------- *)
(* the frame is orthonormal everywhere on the ellipsoid (poles and antimeridian included) *)
Lemma neu_frame_is_orthonormal b l :
  dot (north b l) (north b l) = 1 /\ dot (east b l) (east b l) = 1 /\ dot (up b l) (up b l) = 1 /\
  dot (north b l) (east b l) = 0 /\ dot (north b l) (up b l) = 0 /\ dot (east b l) (up b l) = 0.
Proof.
  unfold dot, north, east, up.
  pose proof (sin2_cos2 b) as Hb. pose proof (sin2_cos2 l) as Hl. unfold Rsqr in Hb, Hl.
  set (sb := sin b) in *. set (cb := cos b) in *. set (sl := sin l) in *. set (cl := cos l) in *.
  repeat split.
  - replace (- sb * cl * (- sb * cl) + - sb * sl * (- sb * sl) + cb * cb) with (sb * sb * (sl * sl + cl * cl) + cb * cb) by ring. rewrite Hl. lra.
  - replace (- sl * - sl + cl * cl + 0 * 0) with (sl * sl + cl * cl) by ring. exact Hl.
  - replace (cb * cl * (cb * cl) + cb * sl * (cb * sl) + sb * sb) with (cb * cb * (sl * sl + cl * cl) + sb * sb) by ring. rewrite Hl. lra.
  - ring.
  - ring_simplify. replace (- sb * cl ^ 2 * cb - sb * cb * sl ^ 2 + sb * cb) with (sb * cb * (1 - (sl * sl + cl * cl))) by ring. rewrite Hl. ring.
  - ring.
Qed.

(* hence corrections (dn, de, du) and (dx, dy, dz) have the same length: a consistent vector observation between two
   points has the same misclosure in either frame, in particular zero *)
Lemma rotation_preserves_length b l (x y z : R) :
  let v := (x, y, z) in
  (dot (north b l) v) ^ 2 + (dot (east b l) v) ^ 2 + (dot (up b l) v) ^ 2 = x ^ 2 + y ^ 2 + z ^ 2.
Proof.
  cbv zeta. unfold dot, north, east, up.
  pose proof (sin2_cos2 b) as Hb. pose proof (sin2_cos2 l) as Hl. unfold Rsqr in Hb, Hl.
  set (sb := sin b) in *. set (cb := cos b) in *. set (sl := sin l) in *. set (cl := cos l) in *.
  replace ((- sb * cl * x + - sb * sl * y + cb * z) ^ 2 + (- sl * x + cl * y + 0 * z) ^ 2 + (cb * cl * x + cb * sl * y + sb * z) ^ 2)
    with ((sb * sb + cb * cb) * ((cl * x + sl * y) ^ 2 + z ^ 2) + (- sl * x + cl * y) ^ 2) by ring.
  rewrite Hb.
  replace (1 * ((cl * x + sl * y) ^ 2 + z ^ 2) + (- sl * x + cl * y) ^ 2) with ((sl * sl + cl * cl) * (x ^ 2 + y ^ 2) + z ^ 2) by ring.
  rewrite Hl. ring.
Qed.

