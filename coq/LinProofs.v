(* C05: the closed-form coefficients of LocalLinearization are the partial derivatives of the observation
   functions (Coquelicot), and the angular right-hand sides are reduced to half a circle. *)
From Coq Require Import Reals Lra Lia ZArith.
From Coquelicot Require Import Coquelicot.
Local Open Scope R_scope.

(* ---------- horizontal distance  d = sqrt(dx^2 + dy^2) ---------- *)
Definition hdist (xa ya xb yb : R) : R := sqrt ((xb - xa) ^ 2 + (yb - ya) ^ 2).

Ltac norm_sqrt target :=
  repeat match goal with
  | |- context [sqrt ?e] => lazymatch e with target => fail | _ => replace e with target by ring end
  end.

Lemma sq_pos_sum (a b : R) : a <> 0 \/ b <> 0 -> 0 < a ^ 2 + b ^ 2.
Proof. intros [H|H]; [assert (0 < a ^ 2) by (apply pow2_gt_0; exact H); nra | assert (0 < b ^ 2) by (apply pow2_gt_0; exact H); nra]. Qed.

Lemma hdist_dxb xa ya xb yb : (xb - xa <> 0 \/ yb - ya <> 0) ->
  is_derive (fun x => hdist xa ya x yb) xb ((xb - xa) / hdist xa ya xb yb).
Proof.
  intro H. unfold hdist. pose proof (sq_pos_sum _ _ H) as Hp.
  auto_derive; [exact Hp|]. norm_sqrt ((xb - xa) ^ 2 + (yb - ya) ^ 2). field. apply Rgt_not_eq, sqrt_lt_R0. exact Hp.
Qed.
Lemma hdist_dyb xa ya xb yb : (xb - xa <> 0 \/ yb - ya <> 0) ->
  is_derive (fun y => hdist xa ya xb y) yb ((yb - ya) / hdist xa ya xb yb).
Proof.
  intro H. unfold hdist. pose proof (sq_pos_sum _ _ H) as Hp.
  auto_derive; [exact Hp|]. norm_sqrt ((xb - xa) ^ 2 + (yb - ya) ^ 2). field. apply Rgt_not_eq, sqrt_lt_R0. exact Hp.
Qed.
Lemma hdist_dxa xa ya xb yb : (xb - xa <> 0 \/ yb - ya <> 0) ->
  is_derive (fun x => hdist x ya xb yb) xa (- (xb - xa) / hdist xa ya xb yb).
Proof.
  intro H. unfold hdist. pose proof (sq_pos_sum _ _ H) as Hp.
  auto_derive; [exact Hp|]. norm_sqrt ((xb - xa) ^ 2 + (yb - ya) ^ 2). field. apply Rgt_not_eq, sqrt_lt_R0. exact Hp.
Qed.
Lemma hdist_dya xa ya xb yb : (xb - xa <> 0 \/ yb - ya <> 0) ->
  is_derive (fun y => hdist xa y xb yb) ya (- (yb - ya) / hdist xa ya xb yb).
Proof.
  intro H. unfold hdist. pose proof (sq_pos_sum _ _ H) as Hp.
  auto_derive; [exact Hp|]. norm_sqrt ((xb - xa) ^ 2 + (yb - ya) ^ 2). field. apply Rgt_not_eq, sqrt_lt_R0. exact Hp.
Qed.

(* ---------- bearing: two charts of the angle of (dx, dy); on each chart the angle is the chart function
   plus a locally constant offset (a multiple of pi/2), so the partial derivatives are those below ---------- *)
Definition brg_x (dx dy : R) : R := atan (dy / dx).          (* chart dx <> 0 *)
Definition brg_y (dx dy : R) : R := - atan (dx / dy).        (* chart dy <> 0 *)

Lemma brg_x_ddy dx dy : dx <> 0 -> is_derive (fun t => brg_x dx t) dy (dx / (dx ^ 2 + dy ^ 2)).
Proof.
  intro H. unfold brg_x. auto_derive; [first [exact I | exact H | (repeat split; try exact I; try exact H)]|]. field. split; [|exact H].
  assert (0 < dx ^ 2) by (apply pow2_gt_0; exact H). nra.
Qed.
Lemma brg_x_ddx dx dy : dx <> 0 -> is_derive (fun t => brg_x t dy) dx (- dy / (dx ^ 2 + dy ^ 2)).
Proof.
  intro H. unfold brg_x. auto_derive; [first [exact I | exact H | (repeat split; try exact I; try exact H)]|]. field. split; [|exact H].
  assert (0 < dx ^ 2) by (apply pow2_gt_0; exact H). nra.
Qed.
Lemma brg_y_ddy dx dy : dy <> 0 -> is_derive (fun t => brg_y dx t) dy (dx / (dx ^ 2 + dy ^ 2)).
Proof.
  intro H. unfold brg_y. auto_derive; [first [exact I | exact H | (repeat split; try exact I; try exact H)]|]. field. split; [|exact H].
  assert (0 < dy ^ 2) by (apply pow2_gt_0; exact H). nra.
Qed.
Lemma brg_y_ddx dx dy : dy <> 0 -> is_derive (fun t => brg_y t dy) dx (- dy / (dx ^ 2 + dy ^ 2)).
Proof.
  intro H. unfold brg_y. auto_derive; [first [exact I | exact H | (repeat split; try exact I; try exact H)]|]. field. split; [|exact H].
  assert (0 < dy ^ 2) by (apply pow2_gt_0; exact H). nra.
Qed.

(* what bearing_distance returns: (s, d) with d > 0, d cos s = dx, d sin s = dy.  The coefficients the code
   stores, K cos s and K sin s with K = c/d, are then c times the partial derivatives above. *)
Lemma code_coefficients_are_partials c s d dx dy :
  0 < d -> d * cos s = dx -> d * sin s = dy ->
  c / d * cos s = c * (dx / (dx ^ 2 + dy ^ 2)) /\ c / d * sin s = c * (dy / (dx ^ 2 + dy ^ 2)).
Proof.
  intros Hd Hc Hs. assert (Hq : dx ^ 2 + dy ^ 2 = d ^ 2).
  { rewrite <- Hc, <- Hs. pose proof (sin2_cos2 s) as H1. unfold Rsqr in H1. nra. }
  rewrite Hq, <- Hc, <- Hs. split; field; lra.
Qed.

(* ---------- slope distance ---------- *)
Definition sdist (xa ya za xb yb zb : R) : R := sqrt ((xb - xa) ^ 2 + (yb - ya) ^ 2 + (zb - za) ^ 2).
Lemma sdist_dzb xa ya za xb yb zb : 0 < (xb - xa) ^ 2 + (yb - ya) ^ 2 + (zb - za) ^ 2 ->
  is_derive (fun z => sdist xa ya za xb yb z) zb ((zb - za) / sdist xa ya za xb yb zb).
Proof. intro Hp. unfold sdist. auto_derive; [exact Hp|]. norm_sqrt ((xb - xa) ^ 2 + (yb - ya) ^ 2 + (zb - za) ^ 2). field. apply Rgt_not_eq, sqrt_lt_R0. exact Hp. Qed.
Lemma sdist_dxb xa ya za xb yb zb : 0 < (xb - xa) ^ 2 + (yb - ya) ^ 2 + (zb - za) ^ 2 ->
  is_derive (fun x => sdist xa ya za x yb zb) xb ((xb - xa) / sdist xa ya za xb yb zb).
Proof. intro Hp. unfold sdist. auto_derive; [exact Hp|]. norm_sqrt ((xb - xa) ^ 2 + (yb - ya) ^ 2 + (zb - za) ^ 2). field. apply Rgt_not_eq, sqrt_lt_R0. exact Hp. Qed.
Lemma sdist_dyb xa ya za xb yb zb : 0 < (xb - xa) ^ 2 + (yb - ya) ^ 2 + (zb - za) ^ 2 ->
  is_derive (fun y => sdist xa ya za xb y zb) yb ((yb - ya) / sdist xa ya za xb yb zb).
Proof. intro Hp. unfold sdist. auto_derive; [exact Hp|]. norm_sqrt ((xb - xa) ^ 2 + (yb - ya) ^ 2 + (zb - za) ^ 2). field. apply Rgt_not_eq, sqrt_lt_R0. exact Hp. Qed.
Lemma sdist_dza xa ya za xb yb zb : 0 < (xb - xa) ^ 2 + (yb - ya) ^ 2 + (zb - za) ^ 2 ->
  is_derive (fun z => sdist xa ya z xb yb zb) za (- (zb - za) / sdist xa ya za xb yb zb).
Proof. intro Hp. unfold sdist. auto_derive; [exact Hp|]. norm_sqrt ((xb - xa) ^ 2 + (yb - ya) ^ 2 + (zb - za) ^ 2). field. apply Rgt_not_eq, sqrt_lt_R0. exact Hp. Qed.

(* ---------- zenith angle  za = pi/2 - atan (dz / d)  (= acos (dz / sd) for d > 0) ---------- *)
Definition zen (d dz : R) : R := PI / 2 - atan (dz / d).
Lemma zen_ddz d dz : 0 < d -> is_derive (fun t => zen d t) dz (- d / (d ^ 2 + dz ^ 2)).
Proof. intro H. unfold zen. auto_derive; [first [exact I | lra | (repeat split; try exact I; try lra)]|]. field. split; nra. Qed.
Lemma zen_dd d dz : 0 < d -> is_derive (fun t => zen t dz) d (dz / (d ^ 2 + dz ^ 2)).
Proof. intro H. unfold zen. auto_derive; [first [exact I | lra | (repeat split; try exact I; try lra)]|]. field. split; nra. Qed.
(* the code: k = c/(d sd^2), pz = -k d d, and for a target coordinate px = k dz dx = (c dz/sd^2)(dx/d):
   chain rule of zen_dd with hdist_dxb *)
Lemma zen_code_pz c d dz sd : 0 < d -> sd ^ 2 = d ^ 2 + dz ^ 2 ->
  - (c / (d * sd * sd)) * d * d = c * (- d / (d ^ 2 + dz ^ 2)).
Proof. intros Hd Hs. replace (d * sd * sd) with (d * sd ^ 2) by ring. rewrite Hs. field. split; nra. Qed.
Lemma zen_code_px c d dz sd dx : 0 < d -> sd ^ 2 = d ^ 2 + dz ^ 2 ->
  c / (d * sd * sd) * dz * dx = c * (dz / (d ^ 2 + dz ^ 2) * (dx / d)).
Proof. intros Hd Hs. replace (d * sd * sd) with (d * sd ^ 2) by ring. rewrite Hs. field. split; nra. Qed.

(* second face of the instrument: the reading is 2 pi - za; its partials are the negatives (the code mirrored the computed
   value only, before the repair) *)
Definition zen2 (d dz : R) : R := 2 * PI - zen d dz.
Lemma zen2_ddz d dz : 0 < d -> is_derive (fun t => zen2 d t) dz (- (- d / (d ^ 2 + dz ^ 2))).
Proof. intro H. unfold zen2, zen. auto_derive; [first [exact I | lra | (repeat split; try exact I; try lra)]|]. field. split; nra. Qed.
Lemma zen2_dd d dz : 0 < d -> is_derive (fun t => zen2 t dz) d (- (dz / (d ^ 2 + dz ^ 2))).
Proof. intro H. unfold zen2, zen. auto_derive; [first [exact I | lra | (repeat split; try exact I; try lra)]|]. field. split; nra. Qed.

(* ---------- reduction of angular right-hand sides: while a > h: a -= 2h; while a < -h: a += 2h ---------- *)
Fixpoint down (n : nat) (h a : R) : R :=
  match n with O => a | S k => if Rlt_dec h a then down k h (a - 2 * h) else a end.
Fixpoint up (n : nat) (h a : R) : R :=
  match n with O => a | S k => if Rlt_dec a (- h) then up k h (a + 2 * h) else a end.
Definition reduce (n : nat) (h a : R) : R := up n h (down n h a).

Lemma down_spec n h a : 0 < h -> a <= h + 2 * h * INR n ->
  down n h a <= h /\ (a <= h -> down n h a = a) /\ (h < a -> - h < down n h a) /\ exists k : Z, down n h a = a + IZR k * (2 * h).
Proof.
  intro Hh. revert a. induction n as [|n IH]; intros a Ha.
  - cbn in *. split; [lra|]. split; [intro; reflexivity|]. split; [intro; lra|]. exists 0%Z. lra.
  - cbn [down]. rewrite S_INR in Ha. destruct (Rlt_dec h a) as [Hl|Hl].
    + destruct (IH (a - 2 * h)) as (H1 & H2 & H3 & [k Hk]); [lra|].
      split; [exact H1|]. split; [intro; lra|]. split.
      * intros _. destruct (Rle_dec (a - 2 * h) h) as [Hle|Hgt]; [rewrite (H2 Hle); lra | apply H3; lra].
      * exists (k - 1)%Z. rewrite Hk, minus_IZR. lra.
    + split; [lra|]. split; [intro; reflexivity|]. split; [intro; lra|]. exists 0%Z. lra.
Qed.
Lemma up_spec n h a : 0 < h -> - h - 2 * h * INR n <= a -> a <= h ->
  - h <= up n h a <= h /\ exists k : Z, up n h a = a + IZR k * (2 * h).
Proof.
  intro Hh. revert a. induction n as [|n IH]; intros a Ha Hb.
  - cbn in *. split; [lra|]. exists 0%Z. lra.
  - cbn [up]. rewrite S_INR in Ha. destruct (Rlt_dec a (- h)) as [Hl|Hl].
    + destruct (IH (a + 2 * h)) as (H1 & [k Hk]); [lra|lra|]. split; [exact H1|].
      exists (k + 1)%Z. rewrite Hk, plus_IZR. lra.
    + split; [lra|]. exists 0%Z. lra.
Qed.

(* the reduced right-hand side lies in the CLOSED interval [-h, h] and differs from the raw value by a whole
   number of circles; the end point -h is kept (the property text says half-open: see rhs_half_open_refuted) *)
Theorem reduce_spec n h a : 0 < h -> Rabs a <= h + 2 * h * INR n ->
  - h <= reduce n h a <= h /\ exists k : Z, reduce n h a = a + IZR k * (2 * h).
Proof.
  intros Hh Ha. unfold reduce. apply Rabs_le_between in Ha.
  destruct (down_spec n h a Hh) as (H1 & H2 & H3 & [k1 Hk1]); [lra|].
  assert (Hlow : - h - 2 * h * INR n <= down n h a).
  { destruct (Rle_dec a h) as [Hle|Hgt]; [rewrite (H2 Hle); lra|]. assert (0 <= INR n) by apply pos_INR. assert (- h < down n h a) by (apply H3; lra). nra. }
  destruct (up_spec n h (down n h a) Hh Hlow H1) as (H4 & [k2 Hk2]).
  split; [exact H4|]. exists (k1 + k2)%Z. rewrite Hk2, Hk1, plus_IZR. lra.
Qed.

Theorem rhs_half_open_refuted : exists a, reduce 3 200 a = -200 /\ reduce 3 200 (a + 400) = 200.
Proof.
  exists (-200). unfold reduce. cbn.
  repeat (destruct (Rlt_dec _ _); try lra).
Qed.
