(* C12 / C09: reporting in a mirrored frame.  For axes declared inconsistent with the orientation of the angles gama-local
   works in a frame with y mirrored.  If x' = S x with a signature matrix S (S S = 1, S' = S), the covariance matrix of the
   reported coordinates is S C S: then every derived variance f' C f (standard deviation of an adjusted distance ...) is the
   same in both frames.  Reporting the mirrored coordinates with the UNMIRRORED matrix (what the adjustment XML did before the
   repair) is not: refuted on a 2 x 2 example. *)
From mathcomp Require Import all_ssreflect all_algebra.
Import GRing.Theory Num.Theory.
Local Open Scope ring_scope.

Section Frame.
Variable F : realFieldType.

Lemma mirrored_quadratic_form n (C S : 'M[F]_n) (f : 'cV[F]_n) :
  S *m S = 1%:M -> S^T = S ->
  (S *m f)^T *m (S *m C *m S) *m (S *m f) = f^T *m C *m f.
Proof.
move=> SS St.
rewrite trmx_mul St.
rewrite -!mulmxA.
rewrite (mulmxA S S f) SS mul1mx.
rewrite (mulmxA S S (C *m f)) SS mul1mx.
by [].
Qed.

(* the matrix to report is determined: S C S is the covariance of S x (bilinearity of the covariance) *)
Lemma mirrored_covariance_is_congruence n (C S : 'M[F]_n) (f g : 'cV[F]_n) :
  S *m S = 1%:M -> S^T = S ->
  (S *m f)^T *m (S *m C *m S) *m (S *m g) = f^T *m C *m g.
Proof.
move=> SS St.
rewrite trmx_mul St -!mulmxA.
rewrite (mulmxA S S g) SS mul1mx.
rewrite (mulmxA S S (C *m g)) SS mul1mx.
by [].
Qed.

(* 2 x 2 witness: C = [[1, 1], [1, 1]], S = diag (1, -1), f = (1, 1)': f' C f = 4, but (S f)' C (S f) = 0 *)
Definition Cw : 'M[F]_2 := \matrix_(i, j) 1.
Definition Sw : 'M[F]_2 := \matrix_(i, j) (if nat_of_ord i == nat_of_ord j then (if nat_of_ord i == 0%N then 1 else -1) else 0).
Definition fw : 'cV[F]_2 := \col_i 1.

Lemma two_cases (i : 'I_2) : i = 0 \/ i = 1.
Proof. case: i => [[|[|k]] Hk] //; [left|right]; exact/val_inj. Qed.

Lemma unmirrored_matrix_refuted :
  Sw *m Sw = 1%:M /\ Sw^T = Sw /\ (Sw *m fw)^T *m Cw *m (Sw *m fw) != fw^T *m Cw *m fw.
Proof.
split; [|split].
- apply/matrixP=> i j; case: (two_cases i)=> ->; case: (two_cases j)=> ->;
    rewrite !mxE !big_ord_recl big_ord0 !mxE /=; by rewrite ?(mul0r, mulr0, mul1r, mulr1, addr0, add0r, mulrNN).
- apply/matrixP=> i j; case: (two_cases i)=> ->; case: (two_cases j)=> ->; by rewrite !mxE.
- have L : (Sw *m fw)^T *m Cw *m (Sw *m fw) = 0.
    apply/matrixP=> i j; rewrite !mxE !big_ord_recl big_ord0 !mxE /=.
    rewrite !big_ord_recl !big_ord0 !mxE /=.
    rewrite !big_ord_recl !big_ord0 !mxE /=.
    rewrite ?(mul0r, mulr0, mul1r, mulr1, addr0, add0r, mulN1r, mulrN1).
    by rewrite subrr ?(mul0r, mulr0, addr0, add0r).
  have R : (fw^T *m Cw *m fw) 0 0 = 4%:R.
    rewrite !mxE !big_ord_recl big_ord0 !mxE /=.
    rewrite !big_ord_recl !big_ord0 !mxE /=.
    rewrite ?(mul0r, mulr0, mul1r, mulr1, addr0, add0r).
    by rewrite -[1 + 1 + (1 + 1)]/(2%:R + 2%:R) -natrD.
  rewrite L; apply/eqP=> /matrixP /(_ 0 0); rewrite R mxE => /eqP.
  by rewrite eq_sym pnatr_eq0.
Qed.
End Frame.
