(* The L D L' factorisation by successive Schur complements (the outer-product form that CovMat::cholDec and
   Envelope::cholDec run in place on packed storage), over any field and for every dimension:
     - it reconstructs the matrix:  L D L' = A  whenever no pivot vanishes,
     - L is unit lower triangular, D diagonal,
     - a band is preserved by every Schur complement, so the factor of a matrix of half-bandwidth w fits the
       same band: the packed band storage loses nothing.
   This supplies the factor whose existence the whitening theorems of LsqSpec.v assume. *)
From mathcomp Require Import all_ssreflect all_algebra.
From mathcomp Require Import zify.
Import GRing.Theory.
Set Implicit Arguments.
Unset Strict Implicit.
Unset Printing Implicit Defensive.
Local Open Scope ring_scope.

Section LDL.
Variable F : fieldType.

(* Schur complement of the leading 1 x 1 block *)
Definition schur n (A : 'M[F]_(1 + n)) : 'M[F]_n :=
  drsubmx A - (A 0 0)^-1 *: (dlsubmx A *m ursubmx A).

Fixpoint ldl {n} : 'M[F]_n.+1 -> 'M[F]_n.+1 * 'M[F]_n.+1 :=
  match n return 'M[F]_n.+1 -> 'M[F]_n.+1 * 'M[F]_n.+1 with
  | 0 => fun A => (1%:M, A)
  | n'.+1 => fun A : 'M[F]_(1 + n'.+1) =>
    let LD := ldl (schur A) in
    ((block_mx (1%:M : 'M_1) 0 ((A 0 0)^-1 *: dlsubmx A) LD.1 : 'M_(1 + n'.+1)),
     (block_mx ((A 0 0)%:M : 'M_1) 0 0 LD.2 : 'M_(1 + n'.+1)))
  end.

(* no pivot vanishes *)
Fixpoint regular {n} : 'M[F]_n.+1 -> bool :=
  match n return 'M[F]_n.+1 -> bool with
  | 0 => fun A => A 0 0 != 0
  | n'.+1 => fun A : 'M[F]_(1 + n'.+1) => (A 0 0 != 0) && regular (schur A)
  end.

Lemma schur_sym n (A : 'M[F]_(1 + n)) : A^T = A -> (schur A)^T = schur A.
Proof.
move=> As; rewrite /schur linearB linearZ /= trmx_mul.
have -> : (drsubmx A)^T = drsubmx A by rewrite -{2}As trmx_drsub.
have -> : (ursubmx A)^T = dlsubmx A by rewrite -{2}As trmx_ursub.
have -> : (dlsubmx A)^T = ursubmx A by rewrite -{2}As trmx_dlsub.
by [].
Qed.

Lemma ul11 n (A : 'M[F]_(1 + n)) : ulsubmx A = (A 0 0)%:M.
Proof.
apply/matrixP=> i j; rewrite !ord1 !mxE /= mulr1n.
by congr (A _ _); apply/val_inj.
Qed.

Lemma ldl_step n (A : 'M[F]_(1 + n)) (L' D' : 'M[F]_n) :
  A^T = A -> A 0 0 != 0 -> L' *m D' *m L'^T = schur A ->
  let L := block_mx (1%:M : 'M_1) 0 ((A 0 0)^-1 *: dlsubmx A) L' in
  let D := block_mx ((A 0 0)%:M : 'M_1) 0 0 D' in
  L *m D *m L^T = A.
Proof.
move=> As a0 E L D.
set a := A 0 0 in a0 L D *.
set v := dlsubmx A in L *.
have Eu : v^T = ursubmx A by rewrite /v -{2}As trmx_dlsub.
have TL : L^T = block_mx (1%:M : 'M_1) (a^-1 *: v)^T 0 L'^T.
  by rewrite /L tr_block_mx trmx1 trmx0.
rewrite TL /L /D !mulmx_block.
rewrite !mul1mx !mul0mx !mulmx0 !addr0 !add0r !mulmx1.
rewrite linearZ /= Eu -!scalemxAl -!scalemxAr.
have -> : a^-1 *: (v *m a%:M) = v.
  by rewrite mul_mx_scalar scalerA mulVf // scale1r.
have -> : a^-1 *: (a%:M *m ursubmx A) = ursubmx A.
  by rewrite mul_scalar_mx scalerA mulVf // scale1r.
rewrite E /schur -/v -/a mul0mx addr0 mul_mx_scalar -scalemxAl !scalerA mulVf // mulr1 addrC subrK.
by rewrite -(ul11 A) submxK.
Qed.

Theorem ldl_correct n (A : 'M[F]_n.+1) :
  A^T = A -> regular A -> let LD := ldl A in LD.1 *m LD.2 *m LD.1^T = A.
Proof.
elim: n A => [|n IH] A As /=.
  by move=> _; rewrite mul1mx trmx1 mulmx1.
case/andP=> a0 Hreg.
have Ss := @schur_sym n.+1 A As.
exact: (@ldl_step n.+1 A _ _ As a0 (IH (schur A) Ss Hreg)).
Qed.

(* L is unit lower triangular and D is diagonal *)
Lemma ldl_L_unit_lower n (A : 'M[F]_n.+1) (i j : 'I_n.+1) : (i <= j)%N -> (ldl A).1 i j = (i == j)%:R.
Proof.
elim: n A i j => [|n IH] A i j /=.
  by rewrite !ord1 mxE eqxx.
case: (@split_ordP 1 n.+1 i) => i' ->; case: (@split_ordP 1 n.+1 j) => j' -> le_ij.
- by rewrite (@block_mxEul _ 1 n.+1 1 n.+1) !ord1 mxE eqxx.
- rewrite (@block_mxEur _ 1 n.+1 1 n.+1) mxE; have -> // : (lshift n.+1 i' == rshift 1 j') = false.
  by apply/negbTE; rewrite (@eq_lrshift 1 n.+1).
- by move: le_ij; rewrite /= ord1.
- rewrite (@block_mxEdr _ 1 n.+1 1 n.+1) IH; last by move: le_ij; rewrite /= leq_add2l.
  by rewrite (@eq_rshift 1 n.+1).
Qed.

Lemma ldl_D_diagonal n (A : 'M[F]_n.+1) (i j : 'I_n.+1) : i != j -> (ldl A).2 i j = 0.
Proof.
elim: n A i j => [|n IH] A i j /=.
  by rewrite !ord1 eqxx.
case: (@split_ordP 1 n.+1 i) => i' ->; case: (@split_ordP 1 n.+1 j) => j' -> ne_ij.
- by move: ne_ij; rewrite !ord1 eqxx.
- by rewrite (@block_mxEur _ 1 n.+1 1 n.+1) mxE.
- by rewrite (@block_mxEdl _ 1 n.+1 1 n.+1) mxE.
- by rewrite (@block_mxEdr _ 1 n.+1 1 n.+1) IH //; move: ne_ij; rewrite (@eq_rshift 1 n.+1).
Qed.

(* ---- band preservation ---- *)
Definition banded n (w : nat) (A : 'M[F]_n) := forall i j : 'I_n, (w < i - j)%N || (w < j - i)%N -> A i j = 0.

Lemma schur_banded n w (A : 'M[F]_(1 + n)) : banded w A -> banded w (schur A).
Proof.
move=> bA i j far; rewrite /schur !mxE big_ord1 !mxE.
have B0 : A (rshift 1 i) (rshift 1 j) = 0.
  by apply: bA; rewrite /= !subnDl.
rewrite B0 sub0r.
have [wi|wi] := ltnP w (1 + i).
  have -> : A (rshift 1 i) (lshift n 0) = 0 by apply: bA; rewrite /= subn0 wi.
  by rewrite mul0r mulr0 oppr0.
have [wj|wj] := ltnP w (1 + j).
  have -> : A (lshift n 0) (rshift 1 j) = 0 by apply: bA; rewrite /= subn0 wj ?orbT.
  by rewrite mulr0 mulr0 oppr0.
(* both i+1 <= w and j+1 <= w: then |i - j| < w, contradiction *)
by exfalso; move: far wi wj; lia.
Qed.

Theorem ldl_L_banded n w (A : 'M[F]_n.+1) : banded w A -> banded w (ldl A).1.
Proof.
elim: n A => [|n IH] A bA i j /=.
  by rewrite !ord1 /= subnn.
case: (@split_ordP 1 n.+1 i) => i' ->; case: (@split_ordP 1 n.+1 j) => j' -> far.
- by move: far; rewrite !ord1 /= subnn.
- by rewrite (@block_mxEur _ 1 n.+1 1 n.+1) mxE.
- rewrite (@block_mxEdl _ 1 n.+1 1 n.+1) !mxE.
  suff -> : A (rshift 1 i') (lshift n.+1 j') = 0 by rewrite mulr0.
  by apply: bA.
- rewrite (@block_mxEdr _ 1 n.+1 1 n.+1); apply: (IH _ (schur_banded bA)).
  by move: far; rewrite /= !subnDl.
Qed.

(* ---- envelope (profile) preservation: no fill-in to the left of the first non-zero of a row ---- *)
(* f i = number of leading zeros of row i (and of column i, the matrix being symmetric) *)
Definition in_profile n (f : nat -> nat) (A : 'M[F]_n) :=
  forall i j : 'I_n, (j < f i)%N -> A i j = 0 /\ A j i = 0.

Lemma schur_profile n f (A : 'M[F]_(1 + n)) :
  in_profile f A -> in_profile (fun i => (f i.+1).-1) (schur A).
Proof.
move=> pA i j lt_j; rewrite /schur !mxE !big_ord1 !mxE.
have lt1 : (1 + j < f (1 + i))%N by rewrite add1n -ltn_predRL.
have pos : (0 < f (1 + i))%N by apply: leq_ltn_trans lt1.
have [B1 B2] := pA (rshift 1 i) (rshift 1 j) lt1.
have [V1 V2] := pA (rshift 1 i) (lshift n 0) pos.
by rewrite B1 B2 V1 V2 !(mul0r, mulr0) subr0.
Qed.

Theorem ldl_L_in_envelope n f (A : 'M[F]_n.+1) :
  in_profile f A -> forall i j : 'I_n.+1, (j < f i)%N -> (j < i)%N -> (ldl A).1 i j = 0.
Proof.
elim: n f A => [|n IH] f A pA i j /=.
  by rewrite !ord1.
case: (@split_ordP 1 n.+1 i) => i' ->; case: (@split_ordP 1 n.+1 j) => j' -> lt_j lt_ij.
- by move: lt_ij; rewrite !ord1.
- by rewrite (@block_mxEur _ 1 n.+1 1 n.+1) mxE.
- rewrite (@block_mxEdl _ 1 n.+1 1 n.+1) !mxE.
  have [V1 _] := pA (rshift 1 i') (lshift n.+1 j') lt_j.
  by rewrite V1 mulr0.
- rewrite (@block_mxEdr _ 1 n.+1 1 n.+1); apply: (IH _ _ (schur_profile pA)).
    by move: lt_j; rewrite /= !add1n ltn_predRL.
  by move: lt_ij; rewrite /= !add1n ltnS.
Qed.

End LDL.
