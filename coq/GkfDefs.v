(* C11, definitions: the run of the automaton regenerated from gkfparser.cpp (GkfGen.v), the grammar the code
   implements (code_grammar), the grammar of xml/gama-local.xsd at tag level (xsd_grammar), the abstraction from
   parser states to grammar stacks, and the boolean checks GkfProofs.v evaluates over the finite tables.
   Only table-independent lemmas here, so that GkfRun.v (generator / oracle of the correspondence check) still
   evaluates when a proof about the regenerated tables no longer goes through. *)
From Coq Require Import List Bool Arith Lia String.
From Gama Require Import GkfGen GkfModel.
Import ListNotations.

(* ---------- the generated automaton, run over events ---------- *)
Inductive outcome := Running (s : st) | Failed (located : bool).
Definition step (o : outcome) (e : ev tag) : outcome :=
  match o with
  | Failed l => Failed l                               (* CoreParser::error keeps the first error *)
  | Running s =>
    match e with
    | Open t => match start_step s t with SGo s' => Running s' | SErr l => Failed l end
    | Close => match end_step s with EGo s' _ => Running s' | EErr l => Failed l end
    | Text => if takes_text s then Running s else Failed true      (* error(T_GKF_illegal_text) *)
    end
  end.
Definition run (o : outcome) (w : list (ev tag)) : outcome := fold_left step w o.
Lemma run_failed l w : run (Failed l) w = Failed l.
Proof. induction w as [|e w IH]; [reflexivity | exact IH]. Qed.

(* ---------- the grammar the code implements ---------- *)
Definition obs_kind (t : tag) : bool :=
  match t with tag_direction | tag_distance | tag_angle | tag_s_distance | tag_z_angle | tag_azimuth => true | _ => false end.

Definition code_cm (c : option tag) (q : nat) (t : tag) : option nat :=
  match c, q with
  | None, 0 => match t with tag_gama_xml => Some 1 | _ => None end
  | Some tag_gama_xml, 0 => match t with tag_network => Some 0 | _ => None end
  | Some tag_network, 0 => match t with tag_description | tag_parameters | tag_points_observations => Some 0 | _ => None end
  | Some tag_points_observations, 0 =>
    match t with tag_point | tag_obs | tag_coordinates | tag_height_differences | tag_vectors => Some 0 | _ => None end
  | Some tag_obs, 0 => if obs_kind t then Some 0 else match t with tag_cov_mat => Some 1 | _ => None end
  | Some tag_coordinates, 0 => match t with tag_point => Some 0 | tag_cov_mat => Some 1 | _ => None end
  | Some tag_height_differences, 0 => match t with tag_dh => Some 0 | tag_cov_mat => Some 1 | _ => None end
  | Some tag_vectors, 0 => match t with tag_vec => Some 0 | tag_cov_mat => Some 1 | _ => None end
  | _, _ => None
  end.
Definition code_fin (c : option tag) (q : nat) : bool :=
  match c, q with
  | None, 1 => true
  | None, _ => false
  | Some tag_coordinates, 0 | Some tag_vectors, 0 => false      (* the cov-mat is mandatory *)
  | Some _, 0 => true
  | Some (tag_obs | tag_coordinates | tag_height_differences | tag_vectors), 1 => true
  | _, _ => false
  end.
Definition code_txt (c : option tag) : bool :=
  match c with Some tag_description | Some tag_cov_mat => true | _ => false end.
Definition code_grammar : grammar tag := Build_grammar code_cm code_fin code_txt.

(* ---------- the grammar of xml/gama-local.xsd (element structure): content automata regenerated from the schema by
   tools/gkf_translate.py (GkfGen.v: xsd_cm_gen, xsd_fin_gen, xsd_txt_gen) ---------- *)
Definition xsd_grammar : grammar tag := Build_grammar xsd_cm_gen xsd_fin_gen xsd_txt_gen.

(* ---------- abstraction: parser state -> stack of open elements with their content-model states ---------- *)
Definition k_doc1 : stack tag := [(None, 1)].
Definition k_gama : stack tag := (Some tag_gama_xml, 0) :: k_doc1.
Definition k_net : stack tag := (Some tag_network, 0) :: k_gama.
Definition k_po : stack tag := (Some tag_points_observations, 0) :: k_net.
Definition abs (s : st) : option (stack tag) :=
  match s with
  | state_error => None
  | state_start => Some [(None, 0)]
  | state_gama_xml => Some k_gama
  | state_network => Some k_net
  | state_description => Some ((Some tag_description, 0) :: k_net)
  | state_parameters => Some ((Some tag_parameters, 0) :: k_net)
  | state_point_obs => Some k_po
  | state_point => Some ((Some tag_point, 0) :: k_po)
  | state_obs => Some ((Some tag_obs, 0) :: k_po)
  | state_obs_direction => Some ((Some tag_direction, 0) :: (Some tag_obs, 0) :: k_po)
  | state_obs_distance => Some ((Some tag_distance, 0) :: (Some tag_obs, 0) :: k_po)
  | state_obs_angle => Some ((Some tag_angle, 0) :: (Some tag_obs, 0) :: k_po)
  | state_obs_sdistance => Some ((Some tag_s_distance, 0) :: (Some tag_obs, 0) :: k_po)
  | state_obs_zangle => Some ((Some tag_z_angle, 0) :: (Some tag_obs, 0) :: k_po)
  | state_obs_azimuth => Some ((Some tag_azimuth, 0) :: (Some tag_obs, 0) :: k_po)
  | state_obs_cov => Some ((Some tag_cov_mat, 0) :: (Some tag_obs, 1) :: k_po)
  | state_obs_after_cov => Some ((Some tag_obs, 1) :: k_po)
  | state_coords => Some ((Some tag_coordinates, 0) :: k_po)
  | state_coords_point => Some ((Some tag_point, 0) :: (Some tag_coordinates, 0) :: k_po)
  | state_coords_cov => Some ((Some tag_cov_mat, 0) :: (Some tag_coordinates, 1) :: k_po)
  | state_coords_after_cov => Some ((Some tag_coordinates, 1) :: k_po)
  | state_hdiffs => Some ((Some tag_height_differences, 0) :: k_po)
  | state_hdiffs_dh => Some ((Some tag_dh, 0) :: (Some tag_height_differences, 0) :: k_po)
  | state_hdiffs_cov => Some ((Some tag_cov_mat, 0) :: (Some tag_height_differences, 1) :: k_po)
  | state_hdiffs_after_cov => Some ((Some tag_height_differences, 1) :: k_po)
  | state_vectors => Some ((Some tag_vectors, 0) :: k_po)
  | state_vectors_vec => Some ((Some tag_vec, 0) :: (Some tag_vectors, 0) :: k_po)
  | state_vectors_cov => Some ((Some tag_cov_mat, 0) :: (Some tag_vectors, 1) :: k_po)
  | state_vectors_after_cov => Some ((Some tag_vectors, 1) :: k_po)
  | state_stop => Some k_doc1
  end.

(* ---------- boolean equality on stacks ---------- *)
Definition ctx_eqb (a b : option tag) : bool :=
  match a, b with None, None => true | Some x, Some y => tag_beq x y | _, _ => false end.
Fixpoint stack_eqb (a b : stack tag) : bool :=
  match a, b with
  | [], [] => true
  | (c1, q1) :: a', (c2, q2) :: b' => ctx_eqb c1 c2 && Nat.eqb q1 q2 && stack_eqb a' b'
  | _, _ => false
  end.
Definition ostack_eqb (a b : option (stack tag)) : bool :=
  match a, b with None, None => true | Some x, Some y => stack_eqb x y | _, _ => false end.
Lemma ctx_eqb_eq a b : ctx_eqb a b = true -> a = b.
Proof. destruct a, b; simpl; intro H; try discriminate; [f_equal; now apply internal_tag_dec_bl | reflexivity]. Qed.
Lemma stack_eqb_eq a : forall b, stack_eqb a b = true -> a = b.
Proof.
  induction a as [|[c1 q1] a IH]; intros [|[c2 q2] b]; simpl; intro H; try discriminate; [reflexivity|].
  apply andb_true_iff in H. destruct H as [H H3]. apply andb_true_iff in H. destruct H as [H1 H2].
  apply ctx_eqb_eq in H1. apply Nat.eqb_eq in H2. subst. f_equal. now apply IH.
Qed.
Lemma ostack_eqb_eq a b : ostack_eqb a b = true -> a = b.
Proof. destruct a, b; simpl; intro H; try discriminate; [f_equal; now apply stack_eqb_eq | reflexivity]. Qed.

(* ---------- the finite check: the tables are the stack machine of code_grammar under abs ---------- *)
Definition is_none {A} (o : option A) : bool := match o with None => true | Some _ => false end.
Definition sim_state (s : st) : bool :=
  match abs s with
  | None =>
    forallb (fun t => match start_step s t with SErr _ => true | SGo _ => false end) all_tags &&
    (match end_step s with EErr _ => true | EGo _ _ => false end) && negb (takes_text s)
  | Some k =>
    forallb (fun t => match start_step s t with
                      | SGo s' => negb (is_none (abs s')) && ostack_eqb (abs s') (sstep code_grammar k (Open t))
                      | SErr _ => is_none (sstep code_grammar k (Open t))
                      end) all_tags &&
    (match end_step s with
     | EGo s' _ => negb (is_none (abs s')) && ostack_eqb (abs s') (sstep code_grammar k Close)
     | EErr _ => is_none (sstep code_grammar k Close)
     end) &&
    Bool.eqb (takes_text s) (negb (is_none (sstep code_grammar k Text)))
  end.
Definition sim_ok : bool := forallb sim_state all_states.

