(* Executable (binary64) transliteration of GNU_gama::local::LocalLinearization and bearing_distance
   (lib/gnu_gama/local/local_linearization.cpp, bearing.cpp) used by the K correspondence of C05.
   The formulas are the ones LinProofs.v differentiates; transcendental functions come from FloatFns. *)
From Coq Require Import List Floats Bool Arith NArith.
From Gama Require Import Num FloatFns.
Import ListNotations.
Local Open Scope float_scope.

Definition R2G : float := 200 / fpi.
Definition R2CC : float := R2G * 10000.
Definition K10 : float := 10 * R2G.

Definition bearing_distance (ya xa yb xb : float) : float * float :=
  let dy := yb - ya in let dx := xb - xa in
  let d := PrimFloat.sqrt (dy * dy + dx * dx) in
  if PrimFloat.ltb d 0x1.0c6f7a0b5ed8dp-20 (* 1e-6 *) then (0, 0)
  else let s := fl_atan2 dy dx in ((if PrimFloat.leb 0 s then s else s + f2pi), d).

(* while (a > 200e4) a -= 400e4; while (a < -200e4) a += 400e4;  (fuel 8: |a| < 3400e4 cc) *)
Fixpoint fdown (n : nat) (a : float) : float :=
  match n with O => a | S k => if PrimFloat.ltb 2000000 a then fdown k (a - 4000000) else a end.
Fixpoint fup (n : nat) (a : float) : float :=
  match n with O => a | S k => if PrimFloat.ltb a (-2000000) then fup k (a + 4000000) else a end.
Definition freduce (a : float) : float := fup 8 (fdown 8 a).

Record lrow := mkrow {
  ty : nat;
  ax : float; ay : float; az : float; bx : float; by_ : float; bz : float; cx : float; cy : float;
  val : float; orient : float; xnorth : float;
  fa_xy : bool; fa_z : bool; fb_xy : bool; fb_z : bool; fc_xy : bool;
  i_rhs : float; i_coef : list (nat * float) }.

(* roles: 0 orientation, 1 from.x, 2 from.y, 3 from.z, 4 to.x, 5 to.y, 6 to.z, 7 fs.x, 8 fs.y *)
Definition opt (b : bool) (l : list (nat * float)) := if b then l else [].

Definition model (r : lrow) : option (float * list (nat * float)) :=
  match ty r with
  | 1%nat | 7%nat =>       (* direction / azimuth *)
    let '(s, d) := bearing_distance (ay r) (ax r) (by_ r) (bx r) in
    let K := K10 / d in let ps := K * fl_sin s in let pc := K * fl_cos s in
    let a := ((val r) + (if Nat.eqb (ty r) 1 then orient r else xnorth r) - s) * R2CC in
    Some (freduce a,
          (if Nat.eqb (ty r) 1 then [(0%nat, -1)] else []) ++
          opt (fa_xy r) [(2%nat, - pc); (1%nat, ps)] ++ opt (fb_xy r) [(5%nat, pc); (4%nat, - ps)])
  | 2%nat =>
    let '(s, d) := bearing_distance (ay r) (ax r) (by_ r) (bx r) in
    let ps := fl_sin s in let pc := fl_cos s in
    Some ((val r - d) * 1000,
          opt (fa_xy r) [(2%nat, - ps); (1%nat, - pc)] ++ opt (fb_xy r) [(5%nat, ps); (4%nat, pc)])
  | 3%nat =>               (* angle: from, bs = b, fs = c *)
    let '(s1, d1) := bearing_distance (ay r) (ax r) (by_ r) (bx r) in
    let '(s2, d2) := bearing_distance (ay r) (ax r) (cy r) (cx r) in
    let K1 := K10 / d1 in let K2 := K10 / d2 in
    let ps1 := K1 * fl_sin s1 in let pc1 := K1 * fl_cos s1 in
    let ps2 := K2 * fl_sin s2 in let pc2 := K2 * fl_cos s2 in
    let ds0 := s2 - s1 in let ds := if PrimFloat.ltb ds0 0 then ds0 + f2pi else ds0 in
    Some (freduce ((val r - ds) * R2CC),
          opt (fa_xy r) [(2%nat, - pc2 + pc1); (1%nat, ps2 - ps1)] ++
          opt (fb_xy r) [(5%nat, - pc1); (4%nat, ps1)] ++ opt (fc_xy r) [(8%nat, pc2); (7%nat, - ps2)])
  | 4%nat | 10%nat =>      (* h_diff / zdiff *)
    Some ((val r - (bz r - az r)) * 1000, opt (fa_z r) [(3%nat, -1)] ++ opt (fb_z r) [(6%nat, 1)])
  | 5%nat =>
    let dx := bx r - ax r in let dy := by_ r - ay r in let dz := bz r - az r in
    let sd := PrimFloat.sqrt (dx * dx + dy * dy + dz * dz) in
    if PrimFloat.eqb sd 0 then None else
    let px := dx / sd in let py := dy / sd in let pz := dz / sd in
    Some ((val r - sd) * 1000,
          opt (fa_xy r) [(2%nat, - py); (1%nat, - px)] ++ opt (fa_z r) [(3%nat, - pz)] ++
          opt (fb_xy r) [(5%nat, py); (4%nat, px)] ++ opt (fb_z r) [(6%nat, pz)])
  | 6%nat =>
    let dx := bx r - ax r in let dy := by_ r - ay r in let dz := bz r - az r in
    let d2 := dx * dx + dy * dy in let d := PrimFloat.sqrt d2 in let sd := PrimFloat.sqrt (d2 + dz * dz) in
    if PrimFloat.eqb d 0 || PrimFloat.eqb sd 0 then None else
    let k := K10 / (d * sd * sd) in
    let px := k * dz * dx in let py := k * dz * dy in let pz := - k * d * d in
    (* acos (dz/sd) = atan2 (d, dz) for d > 0 *)
    let za0 := fl_atan2 d dz in
    (* a reading above 200 gon is a second-face reading 2 pi - z: the computed value is mirrored AND the partials change sign *)
    let face2 := PrimFloat.ltb fpi (val r) in
    let za := if face2 then f2pi - za0 else za0 in
    let px := if face2 then - px else px in let py := if face2 then - py else py in let pz := if face2 then - pz else pz in
    Some ((val r - za) * R2CC,
          opt (fa_xy r) [(2%nat, - py); (1%nat, - px)] ++ opt (fa_z r) [(3%nat, - pz)] ++
          opt (fb_xy r) [(5%nat, py); (4%nat, px)] ++ opt (fb_z r) [(6%nat, pz)])
  | 8%nat => Some ((val r - (bx r - ax r)) * 1000, opt (fa_xy r) [(1%nat, -1)] ++ opt (fb_xy r) [(4%nat, 1)])
  | 9%nat => Some ((val r - (by_ r - ay r)) * 1000, opt (fa_xy r) [(2%nat, -1)] ++ opt (fb_xy r) [(5%nat, 1)])
  | 11%nat => Some ((val r - ax r) * 1000, opt (fa_xy r) [(1%nat, 1)])
  | 12%nat => Some ((val r - ay r) * 1000, opt (fa_xy r) [(2%nat, 1)])
  | 13%nat => Some ((val r - az r) * 1000, opt (fa_z r) [(3%nat, 1)])
  | _ => None
  end.

Fixpoint coef_close (a b : list (nat * float)) : bool :=
  match a, b with
  | [], [] => true
  | (i, x) :: a', (j, y) :: b' => Nat.eqb i j && fclose 0x1.12e0be826d695p-30 (* 1e-9 *) (PrimFloat.abs x) x y && coef_close a' b'
  | _, _ => false
  end.

Definition row_ok (r : lrow) : bool :=
  match model r with
  | None => false
  | Some (rhs, cf) =>
    PrimFloat.leb (PrimFloat.abs (rhs - i_rhs r)) (0x1.4f8b588e368f1p-16 (* 2e-5 *) + 0x1.12e0be826d695p-30 * PrimFloat.abs rhs)
    && coef_close cf (i_coef r)
  end.

Definition bad_rows (rows : list lrow) : list N := failing row_ok rows.
