(* C17: closed forms used by Student (N = 1, 2) and Chi_square (n = 2) are the exact quantiles of their
   distributions; symmetry of Normal / Student in the probability.  (Reals) *)
From Coq Require Import Reals Lra.
Local Open Scope R_scope.

(* ---- Student, 1 degree of freedom: distribution function F1 t = 1/2 + atan t / PI ---- *)
Definition F1 (t : R) : R := 1 / 2 + atan t / PI.
(* the code: for an upper tail probability alpha in (0, 1/2]:  a = PI/2 * (2 alpha), t = cos a / sin a *)
Definition student1 (alpha : R) : R := let a := PI / 2 * (2 * alpha) in cos a / sin a.

Lemma atan_cot a : 0 < a < PI -> atan (cos a / sin a) = PI / 2 - a.
Proof.
  intros [H0 H1].
  assert (Hs : sin a <> 0) by (apply Rgt_not_eq, sin_gt_0; lra).
  replace (cos a / sin a) with (tan (PI / 2 - a)).
  - apply atan_tan. lra.
  - unfold tan. rewrite sin_shift, cos_shift. reflexivity.
Qed.

Theorem student_1_exact alpha : 0 < alpha < 1 -> 1 - F1 (student1 alpha) = alpha.
Proof.
  intros [H0 H1]. unfold F1, student1. cbv zeta.
  assert (HP := PI_RGT_0).
  rewrite atan_cot by (split; nra).
  field. lra.
Qed.

(* ---- Student, 2 degrees of freedom: F2 t = 1/2 + t / (2 sqrt (2 + t^2)) ---- *)
Definition F2 (t : R) : R := 1 / 2 + t / (2 * sqrt (2 + t ^ 2)).
Definition student2 (alpha : R) : R := let a2 := 2 * alpha in sqrt (2 / (a2 * (2 - a2)) - 2).

Theorem student_2_exact alpha : 0 < alpha <= 1 / 2 -> 1 - F2 (student2 alpha) = alpha.
Proof.
  intros [H0 H1]. unfold F2, student2. cbv zeta.
  set (a2 := 2 * alpha). assert (Ha : 0 < a2 <= 1) by (unfold a2; lra).
  assert (Hq : 0 < a2 * (2 - a2)) by nra.
  set (q := 2 / (a2 * (2 - a2))).
  assert (Hq2 : 2 <= q).
  { unfold q. apply Rmult_le_reg_r with (a2 * (2 - a2)); [exact Hq|]. unfold Rdiv. rewrite Rmult_assoc, Rinv_l by lra. nra. }
  assert (Ht : sqrt (q - 2) ^ 2 = q - 2) by (rewrite <- Rsqr_pow2; apply Rsqr_sqrt; lra).
  rewrite Ht. replace (2 + (q - 2)) with q by ring.
  (* sqrt (q-2) / sqrt q = 1 - a2 *)
  assert (Hr : sqrt (q - 2) = (1 - a2) * sqrt q).
  { apply Rsqr_inj; [apply sqrt_pos | apply Rmult_le_pos; [lra | apply sqrt_pos] |].
    rewrite Rsqr_mult, !Rsqr_sqrt by lra. unfold Rsqr, q. field. lra. }
  rewrite Hr. assert (Hs : 0 < sqrt q) by (apply sqrt_lt_R0; lra).
  unfold a2. field. lra.
Qed.

(* ---- chi-square, 2 degrees of freedom: survival function exp (-x/2); the code returns -2 ln p ---- *)
Theorem chi2_2_exact p : 0 < p -> exp (- (-2 * ln p) / 2) = p.
Proof. intro Hp. replace (- (-2 * ln p) / 2) with (ln p) by field. apply exp_ln. exact Hp. Qed.

(* ---- chi-square, 1 degree of freedom is the square of the two-sided normal critical value: with Phi the normal
   distribution function, P(X^2 > c^2) = 2 (1 - Phi c); the code returns Normal(p/2)^2 ---- *)
Theorem chi2_1_via_normal (Phi : R -> R) (Nq : R -> R) p :
  (forall a, 0 < a < 1 -> 1 - Phi (Nq a) = a) -> 0 < p < 1 -> 2 * (1 - Phi (Nq (p / 2))) = p.
Proof. intros H Hp. rewrite H by lra. field. Qed.

(* ---- symmetry: the code computes the value for min (alpha, 1 - alpha) with one formula and flips the sign ---- *)
Section Symmetry.
Variable core : R -> R.          (* the part of Normal / Student evaluated at a = min (alpha, 1 - alpha) *)
Definition sym_quantile (alpha : R) : R :=
  if Rlt_dec (1 / 2) alpha then - core (1 - alpha) else core alpha.
Theorem quantile_symmetric alpha : alpha <> 1 / 2 -> sym_quantile (1 - alpha) = - sym_quantile alpha.
Proof.
  intro Hne. unfold sym_quantile.
  destruct (Rlt_dec (1 / 2) (1 - alpha)) as [H1|H1]; destruct (Rlt_dec (1 / 2) alpha) as [H2|H2]; try lra.
  all: replace (1 - (1 - alpha)) with alpha by ring; lra.
Qed.
End Symmetry.

(* monotonicity of the closed forms: Student N = 2 decreases in alpha on (0, 1/2] *)
Theorem student_2_decreasing a b : 0 < a -> a < b -> b <= 1 / 2 -> student2 b < student2 a.
Proof.
  intros Ha Hab Hb. unfold student2. cbv zeta.
  assert (H1 : 0 < 2 * a * (2 - 2 * a)) by nra.
  assert (H2 : 0 < 2 * b * (2 - 2 * b)) by nra.
  assert (H0 : 0 < (b - a) * (1 - (a + b))) by (apply Rmult_lt_0_compat; lra).
  assert (H3 : 2 * a * (2 - 2 * a) < 2 * b * (2 - 2 * b)).
  { replace (2 * b * (2 - 2 * b)) with (2 * a * (2 - 2 * a) + 4 * ((b - a) * (1 - (a + b)))) by ring. lra. }
  apply sqrt_lt_1_alt. split.
  - assert (2 * b * (2 - 2 * b) <= 1) by nra.
    assert (1 <= / (2 * b * (2 - 2 * b))).
    { apply Rmult_le_reg_l with (2 * b * (2 - 2 * b)); [exact H2|]. rewrite Rinv_r by lra. lra. }
    unfold Rdiv. lra.
  - apply Rplus_lt_compat_r. unfold Rdiv. apply Rmult_lt_compat_l; [lra|].
    apply Rinv_lt_contravar; [nra | exact H3].
Qed.
