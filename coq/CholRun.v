(* Executable exact (Q) L D L' by successive Schur complements -- the list-level counterpart of CholProofs.ldl -- and the
   judge of the C10 correspondence: the packed storage left by CovMat::cholDec (row r: D_r, then L(r+1..r+k, r),
   k = min(band, n-r)) against the exact factor of the same banded matrix. *)
From Coq Require Import List QArith Qabs Bool Arith NArith.
From Gama Require Import Num QLsq.
Import ListNotations.
Close Scope Q_scope.

(* dense symmetric A (list of rows) -> columns of L below the diagonal and the pivots; None when a pivot vanishes *)
Fixpoint ldlq (fuel : nat) (A : mat) : option (list vec * vec) :=
  match fuel with
  | O => Some ([], [])
  | S f =>
    match A with
    | [] => Some ([], [])
    | [] :: _ => None
    | (a :: u) :: rest =>
      if qzero a then None else
      let v := map (fun r => nthq r 0) rest in                  (* first column below the pivot *)
      let B := map (fun r => tl r) rest in
      let S := map (fun p => vsub (snd p) (vscale (qdiv (fst p) a) u)) (combine v B) in     (* B - v u / a *)
      match ldlq f S with
      | Some (Ls, Ds) => Some (map (fun x => qdiv x a) v :: Ls, a :: Ds)
      | None => None
      end
    end
  end.

Fixpoint take {A} (n : nat) (l : list A) : list A :=
  match n, l with O, _ => [] | S k, x :: r => x :: take k r | _, [] => [] end.

(* packed band image of the factor *)
Fixpoint pack (band : nat) (Ls : list vec) (Ds : vec) : vec :=
  match Ls, Ds with
  | l :: Ls', d :: Ds' => d :: take band l ++ pack band Ls' Ds'
  | _, _ => []
  end.

Definition expected_packed (dim band : nat) (vals : vec) : option vec :=
  match ldlq dim (band_to_dense dim band vals) with
  | Some (Ls, Ds) => Some (pack band Ls Ds)
  | None => None
  end.

(* reconstruction check in the model itself: L D L' = A exactly (what CholProofs.ldl_correct proves in general) *)
Definition ldl_reconstructs (dim band : nat) (vals : vec) : bool :=
  match ldlq dim (band_to_dense dim band vals) with
  | None => true
  | Some (Ls, Ds) =>
    let A := band_to_dense dim band vals in
    (* L as dense: L i j = 1 (i=j), Lcol_j[i-j-1] (i>j), 0 otherwise *)
    let Lij i j := if Nat.eqb i j then 1%Q else if Nat.ltb j i then nthq (nth j Ls []) (i - j - 1) else 0%Q in
    forallb (fun i => forallb (fun j =>
      let s := fold_left (fun acc k => qadd acc (qmul (qmul (Lij i k) (nthq Ds k)) (Lij j k))) (seq 0 dim) 0%Q in
      Qeq_bool s (nthq (nth i A []) j)) (seq 0 dim)) (seq 0 dim)
  end.

Definition qclose (tol a b : Q) : bool :=
  let d := Qabs (a - b) in
  let s := if Qle_bool (Qabs a) 1 then 1%Q else Qabs a in
  Qle_bool d (tol * s).
Fixpoint vclose (tol : Q) (a b : vec) : bool :=
  match a, b with [] , [] => true | x :: a', y :: b' => qclose tol x y && vclose tol a' b' | _, _ => false end.

(* one case: dim, band, the band values (exact), the packed storage the implementation left (doubles as exact rationals) *)
Definition chol_case_ok (c : nat * nat * vec * vec) : bool :=
  let '(dim, band, vals, got) := c in
  ldl_reconstructs dim band vals &&
  match expected_packed dim band vals with
  | Some e => vclose (1 # 1000000000) e got
  | None => false
  end.
Definition bad_chol (cs : list (nat * nat * vec * vec)) : list N := failing chol_case_ok cs.
