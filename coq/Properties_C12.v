(* C12 -- the XML result is a faithful, well-formed serialisation: property theorems only. *)
From Coq Require Import List NArith.
From Gama Require Import Strings StringsProofs.
Import ListNotations.

(* Text passed through the writer's escaping function is recovered exactly by standard XML
   entity decoding (so it contains no raw '<' or stray '&'), for every byte string. *)
Theorem C12_escape_roundtrip : forall s : str, unescape (str2xml s) = Some s.
Proof. exact unescape_str2xml. Qed.

Theorem C12_escape_injective : forall a b : str, str2xml a = str2xml b -> a = b.
Proof. exact str2xml_injective. Qed.

(* the escaping as it stood at the pinned commit did not have this property
   (fixed: see KNOWN_FINDINGS.txt) *)
Theorem C12_escape_pinned_refuted : exists s, unescape (str2xml_pinned s) <> Some s.
Proof. exact str2xml_pinned_refuted. Qed.

(* non-vacuity: a hostile description *)
Example C12_escape_example :
  unescape (str2xml [60; 39; 34; 62; 38; 97]%N) = Some [60; 39; 34; 62; 38; 97]%N.
Proof. reflexivity. Qed.
