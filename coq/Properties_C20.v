(* C20 -- ill-posed networks are diagnosed, identically for every algorithm: property theorems only. *)
From mathcomp Require Import all_ssreflect all_algebra.
From Gama Require Import LsqSpec SvdIndex.
Import GRing.Theory Num.Theory.
Local Open Scope ring_scope.

(* If the constraints do not resolve the defect (a datum transformation g, A g = 0, that the selection does not see,
   S g = 0), then every minimiser x has a different companion x + g with the same residuals and the same selected norm:
   no algorithm can report "the" adjustment, refusing is the only answer all algorithms can agree on. *)
Theorem C20_unresolved_defect_has_no_unique_solution (F : realFieldType) (m n : nat) (A : 'M[F]_(m,n)) (P : 'M[F]_m)
  (b : 'cV[F]_m) (S : 'M[F]_n) (x g : 'cV[F]_n) :
  S^T = S -> A *m g = 0 -> S *m g = 0 -> normal_eq A P b x ->
  normal_eq A P b (x + g) /\ res A b (x + g) = res A b x /\ qf S (x + g) = qf S x.
Proof.
move=> Ss Ag Sg Hx.
have R : res A b (x + g) = res A b x by rewrite /res mulmxDr Ag addr0.
split; first by rewrite /normal_eq R.
split=> //.
rewrite qfD // /qf /bil.
have -> : g^T *m S *m x = (S *m g)^T *m x by rewrite trmx_mul Ss.
have -> : g^T *m S *m g = (S *m g)^T *m g by rewrite trmx_mul Ss.
by rewrite Sg trmx0 !mul0mx sc0 mulr0 !addr0.
Qed.
Print Assumptions C20_unresolved_defect_has_no_unique_solution.

(* An unknown k with a non-zero entry in a null vector of A is linearly dependent: its column is a combination of
   the other columns (the coefficient vector h has h_k = 0). *)
Theorem C20_null_vector_entry_means_dependent_column (F : realFieldType) (m n : nat) (A : 'M[F]_(m,n))
  (g : 'cV[F]_n) (k : 'I_n) : A *m g = 0 -> g k 0 != 0 ->
  exists h : 'cV[F]_n, h k 0 = 0 /\ col k A = A *m h.
Proof.
move=> Ag gk.
pose ek : 'cV[F]_n := delta_mx k 0.
pose h : 'cV[F]_n := - (g k 0)^-1 *: (g - g k 0 *: ek).
exists h; split.
  by rewrite /h /ek !mxE !eqxx mulr1 subrr mulr0.
have Ck : col k A = A *m ek by rewrite /ek; apply/colP=> i; rewrite !mxE (bigD1 k) //= !mxE !eqxx mulr1 big1 ?addr0 // => j jk; rewrite !mxE (negbTE jk) mulr0.
rewrite /h -scalemxAr mulmxBr Ag sub0r -scalemxAr -Ck scalerN scaleNr opprK scalerA mulVf // scale1r.
by [].
Qed.
Print Assumptions C20_null_vector_entry_means_dependent_column.

(* Recorded finding (KNOWN_FINDINGS: C20:svd-lindep-flags-singular-value-index): reading "singular value i vanishes" as
   "unknown i is dependent" is refuted by a 2 x 2 decomposition A = U W V' (V orthogonal): W's second entry vanishes, yet
   the dependent unknown is the first (A e1 = 0) and the second is determined (A e2 <> 0). *)
Theorem C20_vanishing_singular_value_index_is_the_dependent_unknown_refuted (F : realFieldType) :
  [/\ Aex F = 1%:M *m Wex F *m (Vex F)^T, (Vex F)^T *m Vex F = 1%:M, Wex F 1 1 = 0,
      Aex F *m delta_mx 0 0 = (0 : 'cV_2) & Aex F *m delta_mx 1 0 != (0 : 'cV_2)].
Proof. exact: svd_index_is_not_the_unknown. Qed.
Print Assumptions C20_vanishing_singular_value_index_is_the_dependent_unknown_refuted.
