(* C04 -- solver answers do not depend on the order or history of queries: property theorems only. *)
From Coq Require Import List Bool Arith Permutation.
From Gama Require Import CacheModel CacheProofs.
Import ListNotations.

(* The move-to-front cache never loses or duplicates a buffer and never binds a key twice, whatever the
   sequence of requests (N buffers, any N). *)
Theorem C04_mtf_wellformed_for_every_history (n : nat) (ks : list nat) :
  wf n (fold_left (fun s k => fst (fst (mtf_get s k))) ks (mtf_init n)).
Proof.
  assert (H : forall s, wf n s -> wf n (fold_left (fun s k => fst (fst (mtf_get s k))) ks s)).
  { induction ks as [|k ks IH]; intros s Hs; cbn [fold_left]; [exact Hs|]. apply IH. apply wf_get. exact Hs. }
  apply H. apply wf_init.
Qed.
Print Assumptions C04_mtf_wellformed_for_every_history.

(* A key that is bound is found, with the buffer it was bound to. *)
Theorem C04_mtf_hit_returns_bound_buffer (n : nat) (s : mtf) (k b : nat) :
  wf n s -> In (k, b) (used s) -> snd (fst (mtf_get s k)) = b /\ snd (mtf_get s k) = true.
Proof. exact (get_hit n s k b). Qed.
Print Assumptions C04_mtf_hit_returns_bound_buffer.

(* A cache of computed vectors on top of it, flushed whenever the quantity that the vectors depend on (the
   regularisation in force) changes, answers every finite history of queries exactly like a fresh
   computation under the mode in force at the time of the query. *)
Theorem C04_cached_answers_are_history_independent (V : Type) (f : nat -> nat -> V) (dflt : V) (n : nat) :
  (n >= 1)%nat -> forall ops : list op, memo_run V f true (memo_init V dflt n) ops = fresh_run V f 0 ops.
Proof. intros Hn ops. apply (memo_flush_history_independent V f n Hn ops). apply minv_init. exact Hn. Qed.
Print Assumptions C04_cached_answers_are_history_independent.

(* Without the flush (AdjEnvelope::min_x at the pinned commit did not erase its cache) the property fails:
   the witness is the history  q(1); change of regularisation; q(1). *)
Theorem C04_unflushed_cache_refuted :
  exists ops, memo_run nat (fun md k => md) false (memo_init nat 0 3) ops <> fresh_run nat (fun md k => md) 0 ops.
Proof. exact memo_noflush_refuted. Qed.
Print Assumptions C04_unflushed_cache_refuted.

(* non-vacuity: a history with hits, misses and an eviction on the 3-slot cache *)
Example C04_example :
  mtf_run (mtf_init 3) [7; 8; 7; 9; 5; 8] =
  [(0, false); (1, false); (0, true); (2, false); (1, false); (0, false)].
Proof. reflexivity. Qed.
