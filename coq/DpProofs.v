(* C11: the table-driven DataParser (gama-g3 inputs, adjustment inputs, g3 adjustment results), tables regenerated from
   the C++ by tools/dp_translate.py (DpGen.v).
   Model: start_tag: state := next[state][tag], end_tag: state := after[state], state 0 = s_error; (s, t) pairs and end
   states without an init() go to s_error through error() (parser_error / end_tag: located).
   Proved for event sequences of any length, from finite checks over the regenerated tables:
     - the error state is absorbing and no init() enters it,
     - every state carries a nesting level: an open tag raises it by one, an end tag lowers it by one; hence after any
       prefix that has not been refused the parser's level equals opens - closes (the parser never loses track of the
       depth of the document), an accepted document is balanced and no prefix closes more than it opened. *)
From Coq Require Import List Arith Bool Lia.
From Gama Require Import DpGen.
Import ListNotations.

Fixpoint look3 (tbl : list (nat * nat * nat)) (s t : nat) : nat :=
  match tbl with
  | [] => 0
  | (s', t', n) :: r => if Nat.eqb s s' && Nat.eqb t t' then n else look3 r s t
  end.
Fixpoint look2 (tbl : list (nat * nat)) (s : nat) : nat :=
  match tbl with [] => 0 | (s', a) :: r => if Nat.eqb s s' then a else look2 r s end.

(* later init() calls overwrite earlier ones: the translator emits the final tables, one entry per key *)
Definition dnext (s t : nat) : nat := look3 next_table s t.
Definition dafter (s : nat) : nat := look2 after_table s.
Definition level (s : nat) : nat := look2 level_table s.

Inductive dev := DOpen (t : nat) | DClose.
Definition dstep (s : nat) (e : dev) : nat := match e with DOpen t => dnext s t | DClose => dafter s end.
Definition drun (s : nat) (w : list dev) : nat := fold_left dstep w s.

Definition opens (w : list dev) : nat := length (filter (fun e => match e with DOpen _ => true | DClose => false end) w).
Definition closes (w : list dev) : nat := length (filter (fun e => match e with DOpen _ => false | DClose => true end) w).

(* ---- finite checks over the regenerated tables ---- *)
Definition tables_ok : bool :=
  forallb (fun e => let '(s, t, n) := e in negb (Nat.eqb s 0) && negb (Nat.eqb n 0) && Nat.eqb (level n) (S (level s))) next_table &&
  forallb (fun e => let '(z, a) := e in negb (Nat.eqb z 0) && negb (Nat.eqb a 0) && Nat.eqb (level z) (S (level a))) after_table &&
  Nat.eqb (level st_start) 0 && Nat.eqb (level st_stop) 0 && negb (Nat.eqb st_start 0) && negb (Nat.eqb st_stop 0).
Lemma tables_ok_true : tables_ok = true.
Proof. vm_compute. reflexivity. Qed.

Lemma look3_in tbl s t : look3 tbl s t <> 0 -> In (s, t, look3 tbl s t) tbl.
Proof.
  induction tbl as [|[[s' t'] n] r IH]; simpl; intro H; [contradiction|].
  destruct (Nat.eqb s s' && Nat.eqb t t') eqn:E.
  - apply andb_true_iff in E. destruct E as [E1 E2]. apply Nat.eqb_eq in E1. apply Nat.eqb_eq in E2. subst. left. reflexivity.
  - right. apply IH. exact H.
Qed.
Lemma look2_in tbl s : look2 tbl s <> 0 -> In (s, look2 tbl s) tbl.
Proof.
  induction tbl as [|[s' a] r IH]; simpl; intro H; [contradiction|].
  destruct (Nat.eqb s s') eqn:E.
  - apply Nat.eqb_eq in E. subst. left. reflexivity.
  - right. apply IH. exact H.
Qed.
Lemma ok_parts :
  forallb (fun e => let '(s, t, n) := e in negb (Nat.eqb s 0) && negb (Nat.eqb n 0) && Nat.eqb (level n) (S (level s))) next_table = true /\
  forallb (fun e => let '(z, a) := e in negb (Nat.eqb z 0) && negb (Nat.eqb a 0) && Nat.eqb (level z) (S (level a))) after_table = true /\
  level st_start = 0 /\ level st_stop = 0 /\ st_start <> 0 /\ st_stop <> 0.
Proof.
  pose proof tables_ok_true as H. unfold tables_ok in H.
  apply andb_true_iff in H. destruct H as [H H6]. apply andb_true_iff in H. destruct H as [H H5].
  apply andb_true_iff in H. destruct H as [H H4]. apply andb_true_iff in H. destruct H as [H H3].
  apply andb_true_iff in H. destruct H as [H1 H2].
  refine (conj H1 (conj H2 (conj _ (conj _ (conj _ _))))).
  - apply Nat.eqb_eq. exact H3.
  - apply Nat.eqb_eq. exact H4.
  - intro E. rewrite E in H5. discriminate.
  - intro E. rewrite E in H6. discriminate.
Qed.

Lemma next_fact s t : dnext s t <> 0 -> s <> 0 /\ level (dnext s t) = S (level s).
Proof.
  intro H. destruct ok_parts as [H1 _]. rewrite forallb_forall in H1.
  specialize (H1 _ (look3_in next_table s t H)). cbv beta iota in H1.
  apply andb_true_iff in H1. destruct H1 as [H1 L]. apply andb_true_iff in H1. destruct H1 as [S0 _].
  split.
  - intro E. rewrite E in S0. discriminate.
  - apply Nat.eqb_eq. exact L.
Qed.
Lemma after_fact z : dafter z <> 0 -> z <> 0 /\ level z = S (level (dafter z)).
Proof.
  intro H. destruct ok_parts as [_ [H2 _]]. rewrite forallb_forall in H2.
  specialize (H2 _ (look2_in after_table z H)). cbv beta iota in H2.
  apply andb_true_iff in H2. destruct H2 as [H2 L]. apply andb_true_iff in H2. destruct H2 as [Z0 _].
  split.
  - intro E. rewrite E in Z0. discriminate.
  - apply Nat.eqb_eq. exact L.
Qed.

(* the error state is absorbing: nothing leaves state 0 *)
Lemma error_absorbing_step e : dstep 0 e = 0.
Proof.
  destruct e as [t|]; simpl.
  - destruct (Nat.eq_dec (dnext 0 t) 0) as [E|N]; [exact E|]. exfalso. destruct (next_fact 0 t N) as [K _]. apply K. reflexivity.
  - destruct (Nat.eq_dec (dafter 0) 0) as [E|N]; [exact E|]. exfalso. destruct (after_fact 0 N) as [K _]. apply K. reflexivity.
Qed.
Theorem dp_error_absorbing w : drun 0 w = 0.
Proof. induction w as [|e w IH]; [reflexivity|]. unfold drun. simpl. rewrite error_absorbing_step. exact IH. Qed.

(* the parser's level is the depth of the document *)
Theorem dp_level_is_depth : forall w s, drun s w <> 0 -> level (drun s w) + closes w = level s + opens w.
Proof.
  induction w as [|e w IH]; intros s H.
  - simpl. unfold opens, closes. simpl. lia.
  - change (drun s (e :: w)) with (drun (dstep s e) w) in *.
    assert (N : dstep s e <> 0).
    { intro E. rewrite E in H. rewrite dp_error_absorbing in H. apply H. reflexivity. }
    specialize (IH _ H). destruct e as [t|]; simpl in N.
    + destruct (next_fact s t N) as [_ L]. simpl dstep in IH. rewrite L in IH.
      unfold opens, closes in *. simpl. lia.
    + destruct (after_fact s N) as [_ L]. simpl dstep in IH.
      unfold opens, closes in *. simpl. lia.
Qed.

(* an accepted document is balanced and none of its prefixes closes more than it opened *)
Corollary dp_accepted_is_balanced w : drun st_start w = st_stop -> opens w = closes w.
Proof.
  intro H. destruct ok_parts as [_ [_ [L0 [L1 [_ N]]]]].
  pose proof (dp_level_is_depth w st_start) as K. rewrite H in K. specialize (K N). rewrite L0, L1 in K. lia.
Qed.
Corollary dp_prefix_never_overcloses w : drun st_start w <> 0 -> closes w <= opens w.
Proof.
  intro H. destruct ok_parts as [_ [_ [L0 _]]].
  pose proof (dp_level_is_depth w st_start H) as K. rewrite L0 in K. lia.
Qed.

(* no init() call enters the error state (before the repair: the body of <a> inside the g3 <ellipsoid> did) *)
Theorem dp_no_transition_into_error : forall s t n, In (s, t, n) next_table -> n <> 0.
Proof.
  intros s t n Hin. destruct ok_parts as [H1 _]. rewrite forallb_forall in H1. specialize (H1 _ Hin). cbv beta iota in H1.
  apply andb_true_iff in H1. destruct H1 as [H1 _]. apply andb_true_iff in H1. destruct H1 as [_ N].
  intro E. rewrite E in N. discriminate.
Qed.
