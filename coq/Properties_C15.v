(* C15 -- dense matrix library obeys the algebra it implements: property theorems only. *)
From mathcomp Require Import all_ssreflect all_algebra.
Import GRing.Theory.
Local Open Scope ring_scope.

(* the pseudo-inverse assembled from a singular value decomposition A = U W V' (U'U = 1, V'V = 1) and a
   generalised inverse Wp of the diagonal factor satisfies the four Moore-Penrose conditions *)
Theorem C15_pinv_from_svd_is_moore_penrose (F : fieldType) (m n : nat) (U : 'M[F]_(m,n)) (W Wp V : 'M[F]_n) :
  U^T *m U = 1%:M -> V^T *m V = 1%:M ->
  W *m Wp *m W = W -> Wp *m W *m Wp = Wp -> (W *m Wp)^T = W *m Wp -> (Wp *m W)^T = Wp *m W ->
  let A := U *m W *m V^T in let X := V *m Wp *m U^T in
  [/\ A *m X *m A = A, X *m A *m X = X, (A *m X)^T = A *m X & (X *m A)^T = X *m A].
Proof.
move=> UU VV H1 H2 H3 H4 A X.
have AX : A *m X = U *m (W *m Wp) *m U^T.
  by rewrite /A /X; rewrite !mulmxA -[U *m W *m V^T *m V]mulmxA VV mulmx1.
have XA : X *m A = V *m (Wp *m W) *m V^T.
  by rewrite /A /X; rewrite !mulmxA -[V *m Wp *m U^T *m U]mulmxA UU mulmx1.
split.
- rewrite AX /A.
  have -> : U *m (W *m Wp) *m U^T *m (U *m W *m V^T) = U *m (W *m Wp) *m (U^T *m U) *m W *m V^T by rewrite !mulmxA.
  rewrite UU mulmx1.
  have -> : U *m (W *m Wp) *m W *m V^T = U *m (W *m Wp *m W) *m V^T by rewrite !mulmxA.
  by rewrite H1.
- rewrite XA /X.
  have -> : V *m (Wp *m W) *m V^T *m (V *m Wp *m U^T) = V *m (Wp *m W) *m (V^T *m V) *m Wp *m U^T by rewrite !mulmxA.
  rewrite VV mulmx1.
  have -> : V *m (Wp *m W) *m Wp *m U^T = V *m (Wp *m W *m Wp) *m U^T by rewrite !mulmxA.
  by rewrite H2.
- by rewrite AX trmx_mul trmxK [(U *m _)^T]trmx_mul H3 mulmxA.
- by rewrite XA trmx_mul trmxK [(V *m _)^T]trmx_mul H4 mulmxA.
Qed.
Print Assumptions C15_pinv_from_svd_is_moore_penrose.

(* products and transposes: (A B)' = B' A', and the inverse is two-sided *)
Theorem C15_transpose_of_product (F : fieldType) (m n p : nat) (A : 'M[F]_(m,n)) (B : 'M[F]_(n,p)) :
  (A *m B)^T = B^T *m A^T.
Proof. exact: trmx_mul. Qed.

Theorem C15_left_inverse_is_right_inverse (F : fieldType) (n : nat) (A B : 'M[F]_n) : B *m A = 1%:M -> A *m B = 1%:M.
Proof. by move=> H; apply: (mulmx1C H). Qed.
Print Assumptions C15_left_inverse_is_right_inverse.
