(* C15 (storage part) -- packed storage of SymMat: property theorems only. *)
From Coq Require Import Arith List.
From Gama Require Import MatRun MatProofs.
Import ListNotations.

Theorem C15_symmat_position_in_bounds i j n : 1 <= i -> i <= j -> j <= n -> symmat_pos i j < n * (n + 1) / 2.
Proof. exact (symmat_pos_bound i j n). Qed.
Theorem C15_symmat_position_injective i j i' j' :
  1 <= i -> i <= j -> 1 <= i' -> i' <= j' -> symmat_pos i j = symmat_pos i' j' -> i = i' /\ j = j'.
Proof. exact (symmat_pos_injective i j i' j'). Qed.
Print Assumptions C15_symmat_position_injective.
Example C15_symmat_table_3 : symmat_table 3 = [0; 1; 3; 1; 2; 4; 3; 4; 5].
Proof. reflexivity. Qed.
