(* C15: storage maps and pseudo-inverse algebra. *)
From Coq Require Import Arith Lia List.
From Gama Require Import MatRun.

(* i <= j <= n: the packed position is below n(n+1)/2 and the map is injective on the upper triangle *)
Lemma tri_monotone a b : a <= b -> a * (a - 1) / 2 <= b * (b - 1) / 2.
Proof. intro H. apply Nat.div_le_mono; [lia|]. apply Nat.mul_le_mono; lia. Qed.

Lemma tri_step b : 1 <= b -> (b + 1) * (b + 1 - 1) / 2 = b * (b - 1) / 2 + b.
Proof.
  intro H. replace ((b + 1) * (b + 1 - 1)) with (b * (b - 1) + b * 2) by nia.
  rewrite Nat.div_add by lia. reflexivity.
Qed.

Theorem symmat_pos_bound i j n : 1 <= i -> i <= j -> j <= n -> symmat_pos i j < n * (n + 1) / 2.
Proof.
  intros Hi Hij Hj. unfold symmat_pos. destruct (Nat.leb i j) eqn:E; [|apply Nat.leb_gt in E; lia].
  assert (H1 : j * (j - 1) / 2 + j <= n * (n + 1) / 2).
  { rewrite <- tri_step by lia. replace (n * (n + 1)) with ((n + 1) * (n + 1 - 1)) by nia. apply tri_monotone. lia. }
  lia.
Qed.

Theorem symmat_pos_injective i j i' j' :
  1 <= i -> i <= j -> 1 <= i' -> i' <= j' -> symmat_pos i j = symmat_pos i' j' -> i = i' /\ j = j'.
Proof.
  intros Hi Hij Hi' Hij'. unfold symmat_pos.
  destruct (Nat.leb i j) eqn:E; [|apply Nat.leb_gt in E; lia].
  destruct (Nat.leb i' j') eqn:E'; [|apply Nat.leb_gt in E'; lia].
  intro H.
  assert (Hj : j = j').
  { destruct (Nat.lt_trichotomy j j') as [L|[L|L]]; [|exact L|].
    - exfalso. assert (j * (j - 1) / 2 + j <= j' * (j' - 1) / 2) by (rewrite <- tri_step by lia; apply tri_monotone; lia). lia.
    - exfalso. assert (j' * (j' - 1) / 2 + j' <= j * (j - 1) / 2) by (rewrite <- tri_step by lia; apply tri_monotone; lia). lia. }
  subst j'. split; [lia | reflexivity].
Qed.
