(* C06 -- consistent observations reproduce the network they were derived from: property theorems only
   (linear-algebra core; the observation functions themselves are in LinModel / Properties_C05). *)
From mathcomp Require Import all_ssreflect all_algebra.
From Gama Require Import LsqSpec.
Import GRing.Theory Num.Theory.
Local Open Scope ring_scope.

(* at the true coordinates every right-hand side is zero (Properties_C05: rhs = observed - computed); then the
   zero correction is a minimiser with zero residuals and zero sum of squares ... *)
Theorem C06_truth_needs_no_correction (F : realFieldType) (m n : nat) (A : 'M[F]_(m,n)) (P : 'M[F]_m) :
  normal_eq A P 0 0 /\ res A (0 : 'cV[F]_m) 0 = 0 /\ wss A P 0 0 = 0.
Proof. exact: (zero_rhs_zero_solution A P (erefl _)). Qed.
Print Assumptions C06_truth_needs_no_correction.

(* ... and every other minimiser has zero residuals too, and differs from zero only by a datum transformation:
   the truth is a fixed point of the linearise - solve - update iteration, for every algorithm *)
Theorem C06_consistent_data_zero_residuals (F : realFieldType) (m n : nat) (A : 'M[F]_(m,n)) (P : 'M[F]_m)
  (x : 'cV[F]_n) : P^T = P -> psd P -> pd P -> normal_eq A P 0 x -> res A 0 x = 0 /\ A *m x = 0.
Proof.
move=> Ps Pp Pd Hx; have [H0 [R0 _]] := zero_rhs_zero_solution A P (erefl (0 : 'cV[F]_m)).
have E := minimisers_same_residuals Ps Pp Pd H0 Hx.
split; first by rewrite -E R0.
by move: E; rewrite R0 /res subr0 => <-.
Qed.
Print Assumptions C06_consistent_data_zero_residuals.

(* a determined network (trivial null space) then returns exactly the zero correction *)
Corollary C06_determined_network_returns_truth (F : realFieldType) (m n : nat) (A : 'M[F]_(m,n)) (P : 'M[F]_m)
  (x : 'cV[F]_n) : P^T = P -> psd P -> pd P -> (forall g : 'cV[F]_n, A *m g = 0 -> g = 0) ->
  normal_eq A P 0 x -> x = 0.
Proof. by move=> Ps Pp Pd Hdet Hx; apply: Hdet; have [] := @C06_consistent_data_zero_residuals _ _ _ _ _ _ Ps Pp Pd Hx. Qed.
Print Assumptions C06_determined_network_returns_truth.

(* approximate heights from a zenith angle: the line of sight joins instrument and target, so with Delta the height
   difference along it (d cot z or s cos z) the marks differ by Delta + from_dh - to_dh -- the relation the repaired
   ApproximateHeights / AcordZderived use (they had dropped the two heights) *)
From mathcomp Require Import ring.
Theorem C06_height_difference_of_the_marks (F : realFieldType) (z_from z_to from_dh to_dh delta : F) :
  (z_to + to_dh) - (z_from + from_dh) = delta -> z_to - z_from = delta + from_dh - to_dh.
Proof. by move=> <-; ring. Qed.
Print Assumptions C06_height_difference_of_the_marks.
