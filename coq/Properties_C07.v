(* C07 -- equivalent descriptions of the same survey give the same adjustment: property theorems only
   (linear-algebra core: what re-expressions do to the linearised problem). *)
From mathcomp Require Import all_ssreflect all_fingroup all_algebra.
From Gama Require Import LsqSpec.
Import GRing.Theory Num.Theory.
Local Open Scope ring_scope.

(* reordering observations / clusters = an orthogonal (permutation) row transformation applied to A, b and P *)
Theorem C07_reordering_observations (F : realFieldType) (m n : nat) (A : 'M[F]_(m,n)) (P : 'M[F]_m)
  (b : 'cV[F]_m) (R : 'M[F]_m) (x : 'cV[F]_n) : R^T *m R = 1%:M ->
  (normal_eq (R *m A) (R *m P *m R^T) (R *m b) x <-> normal_eq A P b x) /\
  wss (R *m A) (R *m P *m R^T) (R *m b) x = wss A P b x.
Proof. exact: row_transformation_equivariant. Qed.
Print Assumptions C07_reordering_observations.

(* a permutation matrix is such an R *)
Lemma C07_permutation_is_orthogonal (F : realFieldType) (m : nat) (s : {perm 'I_m}) :
  (perm_mx s : 'M[F]_m)^T *m perm_mx s = 1%:M.
Proof. by rewrite tr_perm_mx -perm_mxM mulVg perm_mx1. Qed.

(* renaming / reordering points, mirroring an axis (y -> -y) or any other invertible re-parametrisation T of the
   unknowns: minimisers correspond under T^-1 and the residuals are identical *)
Theorem C07_reparametrising_unknowns (F : realFieldType) (m n : nat) (A : 'M[F]_(m,n)) (P : 'M[F]_m)
  (b : 'cV[F]_m) (T : 'M[F]_n) (x : 'cV[F]_n) : T \in unitmx ->
  (normal_eq A P b x -> normal_eq (A *m T) P b (invmx T *m x)) /\ res (A *m T) b (invmx T *m x) = res A b x.
Proof. exact: column_transformation_equivariant. Qed.
Print Assumptions C07_reparametrising_unknowns.

(* translating all coordinates / turning the zero of a direction set changes neither A nor b of the linearised
   problem (Properties_C05: coefficients depend on coordinate differences only, the orientation unknown absorbs the
   circle zero), so the statement for them is the identity; changing units of a group of observations
   (deg <-> gon: value and standard deviation scaled together) is a diagonal scaling D with P' = D^-1 P D^-1 *)
Theorem C07_rescaling_observation_units (F : realFieldType) (m n : nat) (A : 'M[F]_(m,n)) (P : 'M[F]_m)
  (b : 'cV[F]_m) (D : 'M[F]_m) (x : 'cV[F]_n) : D \in unitmx ->
  normal_eq A P b x -> normal_eq (D *m A) ((invmx D)^T *m P *m invmx D) (D *m b) x.
Proof.
move=> Du; rewrite /normal_eq /res => H.
have -> : D *m A *m x - D *m b = D *m (A *m x - b) by rewrite mulmxBr mulmxA.
rewrite trmx_mul.
have -> : A^T *m D^T *m ((invmx D)^T *m P *m invmx D) *m (D *m (A *m x - b))
        = A^T *m (D^T *m (invmx D)^T) *m P *m (invmx D *m D) *m (A *m x - b) by rewrite !mulmxA.
by rewrite -trmx_mul !mulVmx // trmx1 !mulmx1.
Qed.
Print Assumptions C07_rescaling_observation_units.
