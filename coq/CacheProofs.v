(* Proofs about the move-to-front cache model and the memo cache built on it. *)
From Coq Require Import List Bool Arith Lia Permutation.
From Gama Require Import CacheModel.
Import ListNotations.

Lemma extract_some k l b rest :
  extract k l = Some (b, rest) ->
  exists l1 l2, l = l1 ++ (k, b) :: l2 /\ rest = l1 ++ l2 /\ ~ In k (map fst l1).
Proof.
  revert b rest; induction l as [|[k' b'] l IH]; intros b rest H; cbn in H; [discriminate|].
  destruct (Nat.eqb k k') eqn:E.
  - apply Nat.eqb_eq in E; subst k'. injection H as -> ->. exists [], rest. cbn. auto.
  - destruct (extract k l) as [[b0 r0]|] eqn:E2; [|discriminate].
    injection H as -> <-. destruct (IH _ _ eq_refl) as (l1 & l2 & -> & -> & Hn).
    exists ((k', b') :: l1), l2. cbn. repeat split; auto.
    intros [Hk|Hk]; [subst; rewrite Nat.eqb_refl in E; discriminate | auto].
Qed.

Lemma extract_none k l : extract k l = None -> ~ In k (map fst l).
Proof.
  induction l as [|[k' b'] l IH]; cbn; intros H; [tauto|].
  destruct (Nat.eqb k k') eqn:E; [discriminate|].
  destruct (extract k l) as [[b0 r0]|]; [discriminate|].
  intros [Hk|Hk]; [subst; rewrite Nat.eqb_refl in E; discriminate | exact (IH eq_refl Hk)].
Qed.

Lemma extract_in k l : NoDup (map fst l) -> forall b, In (k, b) l -> exists rest, extract k l = Some (b, rest).
Proof.
  induction l as [|[k' b'] l IH]; cbn; intros Hnd b Hin; [tauto|].
  inversion Hnd as [|? ? Hni Hnd']; subst.
  destruct Hin as [Heq|Hin].
  - injection Heq as -> ->. rewrite Nat.eqb_refl. eauto.
  - destruct (Nat.eqb k k') eqn:E.
    + apply Nat.eqb_eq in E; subst. exfalso. apply Hni. apply in_map_iff. exists (k', b); auto.
    + destruct (IH Hnd' b Hin) as [rest ->]. eauto.
Qed.

(* ---------- invariants of the move-to-front structure ---------- *)
Definition wf (n : nat) (s : mtf) : Prop :=
  NoDup (map fst (used s)) /\ Permutation (map snd (used s) ++ free s) (seq 0 n).

Lemma wf_init n : wf n (mtf_init n).
Proof. split; cbn; [constructor | apply Permutation_refl]. Qed.

Lemma perm_move {A} (l1 l2 : list A) x : Permutation (x :: l1 ++ l2) (l1 ++ x :: l2).
Proof. apply Permutation_middle. Qed.

Lemma wf_get n s k : wf n s -> wf n (fst (fst (mtf_get s k))).
Proof.
  intros [Hk Hp]. unfold mtf_get.
  destruct (extract k (used s)) as [[b rest]|] eqn:E.
  - destruct (extract_some _ _ _ _ E) as (l1 & l2 & Hu & -> & Hn). cbn.
    rewrite Hu in *. split.
    + cbn. rewrite map_app in *. cbn in Hk.
      apply NoDup_remove in Hk as [Hk Hni]. constructor; auto.
    + cbn. rewrite !map_app in *. cbn in Hp.
      eapply Permutation_trans; [|exact Hp].
      rewrite <- !app_assoc. cbn. apply (perm_move (map snd l1) (map snd l2 ++ free s) b).
  - pose proof (extract_none _ _ E) as Hn.
    destruct (free s) as [|b fr] eqn:Ef.
    + destruct (rev (used s)) as [|[k0 b] rrest] eqn:Er; cbn; [split; auto; rewrite Ef; auto|].
      assert (Hu : used s = rev rrest ++ [(k0, b)]).
      { rewrite <- (rev_involutive (used s)), Er. reflexivity. }
      rewrite Hu in *. split; cbn.
      * rewrite map_app in *. cbn in *. constructor.
        -- intro Hin. apply Hn. apply in_or_app. auto.
        -- apply NoDup_remove in Hk as [Hk _]. rewrite app_nil_r in Hk. exact Hk.
      * rewrite app_nil_r in *. rewrite map_app in Hp. cbn in Hp.
        eapply Permutation_trans; [|exact Hp].
        apply Permutation_cons_append.
    + cbn. split; cbn.
      * constructor; auto.
      * eapply Permutation_trans; [|exact Hp]. apply (perm_move (map snd (used s)) fr b).
Qed.

Lemma wf_erase n s : wf n s -> wf n (mtf_erase s).
Proof. intros [Hk Hp]. split; cbn; [constructor | exact Hp]. Qed.

(* a hit returns exactly the buffer bound to the key; a key that is present always hits *)
Lemma get_hit n s k b : wf n s -> In (k, b) (used s) -> snd (fst (mtf_get s k)) = b /\ snd (mtf_get s k) = true.
Proof.
  intros [Hk _] Hin. unfold mtf_get. destruct (extract_in k (used s) Hk b Hin) as [rest ->]. cbn. auto.
Qed.

Lemma get_miss s k : ~ In k (map fst (used s)) -> snd (mtf_get s k) = false.
Proof.
  intro Hn. unfold mtf_get. destruct (extract k (used s)) as [[b rest]|] eqn:E.
  - destruct (extract_some _ _ _ _ E) as (l1 & l2 & Hu & _ & _). exfalso. apply Hn. rewrite Hu, map_app. apply in_or_app. right. left. reflexivity.
  - destruct (free s); [destruct (rev (used s)) as [|[? ?] ?]|]; reflexivity.
Qed.

(* the key just asked for is bound afterwards, to the returned buffer, at the front *)
Lemma get_binds s k : (length (used s) + length (free s) >= 1)%nat ->
  exists rest, used (fst (fst (mtf_get s k))) = (k, snd (fst (mtf_get s k))) :: rest.
Proof.
  intro Hc. unfold mtf_get. destruct (extract k (used s)) as [[b rest]|]; [cbn; eauto|].
  destruct (free s) as [|b fr] eqn:Ef; [|cbn; eauto].
  destruct (rev (used s)) as [|[k0 b] rr] eqn:Er; [|cbn; eauto].
  exfalso. assert (used s = []) as Hu by (rewrite <- (rev_involutive (used s)), Er; reflexivity).
  rewrite Hu in Hc. cbn in Hc. lia.
Qed.

(* entries other than the requested key survive a get unless they were the least recently used one
   of a full cache: formulated as "every binding after the get is the new one or an old one" *)
Lemma get_bindings_old s k k' b' :
  In (k', b') (used (fst (fst (mtf_get s k)))) -> (k' = k /\ b' = snd (fst (mtf_get s k))) \/ In (k', b') (used s).
Proof.
  unfold mtf_get. destruct (extract k (used s)) as [[b rest]|] eqn:E.
  - destruct (extract_some _ _ _ _ E) as (l1 & l2 & Hu & -> & _). cbn. intros [H|H].
    + injection H as <- <-. auto.
    + right. rewrite Hu. apply in_app_or in H. apply in_or_app. destruct H; [left|right; right]; auto.
  - destruct (free s) as [|b fr].
    + destruct (rev (used s)) as [|[k0 b] rr] eqn:Er; cbn; [auto|].
      intros [H|H]; [injection H as <- <-; auto|].
      right. rewrite <- (rev_involutive (used s)), Er. cbn. apply in_or_app. left. exact H.
    + cbn. intros [H|H]; [injection H as <- <-; auto | auto].
Qed.

(* ---------- memo cache ---------- *)
Section MemoProofs.
Variable V : Type.
Variable f : nat -> nat -> V.
Variable dflt : V.

Definition minv (n : nat) (c : memo V) : Prop :=
  wf n (m_mtf c) /\ (length (used (m_mtf c)) + length (free (m_mtf c)) >= 1)%nat /\
  forall k b, In (k, b) (used (m_mtf c)) -> m_store c b = f (m_mode c) k.

Lemma minv_init n : (n >= 1)%nat -> minv n (memo_init V dflt n).
Proof.
  intro Hn. split; [apply wf_init|]. split; cbn; [rewrite seq_length; lia | tauto].
Qed.

Lemma nodup_bufs n s : wf n s -> NoDup (map snd (used s) ++ free s).
Proof. intros [_ Hp]. eapply Permutation_NoDup; [apply Permutation_sym; exact Hp | apply seq_NoDup]. Qed.

Lemma length_get s k : (length (used s) + length (free s) >= 1)%nat ->
  (length (used (fst (fst (mtf_get s k)))) + length (free (fst (fst (mtf_get s k)))) >= 1)%nat.
Proof. intro H. destruct (get_binds s k H) as [rest ->]. cbn. lia. Qed.

Lemma memo_get_correct n c k : minv n c ->
  snd (memo_get V f c k) = f (m_mode c) k /\ minv n (fst (memo_get V f c k)) /\ m_mode (fst (memo_get V f c k)) = m_mode c.
Proof.
  intros (Hwf & Hlen & Hst). unfold memo_get.
  pose proof (wf_get n (m_mtf c) k Hwf) as Hwf'.
  pose proof (length_get (m_mtf c) k Hlen) as Hlen'.
  pose proof (get_bindings_old (m_mtf c) k) as Hold.
  destruct (mtf_get (m_mtf c) k) as [[s' b] hit] eqn:E. cbn in *.
  destruct hit.
  - (* hit: b is bound to k *)
    assert (Hin : In (k, b) (used (m_mtf c))).
    { destruct (in_dec Nat.eq_dec k (map fst (used (m_mtf c)))) as [Hi|Hi].
      - apply in_map_iff in Hi as [[k0 b0] [Hk Hi]]. cbn in Hk; subst k0.
        destruct (get_hit n (m_mtf c) k b0 Hwf Hi) as [Hb _]. rewrite E in Hb. cbn in Hb. subst. exact Hi.
      - pose proof (get_miss (m_mtf c) k Hi) as Hm. rewrite E in Hm. discriminate. }
    cbn. split; [apply Hst; exact Hin|]. split; [|reflexivity].
    split; [exact Hwf'|]. split; [exact Hlen'|]. cbn. intros k' b' Hin'.
    destruct (Hold k' b' Hin') as [[-> ->]|Ho]; auto.
  - cbn. split; [reflexivity|]. split; [|reflexivity].
    split; [exact Hwf'|]. split; [exact Hlen'|]. cbn. intros k' b' Hin'. unfold upd.
    destruct (Nat.eqb b' b) eqn:Eb.
    + apply Nat.eqb_eq in Eb; subst b'.
      (* two bindings with the same buffer in s' must be the same entry *)
      destruct (get_binds (m_mtf c) k Hlen) as [rest Hu]. rewrite E in Hu. cbn in Hu.
      pose proof (nodup_bufs n s' Hwf') as Hnd. rewrite Hu in Hnd, Hin'. cbn in Hnd, Hin'.
      destruct Hin' as [Heq|Hin']; [injection Heq as <-; reflexivity|].
      exfalso. inversion Hnd as [|? ? Hni _]; subst. apply Hni. apply in_or_app. left.
      apply in_map_iff. exists (k', b). auto.
    + destruct (Hold k' b' Hin') as [[-> ->]|Ho]; [rewrite Nat.eqb_refl in Eb; discriminate|].
      apply Hst. exact Ho.
Qed.

Lemma minv_flush n c md : minv n c -> minv n (memo_set_mode_flush V c md).
Proof.
  intros (Hwf & Hlen & _). split; [apply wf_erase; exact Hwf|]. split; cbn; [|tauto].
  rewrite app_length, map_length. exact Hlen.
Qed.

(* every finite sequence of queries and mode changes is answered as by fresh computations *)
Theorem memo_flush_history_independent n : (n >= 1)%nat ->
  forall ops c, minv n c -> memo_run V f true c ops = fresh_run V f (m_mode c) ops.
Proof.
  intros Hn ops. induction ops as [|o ops IH]; intros c Hc; [reflexivity|].
  destruct o as [k|md]; cbn [memo_run fresh_run].
  - destruct (memo_get_correct n c k Hc) as (Hv & Hc' & Hm).
    destruct (memo_get V f c k) as [c' v]. cbn in *. subst v. rewrite (IH c' Hc'), Hm. reflexivity.
  - rewrite (IH _ (minv_flush n c md Hc)). reflexivity.
Qed.
End MemoProofs.

(* without the flush the cache serves values computed under the previous mode *)
Theorem memo_noflush_refuted :
  exists ops, memo_run nat (fun md k => md) false (memo_init nat 0 3) ops <> fresh_run nat (fun md k => md) 0 ops.
Proof. exists [Get 1; SetMode 1; Get 1]. vm_compute. discriminate. Qed.
