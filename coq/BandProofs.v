(* C10 / C15: band storage of symmetric matrices (CovMat, BlockDiagonal) and the sub-matrix of active observations. *)
From Coq Require Import List Arith Lia ZArith.
Import ListNotations.

(* strictly increasing index lists (the positions of the active observations inside a cluster) *)
Fixpoint increasing (l : list nat) : Prop :=
  match l with
  | [] => True
  | a :: r => match r with [] => True | b :: _ => a < b /\ increasing r end
  end.

Lemma increasing_tail a l : increasing (a :: l) -> increasing l.
Proof. destruct l as [|b l]; cbn; [trivial | tauto]. Qed.

Lemma increasing_head_lt a l k : increasing (a :: l) -> k < length l -> a + S k <= nth k l 0.
Proof.
  revert a k. induction l as [|b l IH]; intros a k Hinc Hk; [cbn in Hk; lia|].
  destruct Hinc as [Hab Hr]. destruct k as [|k]; cbn [nth]; [lia|].
  cbn in Hk. specialize (IH b k Hr ltac:(lia)). lia.
Qed.

(* positions grow at least as fast as ranks: idx_j - idx_i >= j - i *)
Lemma increasing_gap l i j : increasing l -> i <= j -> j < length l -> nth i l 0 + (j - i) <= nth j l 0.
Proof.
  revert i j. induction l as [|a l IH]; intros i j Hinc Hij Hj; [cbn in Hj; lia|].
  destruct i as [|i].
  - destruct j as [|j]; cbn [nth]; [lia|]. cbn in Hj.
    pose proof (increasing_head_lt a l j Hinc ltac:(lia)). lia.
  - destruct j as [|j]; [lia|]. cbn [nth]. cbn in Hj.
    specialize (IH i j (increasing_tail _ _ Hinc) ltac:(lia) ltac:(lia)). lia.
Qed.

Section ActiveCov.
Variable T : Type.
Variable zero : T.
Variable cov : nat -> nat -> T.        (* the cluster covariance matrix, by position *)
Variable band : nat.
Hypothesis cov_banded : forall p q, band < q - p -> cov p q = zero.   (* p <= q side; symmetric storage *)

(* the matrix handed to the adjustment: entry (i, j), i <= j, of the active observations *)
Definition active_cov (idx : list nat) (i j : nat) : T := cov (nth i idx 0) (nth j idx 0).

(* Cluster::activeCov copies only |i - j| <= band: nothing is lost, every other entry of the true sub-matrix is zero *)
Theorem active_band_suffices idx i j :
  increasing idx -> i <= j -> j < length idx -> band < j - i -> active_cov idx i j = zero.
Proof.
  intros Hinc Hij Hj Hb. unfold active_cov. apply cov_banded.
  pose proof (increasing_gap idx i j Hinc Hij Hj). lia.
Qed.
End ActiveCov.

(* packed storage: row r (0-based) of the upper band holds min(band, dim-1-r)+1 entries; the address computed by
   CovMat::operator[] -- r*(band+1) minus a triangular number once the rows get shorter -- is the sum of the
   lengths of the preceding rows *)
Local Open Scope Z_scope.
Definition row_len (dim band r : Z) : Z := Z.min band (dim - 1 - r) + 1.
Definition covmat_offset2 (dim band r : Z) : Z :=       (* twice the offset, to stay in Z without division *)
  let t := r - (dim - band) in
  2 * r * (band + 1) - (if 0 <? t then t * (t + 1) else 0).

Theorem covmat_offset_step dim band r : 0 <= band < dim -> 0 <= r < dim ->
  covmat_offset2 dim band (r + 1) = covmat_offset2 dim band r + 2 * row_len dim band r.
Proof.
  intros Hb Hr. unfold covmat_offset2, row_len.
  destruct (0 <? r + 1 - (dim - band)) eqn:E1; destruct (0 <? r - (dim - band)) eqn:E2;
    rewrite ?Z.ltb_lt, ?Z.ltb_ge in *; try lia; nia.
Qed.

Theorem covmat_offset_zero dim band : covmat_offset2 dim band 0 = 0 \/ dim - band < 0.
Proof. unfold covmat_offset2. destruct (0 <? 0 - (dim - band)) eqn:E; rewrite ?Z.ltb_lt in *; [right; lia | left; lia]. Qed.

(* total number of stored elements: dim*(band+1) - band*(band+1)/2 *)
Theorem covmat_size dim band : 0 <= band < dim -> covmat_offset2 dim band dim = 2 * dim * (band + 1) - band * (band + 1).
Proof. intro H. unfold covmat_offset2. destruct (0 <? dim - (dim - band)) eqn:E; rewrite ?Z.ltb_lt, ?Z.ltb_ge in *; [|nia]. replace (dim - (dim - band)) with band by lia. lia. Qed.
