(* C16: the column graph model is a simple undirected graph. *)
From Coq Require Import List QArith Bool Arith Lia.
From Gama Require Import QLsq SparseRun.
Import ListNotations.

Lemma share_row_sym A i j : share_row A i j = share_row A j i.
Proof. unfold share_row. induction A as [|r A IH]; cbn; [reflexivity|]. rewrite IH. f_equal. apply andb_comm. Qed.

Lemma nth_map_seq {B} (f : nat -> B) n i d : (i < n)%nat -> nth i (map f (seq 0 n)) d = f i.
Proof.
  intro H. rewrite nth_indep with (d' := f 0%nat) by (rewrite map_length, seq_length; exact H).
  rewrite map_nth. rewrite seq_nth by exact H. reflexivity.
Qed.

Theorem graph_entry A n i j : (i < n)%nat -> (j < n)%nat ->
  nth j (nth i (graph_of A n) []) 0%nat = if negb (Nat.eqb i j) && share_row A i j then 1%nat else 0%nat.
Proof.
  intros Hi Hj. unfold graph_of. rewrite (nth_map_seq _ n i [] Hi). rewrite (nth_map_seq _ n j 0%nat Hj). reflexivity.
Qed.

Theorem graph_symmetric A n i j : (i < n)%nat -> (j < n)%nat ->
  nth j (nth i (graph_of A n) []) 0%nat = nth i (nth j (graph_of A n) []) 0%nat.
Proof.
  intros Hi Hj. rewrite !graph_entry by assumption. rewrite (share_row_sym A j i), (Nat.eqb_sym j i). reflexivity.
Qed.

Theorem graph_no_loops A n i : (i < n)%nat -> nth i (nth i (graph_of A n) []) 0%nat = 0%nat.
Proof. intro Hi. rewrite graph_entry by assumption. rewrite Nat.eqb_refl. reflexivity. Qed.
