(* C16: the column graph model is a simple undirected graph. *)
From Coq Require Import List QArith Bool Arith Lia.
From Gama Require Import QLsq SparseRun.
Import ListNotations.

Lemma share_row_sym A i j : share_row A i j = share_row A j i.
Proof. unfold share_row. induction A as [|r A IH]; cbn; [reflexivity|]. rewrite IH. f_equal. apply andb_comm. Qed.

Lemma nth_map_seq {B} (f : nat -> B) n i d : (i < n)%nat -> nth i (map f (seq 0 n)) d = f i.
Proof.
  intro H. rewrite nth_indep with (d' := f 0%nat) by (rewrite map_length, seq_length; exact H).
  rewrite map_nth. rewrite seq_nth by exact H. reflexivity.
Qed.

Theorem graph_entry A n i j : (i < n)%nat -> (j < n)%nat ->
  nth j (nth i (graph_of A n) []) 0%nat = if negb (Nat.eqb i j) && share_row A i j then 1%nat else 0%nat.
Proof.
  intros Hi Hj. unfold graph_of. rewrite (nth_map_seq _ n i [] Hi). rewrite (nth_map_seq _ n j 0%nat Hj). reflexivity.
Qed.

Theorem graph_symmetric A n i j : (i < n)%nat -> (j < n)%nat ->
  nth j (nth i (graph_of A n) []) 0%nat = nth i (nth j (graph_of A n) []) 0%nat.
Proof.
  intros Hi Hj. rewrite !graph_entry by assumption. rewrite (share_row_sym A j i), (Nat.eqb_sym j i). reflexivity.
Qed.

Theorem graph_no_loops A n i : (i < n)%nat -> nth i (nth i (graph_of A n) []) 0%nat = 0%nat.
Proof. intro Hi. rewrite graph_entry by assumption. rewrite Nat.eqb_refl. reflexivity. Qed.

(* the judges of the ordering mean what they say: `is_perm n p` accepts exactly the rearrangements of 1..n, and
   `inverse_ok p ip` says that ip undoes p position by position *)
From Coq Require Import Permutation.

Lemma existsb_eqb_In k p : existsb (Nat.eqb k) p = true <-> In k p.
Proof.
  rewrite existsb_exists. split.
  - intros [x [Hx E]]. apply Nat.eqb_eq in E. subst. exact Hx.
  - intro H. exists k. split; [exact H | apply Nat.eqb_refl].
Qed.

Theorem is_perm_sound n p : is_perm n p = true -> Permutation (seq 1 n) p.
Proof.
  unfold is_perm. intro H. apply andb_prop in H. destruct H as [Hl Hall].
  apply Nat.eqb_eq in Hl. rewrite forallb_forall in Hall.
  apply NoDup_Permutation_bis.
  - apply seq_NoDup.
  - rewrite seq_length. lia.
  - intros k Hk. apply existsb_eqb_In. apply Hall. exact Hk.
Qed.

Theorem is_perm_complete n p : Permutation (seq 1 n) p -> is_perm n p = true.
Proof.
  intro H. unfold is_perm. apply andb_true_intro. split.
  - apply Nat.eqb_eq. rewrite <- (Permutation_length H). apply seq_length.
  - apply forallb_forall. intros k Hk. apply existsb_eqb_In. apply (Permutation_in _ H). exact Hk.
Qed.

Corollary is_perm_NoDup n p : is_perm n p = true -> NoDup p /\ (forall k, In k p <-> 1 <= k <= n)%nat.
Proof.
  intro H. apply is_perm_sound in H. split.
  - apply (Permutation_NoDup H). apply seq_NoDup.
  - intro k. split.
    + intro Hk. apply Permutation_sym in H. apply (Permutation_in _ H) in Hk. apply in_seq in Hk. lia.
    + intro Hk. apply (Permutation_in _ H). apply in_seq. lia.
Qed.

Theorem inverse_ok_spec p ip : inverse_ok p ip = true ->
  forall i, (i < length p)%nat -> nth (nth i p 0%nat - 1) ip 0%nat = S i.
Proof.
  unfold inverse_ok. intros H i Hi. rewrite forallb_forall in H.
  apply Nat.eqb_eq. apply H. apply in_seq. lia.
Qed.

(* hence an accepted pair (p, ip) is a bijection with its inverse: p is injective on positions *)
Corollary inverse_ok_injective p ip i j : inverse_ok p ip = true -> (i < length p)%nat -> (j < length p)%nat ->
  nth i p 0%nat = nth j p 0%nat -> i = j.
Proof.
  intros H Hi Hj E. pose proof (inverse_ok_spec p ip H i Hi) as A. pose proof (inverse_ok_spec p ip H j Hj) as B.
  rewrite E in A. rewrite A in B. injection B. auto.
Qed.
