(* C11, executable side: the generated automaton as generator and oracle of the correspondence check.
   [enum n] lists every well-formed event sequence obtained from a prefix of at most n events that the model has
   accepted so far, extended by ANY one event (all tags incl. an unknown one, close, text) and completed by the
   end tags still owed; each with the model's verdict: None = accepted (state_stop), Some i = the event with index i
   is the first one refused.  Events are coded 0 = close, 1 = text, 2+i = open of the i-th tag of all_tags. *)
From Coq Require Import List Arith Bool.
From Coq Require String.
From Gama Require Import GkfGen GkfModel GkfDefs GkfAttrDefs.
Import ListNotations.

Definition ev_of (n : nat) : ev tag :=
  match n with 0 => Close | 1 => Text | S (S i) => Open (nth i all_tags tag_unknown) end.
Definition ncodes : nat := 2 + length all_tags.

Fixpoint verdict_from (o : outcome) (i : nat) (w : list nat) : option nat :=
  match w with
  | [] => match o with Running state_stop => None | _ => Some 999 end
  | e :: r => match step o (ev_of e) with Failed _ => Some i | o' => verdict_from o' (S i) r end
  end.
Definition verdict (w : list nat) : option nat := verdict_from (Running state_start) 0 w.

(* the same document judged by the hand-written grammars (independent of the generated tables) *)
Definition in_code_grammar (w : list nat) : bool := sm_accepts code_grammar (map ev_of w).
(* index of the first event the stack machine of the code's grammar refuses (999: all events pass but the document is
   not complete); None = accepted.  By run_refines it must be the automaton's verdict. *)
Fixpoint grammar_verdict_from (k : stack tag) (i : nat) (w : list nat) : option nat :=
  match w with
  | [] => match k with [(None, 1)] => None | _ => Some 999 end
  | e :: r => match sstep code_grammar k (ev_of e) with None => Some i | Some k' => grammar_verdict_from k' (S i) r end
  end.
Definition grammar_verdict (w : list nat) : option nat := grammar_verdict_from [(None, 0)] 0 w.
Definition same_verdict (a b : option nat) : bool :=
  match a, b with None, None => true | Some x, Some y => Nat.eqb x y | _, _ => false end.
Definition verdicts_agree (w : list nat) : bool := same_verdict (verdict w) (grammar_verdict w).
Definition in_xsd_grammar (w : list nat) : bool := sm_accepts xsd_grammar (map ev_of w).

Definition depth_after (d c : nat) : option nat :=
  match c with 0 => match d with 0 => None | S d' => Some d' end | 1 => match d with 0 => None | _ => Some d end | _ => Some (S d) end.

Fixpoint enum_from (fuel d : nat) (o : outcome) (rp : list nat) : list (list nat * option nat * bool * bool) :=
  match fuel with
  | O => []
  | S fuel' =>
    flat_map (fun c =>
      match depth_after d c with
      | None => []
      | Some d' =>
        let rp' := c :: rp in
        let w := rev rp' ++ repeat 0 d' in
        (w, verdict w, verdicts_agree w, in_xsd_grammar w) ::
        match step o (ev_of c) with
        | Failed _ => []
        | o' => match d' with 0 => [] | _ => enum_from fuel' d' o' rp' end      (* the root is closed: the document is over *)
        end
      end) (seq 0 ncodes)
  end.
(* the first event of a document is an open tag *)
Definition enum (n : nat) : list (list nat * option nat * bool * bool) :=
  flat_map (fun c => let w := [c; 0] in
                     (w, verdict w, verdicts_agree w, in_xsd_grammar w) :: match step (Running state_start) (ev_of c) with Failed _ => [] | o' => enum_from n 1 o' [c] end)
           (seq 2 (length all_tags)).

(* attribute layer: the element opened by event j of w carries one more attribute named a: does the handler of the
   transition let the name through?  None: event j is not an open event reached by the automaton *)
Definition attr_verdict (c : list nat * nat * String.string) : option bool :=
  let '(w, j, a) := c in
  match run (Running state_start) (map ev_of (firstn j w)), nth_error w j with
  | Running s, Some e => match ev_of e with
                         | Open t => match start_step s t with SGo _ => Some (accepts_attr s t a) | SErr _ => None end
                         | _ => None
                         end
  | _, _ => None
  end.
