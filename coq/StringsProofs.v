(* Proofs about the string models: escaping round trip, literal recognisers. *)
From Coq Require Import List NArith Arith Bool Lia.
From Gama Require Import Strings.
Import ListNotations.
Local Open Scope N_scope.

(* ---------- str2xml ---------- *)

Lemma unescape_esc_gen : forall s n, (length (str2xml s) <= n)%nat -> unescape_fuel n (str2xml s) = Some s.
Proof.
  induction s as [|c s IH]; intros n Hn.
  - destruct n; reflexivity.
  - unfold str2xml in *. cbn [flat_map] in *. rewrite app_length in Hn.
    unfold esc1 in *.
    destruct (N.eqb c lt) eqn:E1.
    { apply N.eqb_eq in E1; subst c. cbn [s_lt length app] in *.
      destruct n as [|n]; [lia|]. cbn. rewrite IH by (cbn in Hn; lia). reflexivity. }
    destruct (N.eqb c gt) eqn:E2.
    { apply N.eqb_eq in E2; subst c. cbn [s_gt length app] in *.
      destruct n as [|n]; [lia|]. cbn. rewrite IH by (cbn in Hn; lia). reflexivity. }
    destruct (N.eqb c amp) eqn:E3.
    { apply N.eqb_eq in E3; subst c. cbn [s_amp length app] in *.
      destruct n as [|n]; [lia|]. cbn. rewrite IH by (cbn in Hn; lia). reflexivity. }
    destruct (N.eqb c apos) eqn:E4.
    { apply N.eqb_eq in E4; subst c. cbn [s_apos length app] in *.
      destruct n as [|n]; [lia|]. cbn. rewrite IH by (cbn in Hn; lia). reflexivity. }
    destruct (N.eqb c quot) eqn:E5.
    { apply N.eqb_eq in E5; subst c. cbn [s_quot length app] in *.
      destruct n as [|n]; [lia|]. cbn. rewrite IH by (cbn in Hn; lia). reflexivity. }
    cbn [app length] in *. destruct n as [|n]; [lia|].
    cbn [unescape_fuel]. rewrite E3, E1. rewrite IH by lia. reflexivity.
Qed.

(* every string survives escape + standard XML decoding: in particular the output contains no
   raw '<' and every '&' starts one of the five predefined entities (else [unescape] = None) *)
Theorem unescape_str2xml : forall s, unescape (str2xml s) = Some s.
Proof. intro s. apply unescape_esc_gen. lia. Qed.

Theorem str2xml_injective : forall a b, str2xml a = str2xml b -> a = b.
Proof.
  intros a b H. pose proof (unescape_str2xml a) as Ha. rewrite H, unescape_str2xml in Ha. congruence.
Qed.

(* the escaping of the pinned commit is lossy: two different strings, one output after decoding *)
Theorem str2xml_pinned_refuted :
  exists s, unescape (str2xml_pinned s) <> Some s.
Proof. exists [apos]. vm_compute. discriminate. Qed.

Theorem str2xml_pinned_raw_quote : str2xml_pinned [quot] = [quot].
Proof. reflexivity. Qed.

(* ---------- IsInteger ---------- *)

Lemma is_integer_pinned_sign_only : is_integer_pinned [43] = true /\ is_integer_pinned [45] = true.
Proof. split; reflexivity. Qed.

Lemma app_eq_singleton {A} (a b : list A) (x : A) :
  a ++ b = [x] -> (a = [] /\ b = [x]) \/ (a = [x] /\ b = []).
Proof.
  destruct a as [|y a]; cbn; intro H; [left; auto|].
  injection H as -> H. apply app_eq_nil in H as [-> ->]. right; auto.
Qed.

Lemma not_integer_literal_sign : ~ integer_literal [43].
Proof.
  intros (w1 & sg & ds & w2 & E & _ & _ & _ & Hne & Hd).
  assert (In 43 ds \/ ds = []) as [Hin|Hn].
  { symmetry in E. apply app_eq_singleton in E as [[-> E]|[-> E]].
    - apply app_eq_singleton in E as [[-> E]|[-> E]].
      + apply app_eq_singleton in E as [[-> E]|[-> E]]; [right; reflexivity | left; left; reflexivity].
      + apply app_eq_nil in E as [-> _]. right; reflexivity.
    - apply app_eq_nil in E as [_ E]. apply app_eq_nil in E as [-> _]. right; reflexivity. }
  - unfold all in Hd. rewrite forallb_forall in Hd. specialize (Hd _ Hin). discriminate.
  - contradiction.
Qed.

(* the pinned recogniser accepts a string outside the documented integer grammar *)
Theorem is_integer_pinned_refuted : exists s, is_integer_pinned s = true /\ ~ integer_literal s.
Proof. exists [43]. split; [reflexivity | apply not_integer_literal_sign]. Qed.

(* ---------- the repaired recognisers against the documented literal grammars ---------- *)

Lemma take_drop p l : l = takew p l ++ dropw p l.
Proof. induction l as [|c r IH]; simpl; [reflexivity|]. destruct (p c); simpl; [f_equal; exact IH | reflexivity]. Qed.
Lemma takew_all p l : all p (takew p l).
Proof. unfold all. induction l as [|c r IH]; simpl; [reflexivity|]. destruct (p c) eqn:E; simpl; [rewrite E; exact IH | reflexivity]. Qed.
Lemma all_rev p l : all p l -> all p (rev l).
Proof.
  unfold all. rewrite !forallb_forall. intros H x Hx. apply H. apply in_rev. exact Hx.
Qed.
Lemma all_app p a b : all p a -> all p b -> all p (a ++ b).
Proof. unfold all. intros Ha Hb. rewrite forallb_app, Ha, Hb. reflexivity. Qed.

(* s = leading blanks ++ trim s ++ trailing blanks *)
Lemma trim_decomp s : exists w1 w2, s = w1 ++ trim s ++ w2 /\ all isspace w1 /\ all isspace w2.
Proof.
  exists (takew isspace s), (rev (takew isspace (rev (dropw isspace s)))).
  split; [|split; [apply takew_all | apply all_rev, takew_all]].
  unfold trim. rewrite <- rev_app_distr. rewrite <- take_drop. rewrite rev_involutive. apply take_drop.
Qed.

Lemma skip_sign_decomp t : exists sg, t = sg ++ skip_sign t /\ opt_sign sg.
Proof.
  destruct t as [|c r]; [exists []; split; [reflexivity | left; reflexivity]|].
  simpl. destruct (is_sign c) eqn:E.
  - exists [c]. split; [reflexivity|]. unfold is_sign in E. apply orb_true_iff in E. destruct E as [E|E]; apply N.eqb_eq in E; subst; [right; left | right; right]; reflexivity.
  - exists []. split; [reflexivity | left; reflexivity].
Qed.

(* soundness: whatever IsInteger accepts is a documented integer literal *)
Theorem is_integer_sound s : is_integer s = true -> integer_literal s.
Proof.
  unfold is_integer. intro H. destruct (trim_decomp s) as (w1 & w2 & E & H1 & H2).
  destruct (trim s) as [|c t] eqn:T; [discriminate|].
  apply andb_true_iff in H. destruct H as [Hne Hd].
  destruct (skip_sign_decomp (c :: t)) as (sg & Es & Hs).
  exists w1, sg, (skip_sign (c :: t)), w2. repeat split; try assumption.
  - rewrite E. rewrite Es at 1. rewrite <- !app_assoc. reflexivity.
  - intro Z. rewrite Z in Hne. discriminate.
Qed.

(* completeness: every documented integer literal is accepted *)
Lemma dropw_blank_prefix w x r : all isspace w -> isspace x = false -> dropw isspace (w ++ x :: r) = x :: r.
Proof.
  unfold all. induction w as [|c w IH]; simpl; intros Hw Hx; [rewrite Hx; reflexivity|].
  apply andb_true_iff in Hw. destruct Hw as [Hc Hw]. rewrite Hc. apply IH; assumption.
Qed.
Lemma trim_core w1 w2 x m m' y :
  all isspace w1 -> all isspace w2 -> x :: m = m' ++ [y] ->
  isspace x = false -> isspace y = false -> trim (w1 ++ (x :: m) ++ w2) = x :: m.
Proof.
  intros H1 H2 E Hx Hy. unfold trim.
  change (w1 ++ (x :: m) ++ w2) with (w1 ++ x :: (m ++ w2)).
  rewrite dropw_blank_prefix by assumption.
  change (x :: m ++ w2) with ((x :: m) ++ w2). rewrite rev_app_distr. rewrite E. rewrite rev_app_distr.
  change (rev [y] ++ rev m') with (y :: rev m').
  rewrite (dropw_blank_prefix (rev w2) y (rev m')); [|apply all_rev; assumption | assumption].
  change (y :: rev m') with ([y] ++ rev m'). rewrite rev_app_distr. rewrite rev_involutive. reflexivity.
Qed.
Lemma digit_not_space c : isdigit c = true -> isspace c = false.
Proof.
  unfold isdigit, isspace. intro H. apply andb_true_iff in H. destruct H as [A B].
  apply N.leb_le in A. apply N.leb_le in B.
  destruct (c =? 32) eqn:E; [apply N.eqb_eq in E; lia|]. simpl.
  destruct (9 <=? c) eqn:F; [|reflexivity]. simpl. apply N.leb_gt. lia.
Qed.
Lemma sign_not_space c : is_sign c = true -> isspace c = false.
Proof.
  unfold is_sign. intro H. apply orb_true_iff in H. destruct H as [H|H]; apply N.eqb_eq in H; subst; reflexivity.
Qed.
Lemma last_exists {A} (l : list A) : l <> [] -> exists m y, l = m ++ [y].
Proof. intro H. destruct (exists_last H) as (m & y & E). exists m, y. exact E. Qed.
Lemma all_last p m y : all p (m ++ [y]) -> p y = true.
Proof. unfold all. rewrite forallb_app. intro H. apply andb_true_iff in H. destruct H as [_ H]. simpl in H. rewrite andb_true_r in H. exact H. Qed.

Theorem is_integer_complete s : integer_literal s -> is_integer s = true.
Proof.
  intros (w1 & sg & ds & w2 & E & H1 & H2 & Hs & Hne & Hd).
  destruct (last_exists ds Hne) as (m & y & Ey).
  assert (Hy : isdigit y = true) by (rewrite Ey in Hd; apply (all_last _ _ _ Hd)).
  destruct ds as [|d0 dr]; [contradiction|].
  assert (Hd0 : isdigit d0 = true) by (unfold all in Hd; simpl in Hd; apply andb_true_iff in Hd; tauto).
  assert (T : trim s = sg ++ d0 :: dr).
  { subst s. destruct Hs as [-> | [-> | ->]]; simpl app.
    - apply (trim_core w1 w2 d0 dr m y); try assumption.
      + apply digit_not_space; exact Hd0.
      + apply digit_not_space; exact Hy.
    - change (w1 ++ 43 :: d0 :: dr ++ w2) with (w1 ++ (43 :: d0 :: dr) ++ w2).
      apply (trim_core w1 w2 43 (d0 :: dr) (43 :: m) y); try assumption; try reflexivity.
      + rewrite Ey. reflexivity.
      + apply digit_not_space; exact Hy.
    - change (w1 ++ 45 :: d0 :: dr ++ w2) with (w1 ++ (45 :: d0 :: dr) ++ w2).
      apply (trim_core w1 w2 45 (d0 :: dr) (45 :: m) y); try assumption; try reflexivity.
      + rewrite Ey. reflexivity.
      + apply digit_not_space; exact Hy. }
  unfold is_integer. rewrite T.
  assert (Hnd : is_sign d0 = false).
  { unfold isdigit in Hd0. apply andb_true_iff in Hd0. destruct Hd0 as [A B]. apply N.leb_le in A.
    unfold is_sign. destruct (d0 =? 43) eqn:E1; [apply N.eqb_eq in E1; lia|]. destruct (d0 =? 45) eqn:E2; [apply N.eqb_eq in E2; lia|]. reflexivity. }
  destruct Hs as [-> | [-> | ->]]; simpl.
  - rewrite Hnd. simpl. exact Hd.
  - exact Hd.
  - exact Hd.
Qed.

Theorem is_integer_spec s : is_integer s = true <-> integer_literal s.
Proof. split; [apply is_integer_sound | apply is_integer_complete]. Qed.

(* soundness of IsFloat: whatever it accepts is a documented floating-point literal *)
Lemma is_nil_false {A} (l : list A) : negb (is_nil l) = true -> l <> [].
Proof. destruct l; simpl; [discriminate | discriminate]. Qed.

Theorem is_float_sound s : is_float s = true -> float_literal s.
Proof.
  unfold is_float. intro H. destruct (trim_decomp s) as (w1 & w2 & E & H1 & H2).
  destruct (trim s) as [|c0 t0] eqn:T; [discriminate|].
  destruct (skip_sign_decomp (c0 :: t0)) as (sg & Es & Hs).
  set (t1 := skip_sign (c0 :: t0)) in *.
  pose proof (take_drop isdigit t1) as E1.
  set (d1 := takew isdigit t1) in *. set (t2 := dropw isdigit t1) in *.
  assert (Edot : exists dot, t2 = dot ++ match t2 with 46 :: r => r | _ => t2 end /\ opt_dot dot).
  { destruct t2 as [|c r]; [exists []; split; [reflexivity | left; reflexivity]|].
    destruct (N.eq_dec c 46) as [->|N]; [exists [46]; split; [reflexivity | right; reflexivity]|].
    exists []. split; [|left; reflexivity].
    destruct c as [|p]; [reflexivity|]. do 6 (destruct p as [p|p|]; try reflexivity). all: try (exfalso; apply N; reflexivity). }
  destruct Edot as (dot & Ed & Hdot).
  set (t3 := match t2 with 46 :: r => r | _ => t2 end) in *.
  pose proof (take_drop isdigit t3) as E3.
  set (d2 := takew isdigit t3) in *. set (t4 := dropw isdigit t3) in *.
  assert (Hex : exponent t4 /\ (d1 <> [] \/ d2 <> [])).
  { destruct t4 as [|c r].
    - split; [left; reflexivity|]. apply orb_true_iff in H. destruct H as [H|H]; [left | right]; apply is_nil_false; exact H.
    - destruct (is_e c) eqn:Ee; [|discriminate]. destruct r as [|c1 r']; [discriminate|].
      destruct (skip_sign_decomp (c1 :: r')) as (sg2 & Es2 & Hs2).
      destruct (skip_sign (c1 :: r')) as [|c2 r2] eqn:R; [discriminate|].
      apply andb_true_iff in H. destruct H as [Hd Hh]. split.
      + right. exists c, sg2, (c2 :: r2). repeat split; try assumption.
        * rewrite Es2 at 1. reflexivity.
        * discriminate.
      + apply orb_true_iff in Hh. destruct Hh as [Hh|Hh]; [left | right]; apply is_nil_false; exact Hh. }
  destruct Hex as [Hex Hdig].
  exists w1, sg, d1, dot, d2, t4, w2. repeat split; try assumption.
  - rewrite E. f_equal. rewrite Es. rewrite <- app_assoc. f_equal.
    rewrite E1 at 1. rewrite <- app_assoc. f_equal.
    rewrite Ed at 1. rewrite <- app_assoc. f_equal.
    change (t3 ++ w2 = d2 ++ t4 ++ w2). rewrite E3 at 1. rewrite <- app_assoc. reflexivity.
  - apply takew_all.
  - apply takew_all.
Qed.
