(* Proofs about the string models: escaping round trip, literal recognisers. *)
From Coq Require Import List NArith Arith Bool Lia.
From Gama Require Import Strings.
Import ListNotations.
Local Open Scope N_scope.

(* ---------- str2xml ---------- *)

Lemma unescape_esc_gen : forall s n, (length (str2xml s) <= n)%nat -> unescape_fuel n (str2xml s) = Some s.
Proof.
  induction s as [|c s IH]; intros n Hn.
  - destruct n; reflexivity.
  - unfold str2xml in *. cbn [flat_map] in *. rewrite app_length in Hn.
    unfold esc1 in *.
    destruct (N.eqb c lt) eqn:E1.
    { apply N.eqb_eq in E1; subst c. cbn [s_lt length app] in *.
      destruct n as [|n]; [lia|]. cbn. rewrite IH by (cbn in Hn; lia). reflexivity. }
    destruct (N.eqb c gt) eqn:E2.
    { apply N.eqb_eq in E2; subst c. cbn [s_gt length app] in *.
      destruct n as [|n]; [lia|]. cbn. rewrite IH by (cbn in Hn; lia). reflexivity. }
    destruct (N.eqb c amp) eqn:E3.
    { apply N.eqb_eq in E3; subst c. cbn [s_amp length app] in *.
      destruct n as [|n]; [lia|]. cbn. rewrite IH by (cbn in Hn; lia). reflexivity. }
    destruct (N.eqb c apos) eqn:E4.
    { apply N.eqb_eq in E4; subst c. cbn [s_apos length app] in *.
      destruct n as [|n]; [lia|]. cbn. rewrite IH by (cbn in Hn; lia). reflexivity. }
    destruct (N.eqb c quot) eqn:E5.
    { apply N.eqb_eq in E5; subst c. cbn [s_quot length app] in *.
      destruct n as [|n]; [lia|]. cbn. rewrite IH by (cbn in Hn; lia). reflexivity. }
    cbn [app length] in *. destruct n as [|n]; [lia|].
    cbn [unescape_fuel]. rewrite E3, E1. rewrite IH by lia. reflexivity.
Qed.

(* every string survives escape + standard XML decoding: in particular the output contains no
   raw '<' and every '&' starts one of the five predefined entities (else [unescape] = None) *)
Theorem unescape_str2xml : forall s, unescape (str2xml s) = Some s.
Proof. intro s. apply unescape_esc_gen. lia. Qed.

Theorem str2xml_injective : forall a b, str2xml a = str2xml b -> a = b.
Proof.
  intros a b H. pose proof (unescape_str2xml a) as Ha. rewrite H, unescape_str2xml in Ha. congruence.
Qed.

(* the escaping of the pinned commit is lossy: two different strings, one output after decoding *)
Theorem str2xml_pinned_refuted :
  exists s, unescape (str2xml_pinned s) <> Some s.
Proof. exists [apos]. vm_compute. discriminate. Qed.

Theorem str2xml_pinned_raw_quote : str2xml_pinned [quot] = [quot].
Proof. reflexivity. Qed.

(* ---------- IsInteger ---------- *)

Lemma is_integer_pinned_sign_only : is_integer_pinned [43] = true /\ is_integer_pinned [45] = true.
Proof. split; reflexivity. Qed.

Lemma app_eq_singleton {A} (a b : list A) (x : A) :
  a ++ b = [x] -> (a = [] /\ b = [x]) \/ (a = [x] /\ b = []).
Proof.
  destruct a as [|y a]; cbn; intro H; [left; auto|].
  injection H as -> H. apply app_eq_nil in H as [-> ->]. right; auto.
Qed.

Lemma not_integer_literal_sign : ~ integer_literal [43].
Proof.
  intros (w1 & sg & ds & w2 & E & _ & _ & _ & Hne & Hd).
  assert (In 43 ds \/ ds = []) as [Hin|Hn].
  { symmetry in E. apply app_eq_singleton in E as [[-> E]|[-> E]].
    - apply app_eq_singleton in E as [[-> E]|[-> E]].
      + apply app_eq_singleton in E as [[-> E]|[-> E]]; [right; reflexivity | left; left; reflexivity].
      + apply app_eq_nil in E as [-> _]. right; reflexivity.
    - apply app_eq_nil in E as [_ E]. apply app_eq_nil in E as [-> _]. right; reflexivity. }
  - unfold all in Hd. rewrite forallb_forall in Hd. specialize (Hd _ Hin). discriminate.
  - contradiction.
Qed.

(* the pinned recogniser accepts a string outside the documented integer grammar *)
Theorem is_integer_pinned_refuted : exists s, is_integer_pinned s = true /\ ~ integer_literal s.
Proof. exists [43]. split; [reflexivity | apply not_integer_literal_sign]. Qed.
