(* Executable (binary64) transliteration of GNU_gama::Ellipsoid (lib/gnu_gama/ellipsoid.cpp): the derived constants of
   set_abff1 from the two semi-axes, blh2xyz, and Bowring's closed formula xyz2blh with its second pass -- the K
   correspondence of C18 (GeoProofs.v holds the theorems over R: the point lies on the ellipsoid, exact height recovery). *)
From Coq Require Import List Floats Bool NArith.
From Gama Require Import Num FloatFns.
Import ListNotations.
Local Open Scope float_scope.

Record ell := mkell { eA : float; eB : float }.
Definition e2 (e : ell) : float := (eA e * eA e - eB e * eB e) / (eA e * eA e).
Definition e22 (e : ell) : float := (eA e * eA e - eB e * eB e) / (eB e * eB e).
Definition Ime2 (e : ell) : float := 1 - e2 e.
Definition AB (e : ell) : float := eA e / eB e.
Definition ellW (e : ell) (b : float) : float := let p := fl_sin b in PrimFloat.sqrt (1 - e2 e * p * p).
Definition ellN (e : ell) (b : float) : float := eA e / ellW e b.

Definition blh2xyz (e : ell) (b l h : float) : float * float * float :=
  let sb := fl_sin b in let cb := fl_cos b in let sl := fl_sin l in let cl := fl_cos l in
  let nn := ellN e b in let n1 := nn * Ime2 e + h in let nh := nn + h in
  (nh * cb * cl, nh * cb * sl, n1 * sb).

Definition xyz2blh (e : ell) (x y z : float) : float * float * float :=
  let l := fl_atan2 y x in
  let ax := PrimFloat.abs x in let ay := PrimFloat.abs y in
  let pole (_ : unit) :=
    if PrimFloat.ltb 0 z then (fpi2, 0, z - Ime2 e * ellN e fpi2) else (- fpi2, 0, - z - Ime2 e * ellN e (- fpi2)) in
  let go (p : float) :=
    let tan_u := AB e * z / p in
    let cos2_u := 1 / (1 + tan_u * tan_u) in
    let cos_u := PrimFloat.sqrt cos2_u in
    let sin2_u := 1 - cos2_u in
    let sin_u0 := PrimFloat.sqrt sin2_u in
    let sin_u := if PrimFloat.ltb z 0 then - sin_u0 else sin_u0 in
    let b1 := fl_atan2 (z + e22 e * eB e * sin2_u * sin_u) (p - e2 e * eA e * cos2_u * cos_u) in
    let sin_u' := Ime2 e * ellN e b1 / eB e * fl_sin b1 in
    let sin2_u' := sin_u' * sin_u' in
    let c0 := 1 - sin2_u' in
    let cos2_u' := if PrimFloat.ltb c0 0 then 0 else c0 in
    let cos_u' := PrimFloat.sqrt cos2_u' in
    let b := fl_atan2 (z + e22 e * eB e * sin2_u' * sin_u') (p - e2 e * eA e * cos2_u' * cos_u') in
    let h := if PrimFloat.ltb (PrimFloat.abs z) p then p / fl_cos b - ellN e b else z / fl_sin b - Ime2 e * ellN e b in
    (b, l, h) in
  if PrimFloat.ltb ay ax then let t := ay / ax in go (ax * PrimFloat.sqrt (1 + t * t))
  else if PrimFloat.eqb ay 0 then pole tt
  else let t := ax / ay in go (ay * PrimFloat.sqrt (1 + t * t)).

(* one case: semi-axes, (b, l, h), the implementation's (x, y, z) and its (b', l', h') computed back from them *)
Definition fnear (tol a b : float) : bool := PrimFloat.leb (PrimFloat.abs (a - b)) tol.
Definition angle_near (tol a b : float) : bool :=
  let d := PrimFloat.abs (a - b) in PrimFloat.leb d tol || PrimFloat.leb (PrimFloat.abs (d - f2pi)) tol.
Definition ell_case_ok (c : float * float * (float * float * float) * (float * float * float) * (float * float * float)) : bool :=
  let '(a, b_, (b, l, h), (x, y, z), (b2, l2, h2)) := c in
  let e := mkell a b_ in
  let '(mx, my, mz) := blh2xyz e b l h in
  let '(mb, ml, mh) := xyz2blh e x y z in
  (* coordinates to 1e-6 m (relative 1e-13 of the radius), angles to 1e-12 rad, heights to 1e-5 m *)
  fnear 0x1.0c6f7a0b5ed8dp-20 mx x && fnear 0x1.0c6f7a0b5ed8dp-20 my y && fnear 0x1.0c6f7a0b5ed8dp-20 mz z &&
  fnear 0x1.19799812dea11p-40 mb b2 && angle_near 0x1.19799812dea11p-40 ml l2 && fnear 0x1.4f8b588e368f1p-17 mh h2.
Definition bad_ell (cs : list (float * float * (float * float * float) * (float * float * float) * (float * float * float))) : list N := failing ell_case_ok cs.
