(* Executable (binary64) transliteration of lib/gnu_gama/statan.cpp: NormalDistribution, Normal, Student,
   Chi_square.  Loops carry explicit fuel; running out of fuel yields nan (never equal to anything). *)
From Coq Require Import List Floats Bool Arith NArith ZArith.
From Gama Require Import Num FloatFns.
Import ListNotations.
Local Open Scope float_scope.

Definition DBL_EPS : float := 0x1p-52.

(* series for small |x| *)
Fixpoint nd_series (fuel : nat) (y D s r x2 : float) : float :=
  match fuel with
  | O => nan
  | S k =>
    let y' := y * (x2 / r) in
    let D' := D + y' in
    if PrimFloat.leb (D' - s) 0 then D' else nd_series k y' D' D' (r + 2) x2
  end.

(* continued fraction for large |x|: returns (D, s) at loop exit *)
Fixpoint nd_cf (fuel : nat) (typv : bool) (t a1 a2 p1 q1 p2 q2 r D : float) : float * float :=
  match fuel with
  | O => (nan, nan)
  | S k =>
    let t := t + 4 in let a1 := a1 - 8 in let a2 := a2 + a1 in
    let s1 := a2 * p1 + t * p2 in let p1 := p2 in let p2 := s1 in
    let s2 := a2 * q1 + t * q2 in let q1 := q2 in let q2 := s2 in
    let big := PrimFloat.ltb 0x1.93e5939a08ceap+99 (* 1e30 *) q2 in
    let mind := 0x1.4484bfeebc2a0p-100 (* 1e-30 *) in
    let q1 := if big then q1 * mind else q1 in let q2 := if big then q2 * mind else q2 in
    let p1 := if big then p1 * mind else p1 in let p2 := if big then p2 * mind else p2 in
    let s := r in let r := D in
    let D0 := p2 / q2 in let D := if typv then D0 else 1 - D0 in
    if PrimFloat.ltb DBL_EPS (PrimFloat.abs (r - D)) then nd_cf k typv t a1 a2 p1 q1 p2 q2 r D else (D, s)
  end.

Definition normal_distribution (x : float) : float * float :=
  let f0 := 0x1.9884533d43651p-2 (* 0.3989422804014327 *) in
  if PrimFloat.eqb x 0 then (0.5, f0) else
  let typv := PrimFloat.leb x 0 in
  let b := PrimFloat.abs x in
  let x2 := x * x in
  let f := f0 * fl_exp (-0.5 * x2) in
  let r := f / b in
  if PrimFloat.leb r 0 then ((if typv then 0 else 1), f) else
  let r := if typv then 0x1.28f5c28f5c28fp+1 (* 2.32 *) else 3.5 in
  if PrimFloat.leb (b - r) 0 then
    let y := f * b in
    let D := nd_series 400 y y y 3 x2 in
    ((if typv then 0.5 - D else D + 0.5), f)
  else
    let t := x2 + 3 in
    let p1 := f in let q1 := b in let p2 := (t - 1) * f in let q2 := t * b in
    let r0 := p1 / q1 in let D0 := p2 / q2 in
    let r0 := if typv then r0 else 1 - r0 in let D0 := if typv then D0 else 1 - D0 in
    let '(D, s) := nd_cf 2000 typv t 2 0 p1 q1 p2 q2 r0 D0 in
    if PrimFloat.eqb (s - D) 0 then ((if typv then 0 else 1), f) else (D, f).

Definition normal (alfa : float) : float :=
  let a := if PrimFloat.ltb 0.5 alfa then 1 - alfa else alfa in
  let z := PrimFloat.sqrt (-2 * fl_ln a) in
  let z := z - ((0x1.de5532617c1bep+2 (* 7.47395 *) * z + 0x1.eee083126e979p+8 (* 494.877 *)) * z + 0x1.996e147ae147bp+10 (* 1637.72 *))
               / (((z + 0x1.d7c346dc5d639p+6 (* 117.9407 *)) * z + 0x1.c63353f7ced91p+9 (* 908.401 *)) * z + 0x1.49f7ae147ae14p+9 (* 659.935 *)) in
  let '(f0, g) := normal_distribution z in
  let f := 1 - f0 in
  let f := (f - a) / g in
  let n := (((((0.75 * z * z + 0.875) * f + z) * z + 0.5) * f / 3 + 0.5 * z) * f + 1) * f + z in
  if PrimFloat.ltb 0.5 alfa then - n else n.

Definition student (palfa : float) (N : Z) : float :=
  let alfa0 := if PrimFloat.ltb 0.5 palfa then 1 - palfa else palfa in
  let alfa := alfa0 * 2 in
  let sg (v : float) := if PrimFloat.ltb 0.5 palfa then - v else v in
  if PrimFloat.eqb palfa 0.5 then 0 else
  if (N <=? 1)%Z then let a := fpi / 2 * alfa in sg (fl_cos a / fl_sin a) else
  if (N <=? 2)%Z then sg (PrimFloat.sqrt (2 / (alfa * (2 - alfa)) - 2)) else
  let r := Z_to_float N in
  let a := 1 / (r - 0.5) in
  let b := 48 / (a * a) in
  let c := ((20700 * a / b - 98) * a - 16) * a + 0x1.8170a3d70a3d7p+6 (* 96.36 *) in
  let d := ((94.5 / (b + c) - 3) / b + 1) * PrimFloat.sqrt (fpi / 2 * a) * r in
  let x := d * alfa in let xx := 2 / r in
  let y := fl_pow x xx in
  if PrimFloat.ltb (a + 0x1.999999999999ap-5 (* 0.05 *)) y then
    let x := - normal (0.5 * alfa) in
    let y := x * x in
    let c := if (N <? 5)%Z then c + 0x1.3333333333333p-2 (* 0.3 *) * (r - 4.5) * (x + 0x1.3333333333333p-1 (* 0.6 *)) else c in
    let c := (((0x1.999999999999ap-5 * d * x - 5) * x - 7) * x - 2) * x + b + c in
    let y := (((((0x1.999999999999ap-2 (* 0.4 *) * y + 0x1.9333333333333p+2 (* 6.3 *)) * y + 36) * y + 94.5) / c - y - 3) / b + 1) * x in
    let y := a * y * y in
    let y := if PrimFloat.leb y 0x1.0624dd2f1a9fcp-9 (* 0.002 *) then 0.5 * y * y + y else fl_exp y - 1 in
    sg (PrimFloat.sqrt (r * y))
  else
    let y := ((1 / (((r + 6) / (r * y) - 0x1.6c8b439581062p-4 (* 0.089 *) * d - 0x1.a4dd2f1a9fbe7p-1 (* 0.822 *)) * (r + 2) * 3) + 0.5 / (r + 4))
              * y - 1) * (r + 1) / (r + 2) + 1 / y in
    sg (PrimFloat.sqrt (r * y)).

Definition chi_square_small (p : float) (n : Z) : option float :=
  if (n <? 2)%Z then let a := normal (0.5 * p) in Some (a * a)
  else if (n =? 2)%Z then Some (-2 * fl_ln p) else None.

Definition close (tol a b : float) : bool := fclose tol (PrimFloat.abs a) a b.

(* cases: (kind, arg, n, implementation value[s]) ; kinds: 1 normal, 2 nd (D), 3 student, 4 chi2 (n<=2 only) *)
Definition case_ok (c : nat * float * Z * float) : bool :=
  let '(k, a, n, v) := c in
  let tol := 0x1.5798ee2308c3ap-27 (* 1e-8 *) in
  match k with
  | 1%nat => close tol (normal a) v
  | 2%nat => PrimFloat.leb (PrimFloat.abs (fst (normal_distribution a) - v)) (0x1.19799812dea11p-40 (* ~1e-12 *) + tol * PrimFloat.abs v)
  | 3%nat => close tol (student a n) v
  | 4%nat => match chi_square_small a n with Some m => close tol m v | None => true end
  | _ => false
  end.
Definition bad_cases (cs : list (nat * float * Z * float)) : list N := failing case_ok cs.
