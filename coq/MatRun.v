(* C15: judging the dense matrix library against its mathematical definitions, exactly (Q), inside coqc. *)
From Coq Require Import List QArith Qabs ZArith Bool Arith.
From Gama Require Import QLsq.
Import ListNotations.
Local Open Scope Q_scope.

Definition rows (M : mat) : nat := length M.
Definition cols (M : mat) : nat := match M with [] => O | r :: _ => length r end.

Definition madd (A B : mat) : mat := map (fun p => vadd (fst p) (snd p)) (combine A B).
Definition msub (A B : mat) : mat := map (fun p => vsub (fst p) (snd p)) (combine A B).
Definition mT (M : mat) : mat := mtrans (cols M) M.
Definition mm (A B : mat) : mat := mmul (cols B) A B.

Definition mclose (tol : Q) (A B : mat) : bool :=
  Nat.eqb (length A) (length B) &&
  let sc := vmaxabs (map vmaxabs A) in
  forallb (fun p => Nat.eqb (length (fst p)) (length (snd p)) &&
                    forallb (fun q => qleb (qabs (fst q - snd q)) (tol * (if qleb 1 sc then sc else 1))) (combine (fst p) (snd p)))
          (combine A B).
Definition meq (A B : mat) : bool := mclose 0 A B.

(* what the implementation answered: a matrix or an exception *)
Inductive ans := AMat (M : mat) | AExc.

Inductive mcase :=
| CBin (op : nat) (A B : mat) (rA cA rB cB : nat) (r : ans)   (* 0 mm, 1 tm, 2 mt, 3 tt, 4 add, 5 sub ; declared dims *)
| CTrans (A : mat) (r : ans)
| CInv (A : mat) (r : ans)
| CSolve (C : mat) (rhs : vec) (r : ans)                       (* sym / cov: C symmetric positive definite *)
| CSvd (A : mat) (U : mat) (W : vec) (V : mat)
| CPinv (A : mat) (r : ans).

Definition conform (op rA cA rB cB : nat) : bool :=
  match op with
  | 0%nat => Nat.eqb cA rB | 1%nat => Nat.eqb rA rB | 2%nat => Nat.eqb cA cB | 3%nat => Nat.eqb rA cB
  | _ => Nat.eqb rA rB && Nat.eqb cA cB
  end.
Definition empty_dim (op rA cA rB cB : nat) : bool :=
  Nat.eqb rA 0 || Nat.eqb cA 0 || Nat.eqb rB 0 || Nat.eqb cB 0.

Definition expected (op : nat) (A B : mat) : mat :=
  match op with
  | 0%nat => mm A B | 1%nat => mm (mT A) B | 2%nat => mm A (mT B) | 3%nat => mm (mT A) (mT B)
  | 4%nat => madd A B | _ => msub A B
  end.

Definition diag (w : vec) : mat := map (fun i => map (fun j => if Nat.eqb i j then nthq w i else 0) (seq 0 (length w))) (seq 0 (length w)).
Definition tolf : Q := 1 # 1000000000.

Definition case_ok (c : mcase) : bool :=
  match c with
  | CBin op A B rA cA rB cB r =>
    if conform op rA cA rB cB then
      match r with
      | AMat R => if empty_dim op rA cA rB cB then true else mclose tolf (expected op A B) R
      | AExc => false
      end
    else match r with AExc => true | AMat _ => false end
  | CTrans A r => match r with AMat R => meq (mT A) R | AExc => false end
  | CInv A r => match r with AMat R => mclose tolf (ident (rows A)) (mm A R) && mclose tolf (ident (rows A)) (mm R A) | AExc => false end
  | CSolve C rhs r => match r with AMat R => mclose tolf (map (fun x => [x]) rhs) (mm C R) | AExc => false end
  | CSvd A U W V =>
    mclose tolf A (mm (mm U (diag W)) (mT V)) && mclose tolf (ident (cols U)) (mm (mT U) U) && mclose tolf (ident (cols V)) (mm (mT V) V)
    && mclose tolf (ident (cols V)) (mm V (mT V))
  | CPinv A r =>
    match r with
    | AMat X => mclose tolf A (mm (mm A X) A) && mclose tolf X (mm (mm X A) X) && mclose tolf (mm A X) (mT (mm A X)) && mclose tolf (mm X A) (mT (mm X A))
    | AExc => false
    end
  end.

Fixpoint bad_from (k : nat) (cs : list mcase) : list nat :=
  match cs with [] => [] | c :: r => (if case_ok c then [] else [k]) ++ bad_from (S k) r end.
Definition bad_cases (cs : list mcase) : list nat := bad_from 0 cs.

(* packed storage of SymMat: position of (i, j), 1-based, i <= j  is  j (j - 1) / 2 + i - 1 *)
Definition symmat_pos (i j : nat) : nat := let (a, b) := if Nat.leb i j then (i, j) else (j, i) in (b * (b - 1) / 2 + a - 1)%nat.
Definition symmat_table (n : nat) : list nat := flat_map (fun i => map (fun j => symmat_pos i j) (seq 1 n)) (seq 1 n).
