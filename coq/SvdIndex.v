(* C20, recorded finding  svd-lindep-flags-singular-value-index:  SVD::lindep(i) reports  inv_W(i) == 0, i.e. whether the
   i-th SINGULAR VALUE vanishes; the caller reads it as "unknown i is linearly dependent".  The index of a vanishing
   singular value says nothing about the unknown with the same index: for A = [[0, 1], [0, 0]] = U W V' with U = 1,
   W = diag (1, 0), V the exchange matrix, the vanishing singular value is the second, while the dependent unknown (zero
   column, null vector e1) is the first and the second unknown is determined (A e2 <> 0). *)
From mathcomp Require Import all_ssreflect all_algebra.
Import GRing.Theory Num.Theory.
Local Open Scope ring_scope.

Section R.
Variable F : realFieldType.
(* A = U W V'  with  U = 1,  W = diag (1, 0),  V = the exchange matrix:  A = [[0, 1], [0, 0]] *)
Definition Aex : 'M[F]_2 := \matrix_(i, j) ((nat_of_ord i == 0%N) && (nat_of_ord j == 1%N))%:R.
Definition Wex : 'M[F]_2 := \matrix_(i, j) ((nat_of_ord i == 0%N) && (nat_of_ord j == 0%N))%:R.
Definition Vex : 'M[F]_2 := \matrix_(i, j) (nat_of_ord i != nat_of_ord j)%:R.

Lemma two (i : 'I_2) : i = 0 \/ i = 1.
Proof.
case: i => [[|[|k]] Hk] //; [left|right]; exact/val_inj.
Qed.

Lemma svd_index_is_not_the_unknown :
  [/\ Aex = 1%:M *m Wex *m Vex^T, Vex^T *m Vex = 1%:M, Wex 1 1 = 0,
      Aex *m delta_mx 0 0 = (0 : 'cV_2) & Aex *m delta_mx 1 0 != (0 : 'cV_2)].
Proof.
split.
- rewrite mul1mx; apply/matrixP=> i j; case: (two i)=> ->; case: (two j)=> ->; rewrite !mxE !big_ord_recl big_ord0 !mxE //=; by rewrite ?mulr0 ?mul0r ?mulr1 ?mul1r ?addr0 ?add0r.
- apply/matrixP=> i j; case: (two i)=> ->; case: (two j)=> ->; rewrite !mxE !big_ord_recl big_ord0 !mxE //=; by rewrite ?mulr0 ?mul0r ?mulr1 ?mul1r ?addr0 ?add0r.
- by rewrite !mxE.
- apply/matrixP=> i j; rewrite (ord1 j); case: (two i)=> ->; rewrite !mxE !big_ord_recl big_ord0 !mxE //=; by rewrite ?mulr0 ?mul0r ?mulr1 ?mul1r ?addr0 ?add0r.
- apply/eqP=> /matrixP /(_ 0 0); rewrite !mxE !big_ord_recl big_ord0 !mxE /= mul0r mul1r add0r addr0 => /eqP.
  by rewrite oner_eq0.
Qed.
End R.
