(* C12 (and C09) -- what is reported in a mirrored frame: property theorems only. *)
From mathcomp Require Import all_ssreflect all_algebra.
From Gama Require Import FrameProofs.
Import GRing.Theory Num.Theory.
Local Open Scope ring_scope.

(* coordinates reported as S x (S a signature matrix: y mirrored) together with the covariance matrix S C S give the same
   variance for every derived quantity f' x as the internal frame: this is the matrix the adjustment XML must contain *)
Theorem C12_mirrored_frame_keeps_every_derived_variance (F : realFieldType) n (C S : 'M[F]_n) (f : 'cV[F]_n) :
  S *m S = 1%:M -> S^T = S -> (S *m f)^T *m (S *m C *m S) *m (S *m f) = f^T *m C *m f.
Proof. exact: mirrored_quadratic_form. Qed.
Print Assumptions C12_mirrored_frame_keeps_every_derived_variance.

Theorem C12_mirrored_frame_keeps_every_covariance (F : realFieldType) n (C S : 'M[F]_n) (f g : 'cV[F]_n) :
  S *m S = 1%:M -> S^T = S -> (S *m f)^T *m (S *m C *m S) *m (S *m g) = f^T *m C *m g.
Proof. exact: mirrored_covariance_is_congruence. Qed.
Print Assumptions C12_mirrored_frame_keeps_every_covariance.

(* what the writer did before the repair -- mirrored coordinates with the unmirrored matrix -- changes derived variances *)
Theorem C12_unmirrored_matrix_with_mirrored_coordinates_refuted (F : realFieldType) :
  Sw F *m Sw F = 1%:M /\ (Sw F)^T = Sw F /\ (Sw F *m fw F)^T *m Cw F *m (Sw F *m fw F) != (fw F)^T *m Cw F *m fw F.
Proof. exact: unmirrored_matrix_refuted. Qed.
Print Assumptions C12_unmirrored_matrix_with_mirrored_coordinates_refuted.
