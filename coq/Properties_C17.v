(* C17 -- statistical critical values invert the distributions they belong to: property theorems only.
   Universal statements for the closed forms; the accuracy of the approximations (Normal, Student N>=3, Chi_square n>=3)
   is certified per sample by kernel-checked interval integration in the generated certificates (checks/c17.py). *)
From Coq Require Import Reals Lra.
From Gama Require Import StatProofs.
Local Open Scope R_scope.

Theorem C17_student_1_is_the_true_quantile alpha : 0 < alpha < 1 -> 1 - F1 (student1 alpha) = alpha.
Proof. exact (student_1_exact alpha). Qed.
Print Assumptions C17_student_1_is_the_true_quantile.

Theorem C17_student_2_is_the_true_quantile alpha : 0 < alpha <= 1 / 2 -> 1 - F2 (student2 alpha) = alpha.
Proof. exact (student_2_exact alpha). Qed.
Print Assumptions C17_student_2_is_the_true_quantile.

Theorem C17_chi_square_2_is_the_true_quantile p : 0 < p -> exp (- (-2 * ln p) / 2) = p.
Proof. exact (chi2_2_exact p). Qed.

Theorem C17_chi_square_1_via_normal (Phi Nq : R -> R) p :
  (forall a, 0 < a < 1 -> 1 - Phi (Nq a) = a) -> 0 < p < 1 -> 2 * (1 - Phi (Nq (p / 2))) = p.
Proof. exact (chi2_1_via_normal Phi Nq p). Qed.

(* Normal and Student evaluate one formula at min(alpha, 1 - alpha) and flip the sign: exactly antisymmetric *)
Theorem C17_critical_values_are_symmetric (core : R -> R) alpha : alpha <> 1 / 2 ->
  sym_quantile core (1 - alpha) = - sym_quantile core alpha.
Proof. exact (quantile_symmetric core alpha). Qed.
Print Assumptions C17_critical_values_are_symmetric.

Theorem C17_student_2_monotone a b : 0 < a -> a < b -> b <= 1 / 2 -> student2 b < student2 a.
Proof. exact (student_2_decreasing a b). Qed.

Example C17_example : 1 - F1 (student1 (1 / 4)) = 1 / 4.
Proof. apply student_1_exact. lra. Qed.
