#!/bin/sh
# offline setup: full .vo build of the Coq development (no -vos), nothing else is prebuilt
set -e
cd "$(dirname "$0")/coq"
ls *.v | sort | awk 'BEGIN{print "-Q . Gama"; print "-arg -w -arg -notation-overridden,-deprecated,-ambiguous-paths"} {print}' > _CoqProject
coq_makefile -f _CoqProject -o Makefile
timeout 3000 make -j16
