#!/bin/sh
# offline setup: full .vo build of the Coq development (no -vos), nothing else is prebuilt.
# GkfGen.v is regenerated from /repo's gkfparser.{h,cpp} (C11 translator); a target that no longer builds is
# reported by the check that owns it, not here.
set -e
HERE="$(cd "$(dirname "$0")" && pwd)"
python3 "$HERE/tools/gkf_translate.py" /repo "$HERE/coq/GkfGen.v" || echo "setup: translator failed, keeping the committed coq/GkfGen.v (C11 reports it)"
python3 "$HERE/tools/dp_translate.py" /repo "$HERE/coq/DpGen.v" || echo "setup: DataParser translator failed, keeping the committed coq/DpGen.v (C11 reports it)"
cd "$HERE/coq"
ls *.v | sort | awk 'BEGIN{print "-Q . Gama"; print "-arg -w -arg -notation-overridden,-deprecated,-ambiguous-paths"} {print}' > _CoqProject
coq_makefile -f _CoqProject -o Makefile
timeout 3000 make -k -j16 || echo "setup: some Coq targets did not build (the owning checks report them)"
