// Adj: cofactors / defect asked before the unknowns
#include "adjh.h"
int main(int argc,char**argv)
{
  int mode = argc>1? atoi(argv[1]):0;
  std::vector<std::vector<double>> A = {{1,0},{0,1},{1,1},{1,-1}};
  std::vector<double> b = {1.0,2.1,2.9,-1.2};
  std::vector<Blk> cov = { {4,0,{1,1,1,1}} };
  Adj adj; adj.set(make_data(A,b,cov));
  if (mode==0) std::cout << "q_xx(1,1) = " << adj.q_xx(1,1) << "\n";
  if (mode==1) std::cout << "defect = " << adj.defect() << "\n";
  if (mode==2) std::cout << "q_bb(1,1) = " << adj.q_bb(1,1) << "\n";
  if (mode==3) { adj.x(); std::cout << "after x(): q_xx(1,1) = " << adj.q_xx(1,1) << " q_bb(1,1) = " << adj.q_bb(1,1) << " rtr " << adj.rtr() << "\n"; }
  if (mode==4) std::cout << "rtr = " << adj.rtr() << "\n";
}
