// Adj::set() called with a second data set, used the way g3::Model::update_linearization() does:
// the caller owns the AdjInputData object (Model::~Model deletes it, ~Adj does not)
#include "adjh.h"
int main()
{
  std::vector<std::vector<double>> A = {{1,0},{0,1},{1,1},{1,-1}};
  std::vector<double> b = {1.0,2.1,2.9,-1.2};
  std::vector<Blk> cov = { {4,0,{1,1,1,1}} };
  Adj adj;
  AdjInputData* data = make_data(A,b,cov);
  adj.set(data);
  std::cout << "x1 = " << adj.x()(1) << "\n";
  delete data;                       // as in g3_model_linearization.cpp:99
  b[0] = 1.5;
  data = make_data(A,b,cov);
  adj.set(data);                     // Adj::init(): delete data (the old, already released object)
  std::cout << "x1 = " << adj.x()(1) << "\n";
  delete data;                       // as in Model::~Model
}
