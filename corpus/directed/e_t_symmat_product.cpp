// SymMat * SymMat returns a SymMat: the upper triangle of the product is lost
#include <matvec/matvec.h>
#include <matvec/symmat.h>
#include <iostream>
using namespace GNU_gama;
int main()
{
  SymMat<> A(2), B(2);
  A(1,1)=1; A(2,1)=2; A(2,2)=3;      // [1 2; 2 3]
  B(1,1)=0; B(2,1)=1; B(2,2)=0;      // [0 1; 1 0]
  auto P = A*B;                      // true product [2 1; 3 2] is not symmetric
  Mat<>    Q = Square(A)*Square(B);
  const MatBase<>& Pb = P;
  std::cout << "A*B:\n" << Pb << "Square(A)*Square(B):\n" << Q;
  std::cout << "element (1,2): expected " << Q(1,2) << " obtained " << P(1,2) << "\n";
  return P(1,2) != Q(1,2);
}
