// covariance block that is not positive definite / has variances below 1e-14
#include "adjh.h"
int main(int argc,char**argv)
{
  int mode = argc>1? atoi(argv[1]):0;
  std::vector<std::vector<double>> A = {{1,0},{0,1},{1,1},{1,-1}};
  std::vector<double> b = {1.0,2.1,2.9,-1.2};
  std::vector<Blk> cov;
  if (mode==0) cov = { {2,1,{1.0,2.0,1.0}}, {2,0,{1.0,1.0}} };          // [1 2;2 1] indefinite
  if (mode==1) cov = { {4,0,{4e-16,1e-16,9e-16,1e-16}} };               // stdev 1e-8..3e-8 (e.g. radians)
  if (mode==2) cov = { {4,0,{4,1,9,1}} };                               // same weights ratio, scaled by 1e16
  for (int alg=0; alg<4; alg++) {
    Adj adj; adj.set(make_data(A,b,cov)); adj.set_algorithm(Adj::algorithm(alg));
    try {
      const Vec<>& x = adj.x();
      std::cout.precision(10);
      std::cout << algname(alg) << ": x = " << x(1) << " " << x(2) << "  rtr = " << adj.rtr() << "\n";
    } catch (Exception::matvec& e) { std::cout << algname(alg) << ": exception: " << e.what() << "\n"; }
  }
}
