// AdjSVD: a regularisation subset that does not resolve the defect, given AFTER the first solution
#include <matvec/matvec.h>
#include <gnu_gama/adj/adj_svd.h>
#include <gnu_gama/adj/adj_gso.h>
#include <iostream>
using namespace GNU_gama;
typedef Exception::matvec Exc;
template <class S> void run(const char* name, bool solve_first)
{
  Mat<> A(3,3); Vec<> b(3);
  double a[3][3] = {{-1,1,0},{0,-1,1},{-1,0,1}};          // free levelling line, defect 1
  for (int i=0;i<3;i++){ for(int j=0;j<3;j++) A(i+1,j+1)=a[i][j]; } b(1)=1; b(2)=1.1; b(3)=2;
  S s; s.reset(A,b);
  std::cout << name << (solve_first ? " [x; min_x{}; x]: " : " [min_x{}; x]: ");
  if (solve_first) { const Vec<>& x = s.unknowns(); std::cout << "x = " << x(1) << " " << x(2) << " " << x(3) << "; "; }
  int none[1] = {0};
  try { s.min_x(0, none); } catch (Exc& e) { std::cout << "min_x throws; "; }
  try { const Vec<>& x = s.unknowns(); std::cout << "x = " << x(1) << " " << x(2) << " " << x(3) << "\n"; }
  catch (Exc& e) { std::cout << "unknowns() throws BadRegularization\n"; }
}
int main()
{
  run<AdjSVD<double,int,Exc>>("svd", false);
  run<AdjSVD<double,int,Exc>>("svd", true);
  run<AdjGSO<double,int,Exc>>("gso", false);
  run<AdjGSO<double,int,Exc>>("gso", true);
}
