// operator*(const Vec&, const TransMat&): dimension check and strides
#include <matvec/matvec.h>
#include <iostream>
using namespace GNU_gama;
int main()
{
  Mat<> M(3,2);                  // trans(M) is 2x3
  for (int i=1;i<=3;i++) for (int j=1;j<=2;j++) M(i,j)=10*i+j;
  Vec<> b(2); b(1)=1; b(2)=2;
  try {
    auto t = b * trans(M);       // accepted because trans(M).rows()==b.dim(); reads b(3)
    std::cout << "result dim " << t.dim() << ": " << t(1) << " " << t(2) << "\n";
  } catch (Exception::matvec& e) { std::cout << "exception: " << e.what() << "\n"; }
}
