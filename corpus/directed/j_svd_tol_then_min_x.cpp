#include <matvec/svd.h>
#include <cstdio>
using namespace GNU_gama;
int main(){
  Mat<> A(3,2); A(1,1)=1; A(1,2)=0; A(2,1)=0; A(2,2)=1e-3; A(3,1)=0; A(3,2)=0;
  SVD<> s(A);
  s.decompose();                       // full rank, defect 0, minV stays empty
  std::printf("nullity %d\n", s.nullity());
  s.tol(0.01);                         // now the small singular value is "zero": defect 1
  std::printf("nullity %d\n", s.nullity());
  int list[] = {1,2};
  s.min_x(2, list);                    // V_ = minV (0x0), V[1] = nullptr-1, min_subset_x reads it
  std::printf("V is %dx%d\n", s.SVD_V().rows(), s.SVD_V().cols());
}
