// MemRep copy assignment between objects of different sizes; copies of empty objects
#include <matvec/matvec.h>
#include <iostream>
#include <sstream>
using namespace GNU_gama;
int main(int argc, char** argv)
{
  int mode = argc > 1 ? atoi(argv[1]) : 0;
  if (mode == 0) {            // leak: old buffer is never released
    Vec<> big(1000), small(3);
    for (int i=0; i<1000; i++) { big = small; small.reset(3+i%2); big.reset(1000); }
    std::cout << "done (run with detect_leaks=1)\n";
  }
  if (mode == 1) {            // copy of an empty vector
    Vec<> e; Vec<> c(e);
    std::cout << "copy of empty vec ok, dim " << c.dim() << "\n";
  }
  if (mode == 2) {            // assignment between empty vectors
    Vec<> e, f; f = e;
    std::cout << "assign of empty vec ok\n";
  }
  if (mode == 3) {            // stream input, negative dimension
    // a negative dimension must be refused by an exception of the library (as the constructor does), not computed with
    try { Vec<> v; std::istringstream s("-1 5"); s >> v; std::cout << "dim " << v.dim() << "\n"; }
    catch (const GNU_gama::Exception::matvec& e) { std::cout << "refused: " << e.what() << "\n"; }
  }
  if (mode == 4) {
    Mat<> m; std::istringstream s("-2 3 1 2 3 4 5 6"); s >> m; std::cout << m.rows() << " " << m.cols() << "\n";
    Mat<> n; std::istringstream s2("-2 -3 1 2 3 4 5 6"); s2 >> n; std::cout << n.rows() << " " << n.cols() << "\n";
    n.set_zero();
  }
}
