#include <matvec/matvec.h>
#include <matvec/symmat.h>
#include <matvec/bandmat.h>
#include <matvec/covmat.h>
#include <matvec/gso.h>
#include <gnu_gama/adj/envelope.h>
#include <iostream>
using namespace GNU_gama;
int main(int argc,char**argv)
{
  int mode = argc>1? atoi(argv[1]):0;
  if (mode==0) {   // eigenvalues of a diagonal band matrix
    BandMat<> B(3,0); B(1,1)=1; B(2,2)=2; B(3,3)=3; Vec<> e; B.eigenVal(e);
    std::cout << "eig: " << e(1) << " " << e(2) << " " << e(3) << "\n";
  }
  if (mode==1) {   // singular SymMat
    SymMat<> S(2); S(1,1)=1; S(2,1)=1; S(2,2)=1;
    try { S.invert(); std::cout << "no exception: " << S(1,1) << " " << S(2,1) << " " << S(2,2) << "\n"; }
    catch (Exception::matvec& e) { std::cout << "exception " << e.what() << "\n"; }
    SymMat<> Z(1); Z(1,1)=0; try { Z.invert(); std::cout << "1x1 zero: " << Z(1,1) << "\n"; } catch (Exception::matvec& e) { std::cout << "exception " << e.what() << "\n"; }
  }
  if (mode==2) {   // Envelope from a banded BlockDiagonal
    double b1[] = {4,1,0.5, 5,2, 6};     // dim 3, band 2: [4 1 .5; 1 5 2; .5 2 6]
    BlockDiagonal<double,int> bd(1, 6); bd.add_block(3,2,b1);
    Envelope<double,int> env(bd);
    SymMat<> S = toSymMat(env);
    std::cout << Square(S);
  }
  if (mode==3) {   // legacy GSO, more unknowns than observations
    const int M=1,N=3; Mat<> A(M+N,N+1); A.set_zero(); A(1,1)=1;A(1,2)=1;A(1,3)=1;A(1,4)=-3; for(int i=1;i<=N;i++)A(M+i,i)=1;
    GSO<> g(A,M,N); g.min_x(); g.gso1(); g.gso2();
    std::cout << "defect " << g.defect() << " x = " << A(M+1,N+1) << " " << A(M+2,N+1) << " " << A(M+3,N+1) << "\n";
  }
  if (mode==4) {  // CovMat band > dim
    CovMat<> C(2,3); C.set_zero(); C(1,1)=1; C(2,2)=1; std::cout << C(1,1) << "\n";
  }
  if (mode==5) { // Mat::invert through the base class
    Mat<> A(2,2); A(1,1)=2;A(1,2)=0;A(2,1)=0;A(2,2)=4; MatBase<>& b=A;
    try { b.invert(); std::cout << A(1,1) << "\n"; } catch (Exception::matvec& e) { std::cout << "exception " << e.what() << "\n"; }
    MatBase<>& t=A; t.transpose(); std::cout<<"transpose ok\n";
  }
}
