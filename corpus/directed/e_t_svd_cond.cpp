// AdjSVD::cond(): ratio of largest and smallest NON-ZERO singular value
#include <matvec/matvec.h>
#include <matvec/svd.h>
#include <gnu_gama/adj/adj_svd.h>
#include <iostream>
#include <algorithm>
#include <vector>
using namespace GNU_gama;
typedef Exception::matvec Exc;
int main()
{
  // height differences in a closed levelling line 1-2-3-4-1 (free network, defect 1)
  const int M=5, N=4;
  double a[M][N] = {{-1,1,0,0},{0,-1,1,0},{0,0,-1,1},{1,0,0,-1},{-1,0,1,0}};
  for (int perm=0; perm<2; perm++) {
    Mat<> A(M,N); Vec<> b(M);
    for (int i=0;i<M;i++){ for(int j=0;j<N;j++) A(i+1,j+1)= perm? a[i][N-1-j] : a[i][j]; b(i+1)=0.1*i; }
    AdjSVD<double,int,Exc> s; s.reset(A,b); s.unknowns();
    SVD<> sv(A); sv.decompose();
    std::vector<double> w; std::cout << "singular values:";
    for (int i=1;i<=N;i++){ std::cout << " " << sv.SVD_W()(i); if (sv.SVD_W()(i) > 1e-10) w.push_back(sv.SVD_W()(i)); }
    double expected = *std::max_element(w.begin(),w.end()) / *std::min_element(w.begin(),w.end());
    std::cout << "\n  defect " << s.defect() << "  cond() = " << s.cond() << "   expected " << expected << "\n";
  }
}
