// TransMat member operators: shape of the result
#include <matvec/matvec.h>
#include <iostream>
using namespace GNU_gama;
typedef TransMat<double,int,Exception::matvec> TM;
int main()
{
  Mat<> A(2,3), B(2,3);
  for (int i=1;i<=2;i++) for (int j=1;j<=3;j++) { A(i,j)=10*i+j; B(i,j)=100*(10*i+j); }
  TM At = trans(A), Bt = trans(B);          // both 3x2
  std::cout << "trans(A): " << At.rows() << "x" << At.cols() << "\n";
  TM S = At + Bt;                           // must be 3x2 with S(i,j)=A(j,i)+B(j,i)
  std::cout << "trans(A)+trans(B): " << S.rows() << "x" << S.cols() << "\n";
  int bad=0;
  try {
    for (int i=1;i<=3;i++) for (int j=1;j<=2;j++) {
      double e = A(j,i)+B(j,i);
      double g = S(i,j);
      if (e!=g) { bad++; std::cout << " S("<<i<<","<<j<<") expected "<<e<<" got "<<g<<"\n"; }
    }
  } catch (Exception::matvec& e) { std::cout << "exception " << e.what() << "\n"; }
  TM D = At - Bt;
  std::cout << "trans(A)-trans(B): " << D.rows() << "x" << D.cols() << "\n";
  // consequence: the sum cannot be multiplied with a conforming matrix
  Mat<> C(2,2); C.set_identity();
  try { Mat<> P = S * C; std::cout << "S*C ok "<<P.rows()<<"x"<<P.cols()<<"\n"; }
  catch (Exception::matvec& e) { std::cout << "(trans(A)+trans(B))*C(2x2) throws: " << e.what() << "\n"; }
  std::cout << "mismatches: " << bad << "\n";
#ifdef SCALAR
  TM M = At * 2.0;    // does not compile: unqualified mul() in a template
#endif
  return bad!=0;
}
