// the same network in different units: rank decision of the four algorithms
#include "adjh.h"
int main()
{
  // levelling loop with 3 unknown heights; regular when point 1 is observed directly (row 5)
  std::vector<std::vector<double>> R = {{-1,1,0},{0,-1,1},{1,0,-1},{-1,0,1},{1,0,0}};
  std::vector<std::vector<double>> S = {{-1,1,0},{0,-1,1},{1,0,-1},{-1,0,1},{-0.7,0.3,0.4}};   // singular (free network)
  std::vector<double> b = {1.001,0.999,-2.002,2.001,0.5};
  std::vector<int> minx = {1,2,3};
  for (int sing=0; sing<2; sing++)
  for (double scale : {1e-5, 1.0, 1e5, 1e7}) {
    std::vector<std::vector<double>> A = sing? S : R; std::vector<double> bb=b;
    for (auto& r: A) for (auto& v: r) v *= scale * (sing? 1.2345678 : 1);
    for (auto& v: bb) v *= scale;
    std::vector<Blk> cov = { {5,0,{1,1,1,1,1}} };
    std::cout << (sing? "singular ":"regular  ") << "scale " << scale << ": true defect " << sing << " |";
    for (int alg=0; alg<4; alg++) {
      Adj adj; adj.set(make_data(A,bb,cov,&minx)); adj.set_algorithm(Adj::algorithm(alg));
      try { const Vec<>& x = adj.x(); std::cout << " " << algname(alg) << " defect=" << adj.defect() << " x1=" << x(1); }
      catch (Exception::matvec& e) { std::cout << " " << algname(alg) << " EXC " << e.what(); }
      adj.set(nullptr);
    }
    std::cout << "\n";
  }
}
