// unknown that appears in no observation (zero column of A): defect and lindep
#include "adjh.h"
int main(int argc,char**argv)
{
  int mode = argc>1? atoi(argv[1]):0;
  std::vector<std::vector<double>> A;
  std::vector<double> b;
  if (mode==0) { A = {{0,1,0},{0,1,1},{0,0,1},{0,1,-1}}; b = {1,3.1,2,-0.9}; }   // unknown 1 unused
  if (mode==1) { A = {{1,0,0},{1,0,1},{0,0,1},{1,0,-1}}; b = {1,3.1,2,-0.9}; }   // unknown 2 unused
  if (mode==2) { A = {{1,0,0},{1,1,0},{0,1,0},{1,-1,0}}; b = {1,3.1,2,-0.9}; }   // unknown 3 unused
  if (mode==3) { A = {{0},{0}}; b = {1,2}; }
  int N=A[0].size();
  std::vector<Blk> cov = { {(int)A.size(),0,std::vector<double>(A.size(),1.0)} };
  std::vector<int> minx; for(int i=1;i<=N;i++) minx.push_back(i);
  for (int alg=0; alg<4; alg++) {
    Adj adj; adj.set(make_data(A,b,cov,&minx)); adj.set_algorithm(Adj::algorithm(alg));
    try {
      const Vec<>& x = adj.x();
      std::cout << algname(alg) << ": defect " << adj.defect() << "  x =";
      for (int i=1;i<=N;i++) std::cout << " " << x(i);
      std::cout << "  q_xx diag =";
      for (int i=1;i<=N;i++) std::cout << " " << adj.q_xx(i,i);
      std::cout << "\n";
    } catch (Exception::matvec& e) { std::cout << algname(alg) << ": exception: " << e.what() << "\n"; }
  }
}
