// helper: build AdjInputData from dense data
#include <gnu_gama/adj/adj.h>
#include <iostream>
#include <vector>
#include <cmath>
using namespace GNU_gama;
struct Blk { int dim, width; std::vector<double> upper; };   // band upper by rows
inline AdjInputData* make_data(const std::vector<std::vector<double>>& A, const std::vector<double>& b,
                        const std::vector<Blk>& cov, const std::vector<int>* minx=nullptr)
{
  int M=A.size(), N=A[0].size(); int nz=0; for(auto&r:A)for(double v:r) if(v!=0) nz++;
  SparseMatrix<>* sm = new SparseMatrix<>(nz, M, N);
  for(int i=0;i<M;i++){ sm->new_row(); for(int j=0;j<N;j++) if(A[i][j]!=0) sm->add_element(A[i][j], j+1); }
  int fl=0; for(auto&c:cov) fl+=c.upper.size();
  BlockDiagonal<>* bd = new BlockDiagonal<>(cov.size(), fl);
  for(auto&c:cov) bd->add_block(c.dim,c.width,c.upper.data());
  Vec<> rhs(M); for(int i=0;i<M;i++) rhs(i+1)=b[i];
  AdjInputData* d = new AdjInputData; d->set_mat(sm); d->set_cov(bd); d->set_rhs(rhs);
  if (minx){ IntegerList<>* l=new IntegerList<>(minx->size()); int k=0; for(int i:*minx) (*l)(k++)=i; d->set_minx(l);}
  return d;
}
inline const char* algname(int a){ const char* n[]={"envelope","gso","svd","cholesky"}; return n[a]; }
