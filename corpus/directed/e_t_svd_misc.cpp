#include <matvec/matvec.h>
#include <matvec/svd.h>
#include <gnu_gama/adj/adj_svd.h>
#include <gnu_gama/adj/adj_gso.h>
#include <gnu_gama/adj/adj_chol.h>
#include <iostream>
using namespace GNU_gama;
typedef Exception::matvec Exc;
int main(int argc, char** argv)
{
  int mode = argc > 1 ? atoi(argv[1]) : 0;
  Mat<> A(4,3); Vec<> b(4);
  double a[4][3] = {{1,-1,0},{0,1,-1},{-1,0,1},{1,0,-1}};   // levelling loop: defect 1
  for (int i=0;i<4;i++){ for(int j=0;j<3;j++) A(i+1,j+1)=a[i][j]; b(i+1)=i+1; }
  if (mode == 0) {
    SVD<> svd(A);
    svd.tol(1e-10);         // set_inv_W() reads through the uninitialised pointer W
    std::cout << "nullity " << svd.nullity() << "\n";
  }
  if (mode == 1) {
    AdjSVD<double,int,Exc> s1(A,b); std::cout << "svd  (A,b) ctor: defect() first = " << s1.defect();
    s1.unknowns(); std::cout << ", after unknowns() = " << s1.defect() << "\n";
    AdjGSO<double,int,Exc> s2(A,b); std::cout << "gso  (A,b) ctor: defect() first = " << s2.defect() << "\n";
    AdjSVD<double,int,Exc> s3; s3.reset(A,b); std::cout << "svd  reset(A,b): defect() first = " << s3.defect() << "\n";
  }
  if (mode == 2) {
    AdjSVD<double,int,Exc> s1(A,b); std::cout << "lindep(1) = " << s1.lindep(1) << "\n";
  }
  if (mode == 3) {
    // cond(): regular, well conditioned system
    for (int t=0;t<2;t++){
    Mat<> R(3,2); Vec<> c(3); 
    if (t==0){ R(1,1)=1; R(1,2)=0; R(2,1)=0; R(2,2)=2; R(3,1)=0; R(3,2)=0;} 
    else { R(1,1)=1; R(1,2)=1; R(2,1)=1; R(2,2)=1; R(3,1)=1; R(3,2)=1; }
    c(1)=1;c(2)=2;c(3)=3;
    AdjSVD<double,int,Exc> s; s.reset(R,c); s.unknowns();
    SVD<> sv(R); sv.decompose(); std::cout << "W = " << sv.SVD_W()(1) << " " << sv.SVD_W()(2) << "  defect " << s.defect() << " cond() = " << s.cond() << "\n"; }
  }
}
