#include <gnu_gama/ellipsoid.h>
#include <gnu_gama/ellipsoids.h>
#include <gnu_gama/gon2deg.h>
#include <iostream>
#include <cmath>
#include <cstring>
#include <random>
#include <algorithm>
using namespace GNU_gama;
int main(){
  // ellipsoid table consistency
  for (int t=1; t<=ellipsoid_wgs84; t++){ Ellipsoid E; if (set(&E,gama_ellipsoid(t))) std::cout<<"set fails "<<t<<"\n"; if (E.id!=t) std::cout<<"id mismatch "<<t<<"\n";
    if (ellipsoid(gama_ellipsoid_id[t])!=t) std::cout<<"name lookup mismatch "<<t<<" "<<gama_ellipsoid_id[t]<<"\n";
    if (!(E.a()>6.3e6 && E.a()<6.4e6 && E.b()>6.3e6 && E.b()<E.a())) std::cout<<"odd axes "<<gama_ellipsoid_id[t]<<" "<<E.a()<<" "<<E.b()<<"\n";
    // round trip
    std::mt19937 rng(t); std::uniform_real_distribution<double> ub(-M_PI/2,M_PI/2), ul(-M_PI,M_PI), uh(-1e4,2e7);
    double worst=0;
    for(int i=0;i<20000;i++){ double b=ub(rng), l=ul(rng), h=uh(rng); if(i%50==0) b= (i%100?1:-1)*(M_PI/2 - 1e-9*(i%7)); if(i%77==0) b=0; if(i%91==0) l=M_PI; if (i%93==0) l=-M_PI+1e-12;
      double x,y,z,b2,l2,h2; E.blh2xyz(b,l,h,x,y,z); E.xyz2blh(x,y,z,b2,l2,h2);
      double dl=std::abs(l2-l); if(dl>M_PI) dl=2*M_PI-dl; if (std::abs(std::abs(b)-M_PI/2)<1e-8) dl=0;
      double err=std::max({std::abs(b2-b)*6.4e6, dl*6.4e6*std::cos(b), std::abs(h2-h)});
      if(!(err<1e20)) { std::cout<<"nan "<<gama_ellipsoid_id[t]<<" b="<<b<<" l="<<l<<" h="<<h<<"\n"; break; }
      double lim = h<1e5? 1e-4 : 0.1; if (err>lim && err>worst){ worst=err; std::cout.precision(12); std::cout<<gama_ellipsoid_id[t]<<" b="<<b<<" l="<<l<<" h="<<h<<" err[m]="<<err<<" b2="<<b2<<" h2="<<h2<<"\n"; }
    }
  }
  // angles
  std::cout<<"gon2deg(-0.00001,2,1) = '"<<gon2deg(-0.00001,2,1)<<"'\n";
  std::cout<<"gon2deg(399.99999,0,2) = '"<<gon2deg(399.999999,0,2)<<"'\n";
  std::cout<<"gon2deg(400,0,2) = '"<<gon2deg(400,0,2)<<"'\n";
  std::cout<<"gon2deg(-100,0,2) = '"<<gon2deg(-100,0,2)<<"' sign1 '"<<gon2deg(-100,1,2)<<"' sign2 '"<<gon2deg(-100,2,2)<<"' sign3 '"<<gon2deg(-100,3,2)<<"'\n";
  std::cout<<"gon2deg(-1,2,2) = '"<<gon2deg(-1,2,2)<<"' (-11,2,2) '"<<gon2deg(-11,2,2)<<"' (-111,2,2) '"<<gon2deg(-111.5,2,2)<<"' (-0.5,1,2) '"<<gon2deg(-0.5,1,2)<<"'\n";
  // round trip gon -> string -> gon
  std::mt19937 rng(5); std::uniform_real_distribution<double> ug(-400,400); int bad=0;
  for(int i=0;i<200000;i++){ double g=ug(rng); for(int sign: {1,2,3}) for(int prec: {0,1,4}){ std::string s=gon2deg(g,sign,prec); double g2; if(!deg2gon(s,g2)){ if(bad++<10) std::cout<<"deg2gon rejects '"<<s<<"' from "<<g<<" sign "<<sign<<"\n"; continue;} double tol=0.5*std::pow(10.0,-prec)/3240.0*1.0001+1e-12; if(std::abs(g2-g)>tol){ if(bad++<10) std::cout<<"roundtrip "<<g<<" -> '"<<s<<"' -> "<<g2<<"\n";} 
     // fields
     int d,m; double sec; char c1,c2; std::string t=s; size_t p=t.find_first_not_of(" -"); if(sscanf(t.c_str()+p,"%d-%d-%lf",&d,&m,&sec)==3){ if(m>=60||sec>=60){ if(bad++<10) std::cout<<"field range '"<<s<<"'\n";} } }
  }
  std::cout<<"angle string failures "<<bad<<"\n";
  // deg2gon literals
  const char* lits[]={"10-20-30","10-20-30.5"," 10-20-30 ","+10-20-30","-10-20-30","10-60-30","10-20-60","10-20","10-20-","10--20-30","10-20-30x","1e1-20-30","10-20-3e1","10-20-+30","10- 20-30","10-20-.5","- 10-20-30","10-20-30-","10.5-20-30","10-20.5-30","10-20-nan","10-20-inf","10-20-0x10"};
  for(auto s:lits){ double g=-999; bool ok=deg2gon(s,g); std::cout<<"deg2gon('"<<s<<"') = "<<ok<<" "<<(ok?g:0)<<"\n"; }
  // dms2rad / rad2dms
  int bad2=0; for(int d=0;d<360;d++)for(int m=0;m<60;m++){ int s=0; double rad=(d+m/60.0+s/3600.0)*M_PI/180; double dms=d+m/100.0+s/10000.0; double r=dms2rad(dms); if(std::abs(r-rad)>1e-9){ if(bad2++<5){ std::cout.precision(12); std::cout<<"dms2rad("<<dms<<") = "<<r<<" expected "<<rad<<" diff[\"] "<<(r-rad)*648000/M_PI<<"\n";} } }
  std::cout<<"dms2rad failures on whole minutes: "<<bad2<<" of 21600\n";
  int bad3=0; for(int i=0;i<100000;i++){ double r=(i+0.5)/100000*2*M_PI; double r2=dms2rad(rad2dms(r)); if(std::abs(r2-r)>1e-9){ if(bad3++<3) std::cout<<"roundtrip rad "<<r<<" -> "<<rad2dms(r)<<" -> "<<r2<<"\n";} }
  std::cout<<"rad->dms->rad failures "<<bad3<<"\n";
}
