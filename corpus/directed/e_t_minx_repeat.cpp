// regularisation list with a repeated index: cofactors are no longer a generalised inverse
#include "adjh.h"
int main()
{
  // free levelling line 1-2-3 (defect 1)
  std::vector<std::vector<double>> A = {{-1,1,0},{0,-1,1},{-1,0,1}};
  std::vector<double> b = {1.0,1.1,2.0};
  std::vector<Blk> cov = { {3,0,{1,1,1}} };
  for (int rep=0; rep<2; rep++) {
    std::vector<int> minx = rep ? std::vector<int>{1,1,2,2} : std::vector<int>{1,2};
    std::cout << (rep? "min_x = {1,1,2,2}\n" : "min_x = {1,2}\n");
    for (int alg=0; alg<4; alg++) {
      Adj adj; adj.set(make_data(A,b,cov,&minx)); adj.set_algorithm(Adj::algorithm(alg));
      const Vec<>& x = adj.x();
      Mat<> Q(3,3), N(3,3); for(int i=1;i<=3;i++)for(int j=1;j<=3;j++){ Q(i,j)=adj.q_xx(i,j); double s=0; for(int k=0;k<3;k++) s+=A[k][i-1]*A[k][j-1]; N(i,j)=s; }
      Mat<> R = Q*N*Q - Q; double e=0; for(int i=1;i<=3;i++)for(int j=1;j<=3;j++) e=std::max(e,std::abs(R(i,j)));
      std::cout << "  " << algname(alg) << ": x = " << x(1) << " " << x(2) << " " << x(3) << "  q_xx(1,1) = " << Q(1,1) << " q_xx(3,3) = " << Q(3,3) << "  max|QNQ-Q| = " << e << "\n";
    }
  }
}
